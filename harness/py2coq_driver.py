"""Translator for the verifier's DRIVER -> Gallina (coq/gen/PyVerifier.v).

What is translated (fail-closed: anything outside the small subset below raises Untranslatable):

  src/fcp/verifier.py   class Verifier: __init__ (the category list and the check table), register, run_checks, verify
                        the order in which make_general_verifier() and the plug-ins' register_checks decorate their checks
  src/fcp/specs/v2.py   _flatten, FcpV2.get(category)

The translation of a method keeps its statement structure:

  register            checks -> function -> option category -> pyres checks       (the new value of self.checks)
  run_checks, verify  checks -> ... -> vres   (Ok(()) | an error value | an exception | Nothing()), statement sequencing = rseq
  FcpV2.get           ftree -> category -> option (list vnode)                    (Some(...) / Nothing())

Subset.  register: `if <name> is None:` / `if <name> not in self.categories:` with a body that ends in return / raise,
`self.checks[<key>].append(<name>)`, `return`, `raise ValueError(...)`.  run_checks / verify (both must be decorated with exactly
@catch): `for <x> in <iter>: <body>` with <iter> one of `self.checks.get(<name>) or []`, `<fcp>.get(<name>).attempt()`,
`self.categories`; the statement `<check>(<fcp>, <fcp>, <node>).attempt()` where <check> is the loop variable over the check list;
the statement `self.run_checks(<name>, <fcp>).attempt()`; a final `return Ok(())`.  get: an if/elif chain on
`category == "<literal>"` whose branches return Some(<list expression>) and whose else returns Nothing(); list expressions:
self.<attribute>, self.get_types(), list comprehensions (one or two generators), tuples, <x>.<attribute>, _flatten(<expr>).
"""
import ast
import os

from py2coq import Untranslatable
from py2coq_checks import registered_checks_in

# attribute -> (Gallina accessor, static type of the result)
ATTR = {
    ("ftree", "structs"): ("t_structs", "list:sstruct"), ("ftree", "enums"): ("t_enums", "list:senum"), ("ftree", "impls"): ("t_impls", "list:simpl"),
    ("ftree", "services"): ("t_services", "list:svc"), ("ftree", "devices"): ("t_devices", "list:sdevice"),
    ("sstruct", "fields"): ("sfields", "list:sfield"), ("simpl", "signals"): ("isignals", "list:sigblock"),
}
# what a node of that static type is wrapped in
NODE_CON = {"sstruct": "NStruct", "senum": "NEnum", "simpl": "NImpl", "pair:sstruct,sfield": "NField", "sigblock": "NSigBlock", "tnode": "NType",
            "svc": "NService", "sdevice": "NDevice"}


def cstr(s):
    if '"' in s or "\\" in s:
        raise Untranslatable(f"string literal {s!r}")
    return f'"{s}"%string'


def strip_doc(body):
    if body and isinstance(body[0], ast.Expr) and isinstance(body[0].value, ast.Constant) and isinstance(body[0].value.value, str):
        return body[1:]
    return body


def find_class(tree, name):
    for node in tree.body:
        if isinstance(node, ast.ClassDef) and node.name == name:
            return node
    raise Untranslatable(f"class {name}")


def find_def(body, name):
    for node in body:
        if isinstance(node, ast.FunctionDef) and node.name == name:
            return node
    raise Untranslatable(f"def {name}")


def decorators(fn):
    return [ast.unparse(d) for d in fn.decorator_list]


# ---------------------------------------------------------------- Verifier.__init__
def translate_init(fn):
    body = strip_doc(fn.body)
    if [a.arg for a in fn.args.args] != ["self"] or len(body) != 2:
        raise Untranslatable("Verifier.__init__")
    a, b = body
    if not (isinstance(a, ast.Assign) and ast.unparse(a.targets[0]) == "self.categories" and isinstance(a.value, ast.List)
            and all(isinstance(e, ast.Constant) and isinstance(e.value, str) for e in a.value.elts)):
        raise Untranslatable("self.categories = [...]")
    cats = [e.value for e in a.value.elts]
    tgt = b.target if isinstance(b, ast.AnnAssign) else (b.targets[0] if isinstance(b, ast.Assign) and len(b.targets) == 1 else None)
    v = b.value
    if not (tgt is not None and ast.unparse(tgt) == "self.checks" and isinstance(v, ast.DictComp) and len(v.generators) == 1
            and not v.generators[0].ifs and ast.unparse(v.generators[0].iter) == "self.categories"
            and isinstance(v.generators[0].target, ast.Name) and ast.unparse(v.key) == v.generators[0].target.id
            and isinstance(v.value, ast.List) and not v.value.elts):
        raise Untranslatable("self.checks = {category: [] for category in self.categories}")
    x = v.generators[0].target.id
    return cats, (f"Definition py_categories : list string := [{'; '.join(cstr(c) for c in cats)}].\n"
                  f"Definition py_init : vchecks := map (fun {x} => ({x}, [])) py_categories.\n")


# ---------------------------------------------------------------- Verifier.register
class Register:
    def __init__(self, fn):
        args = [a.arg for a in fn.args.args]
        if len(args) != 3 or args[0] != "self" or fn.decorator_list:
            raise Untranslatable("signature of Verifier.register")
        self.function, self.category = args[1], args[2]
        d = fn.args.defaults
        if len(d) != 1 or not (isinstance(d[0], ast.Constant) and d[0].value is None):
            raise Untranslatable("default of category")
        self.body = strip_doc(fn.body)
        self.some = False            # inside the branch where category is known not to be None

    def key(self, e):
        if isinstance(e, ast.Constant) and isinstance(e.value, str):
            return cstr(e.value)
        if isinstance(e, ast.Name) and e.id == self.category and self.some:
            return e.id
        raise Untranslatable(f"key {ast.unparse(e)}")

    def block(self, stmts):
        if not stmts:
            return "POk checks"
        st, rest = stmts[0], stmts[1:]
        if isinstance(st, ast.Return) and st.value is None:
            return "POk checks"
        if isinstance(st, ast.Raise) and isinstance(st.exc, ast.Call) and ast.unparse(st.exc.func) == "ValueError":
            return "PRaise PyValueError"
        if isinstance(st, ast.Expr) and isinstance(st.value, ast.Call) and isinstance(st.value.func, ast.Attribute) and st.value.func.attr == "append" \
                and isinstance(st.value.func.value, ast.Subscript) and ast.unparse(st.value.func.value.value) == "self.checks" \
                and len(st.value.args) == 1 and isinstance(st.value.args[0], ast.Name) and st.value.args[0].id == self.function:
            k = self.key(st.value.func.value.slice)
            return f"match dict_append checks {k} {self.function} with None => PRaise PyKeyError | Some checks => {self.block(rest)} end"
        if isinstance(st, ast.If) and not st.orelse:
            if not st.body or not isinstance(st.body[-1], (ast.Return, ast.Raise)):
                raise Untranslatable("if-branch that falls through")
            t = st.test
            if isinstance(t, ast.Compare) and len(t.ops) == 1 and isinstance(t.ops[0], ast.Is) and isinstance(t.left, ast.Name) and t.left.id == self.category \
                    and isinstance(t.comparators[0], ast.Constant) and t.comparators[0].value is None and not self.some:
                none = self.block(st.body)
                self.some = True
                some = self.block(rest)
                return f"match {self.category} with None => {none} | Some {self.category} => {some} end"
            if isinstance(t, ast.Compare) and len(t.ops) == 1 and isinstance(t.ops[0], ast.NotIn) and isinstance(t.left, ast.Name) and t.left.id == self.category \
                    and ast.unparse(t.comparators[0]) == "self.categories" and self.some:
                return f"if negb (existsb (String.eqb {self.category}) py_categories) then {self.block(st.body)} else {self.block(rest)}"
        raise Untranslatable(f"register: {ast.unparse(st)}")

    def translate(self):
        return (f"Definition py_register (checks : vchecks) ({self.function} : vcheck) ({self.category} : option string) : pyres vchecks :=\n"
                f"  {self.block(self.body)}.\n")


# ---------------------------------------------------------------- run_checks / verify
class Runner:
    def __init__(self, fn, params):
        if decorators(fn) != ["catch"]:
            raise Untranslatable(f"decorators of {fn.name}")
        args = [a.arg for a in fn.args.args]
        if len(args) != len(params) + 1 or args[0] != "self":
            raise Untranslatable(f"signature of {fn.name}")
        self.fn = fn
        self.env = dict(zip(args[1:], params))           # name -> static type: string | ftree | vcheck | vnode
        self.body = strip_doc(fn.body)

    def name_of(self, e, ty):
        if isinstance(e, ast.Name) and self.env.get(e.id) == ty:
            return e.id
        raise Untranslatable(f"{ast.unparse(e)} is no {ty}")

    def for_head(self, it):
        """(combinator applied to the sequence, static type of the loop variable)"""
        if ast.unparse(it) == "self.categories":
            return "rfor py_categories", "string"
        if isinstance(it, ast.BoolOp) and isinstance(it.op, ast.Or) and len(it.values) == 2 and isinstance(it.values[1], ast.List) and not it.values[1].elts:
            c = it.values[0]
            if isinstance(c, ast.Call) and ast.unparse(c.func) == "self.checks.get" and len(c.args) == 1 and not c.keywords:
                return f"rfor (dict_get_list checks {self.name_of(c.args[0], 'string')})", "vcheck"
        if isinstance(it, ast.Call) and isinstance(it.func, ast.Attribute) and it.func.attr == "attempt" and not it.args:
            g = it.func.value
            if isinstance(g, ast.Call) and isinstance(g.func, ast.Attribute) and g.func.attr == "get" and len(g.args) == 1 and not g.keywords:
                return f"rfor_maybe (py_get {self.name_of(g.func.value, 'ftree')} {self.name_of(g.args[0], 'string')})", "vnode"
        raise Untranslatable(f"loop over {ast.unparse(it)}")

    def stmt(self, st):
        if isinstance(st, ast.For) and not st.orelse and isinstance(st.target, ast.Name):
            head, ty = self.for_head(st.iter)
            saved = dict(self.env)
            self.env[st.target.id] = ty
            body = self.block(st.body, must_return=False)
            self.env = saved
            return f"{head} (fun {st.target.id} => {body})"
        if isinstance(st, ast.Expr) and isinstance(st.value, ast.Call) and isinstance(st.value.func, ast.Attribute) and st.value.func.attr == "attempt" \
                and not st.value.args:
            c = st.value.func.value
            if isinstance(c, ast.Call) and isinstance(c.func, ast.Name) and self.env.get(c.func.id) == "vcheck" and len(c.args) == 3 and not c.keywords:
                # check(fcp, fcp, node): the first argument stands for `self` of the check and is never used by one
                f1, f2, n = (self.name_of(c.args[0], "ftree"), self.name_of(c.args[1], "ftree"), self.name_of(c.args[2], "vnode"))
                if f1 != f2:
                    raise Untranslatable("check(self, fcp, node) with two different trees")
                return f"attempt_check {c.func.id} {f2} {n}"
            if isinstance(c, ast.Call) and ast.unparse(c.func) == "self.run_checks" and len(c.args) == 2 and not c.keywords:
                return f"py_run_checks checks {self.name_of(c.args[0], 'string')} {self.name_of(c.args[1], 'ftree')}"
        raise Untranslatable(f"{self.fn.name}: {ast.unparse(st)}")

    def block(self, stmts, must_return):
        if not stmts:
            if must_return:
                raise Untranslatable(f"{self.fn.name} falls off its end")
            return "ROk"
        st, rest = stmts[0], stmts[1:]
        if isinstance(st, ast.Return):
            if rest or ast.unparse(st.value) != "Ok(())":
                raise Untranslatable(f"{self.fn.name}: {ast.unparse(st)}")
            return "ROk"
        return f"rseq ({self.stmt(st)}) ({self.block(rest, must_return)})"

    def translate(self, coq_name):
        ps = " ".join(f"({n} : {ty})" for n, ty in self.env.items())
        return f"Definition {coq_name} (checks : vchecks) {ps} : vres :=\n  {self.block(self.body, must_return=True)}.\n"


# ---------------------------------------------------------------- _flatten and FcpV2.get
class ListExpr:
    def __init__(self, env):
        self.env = dict(env)

    def expr(self, e):
        """-> (Gallina term, static type)"""
        if isinstance(e, ast.Name) and e.id in self.env:
            return (e.id if e.id == "self" else e.id + "_"), self.env[e.id]
        if isinstance(e, ast.Attribute):
            b, t = self.expr(e.value)
            if (t, e.attr) in ATTR:
                acc, rt = ATTR[(t, e.attr)]
                return f"({acc} {b})", rt
        if isinstance(e, ast.Call) and isinstance(e.func, ast.Attribute) and e.func.attr == "get_types" and not e.args and not e.keywords:
            b, t = self.expr(e.func.value)
            if t == "ftree":
                return f"(get_types {b})", "list:tnode"
        if isinstance(e, ast.Call) and isinstance(e.func, ast.Name) and e.func.id == "_flatten" and len(e.args) == 1 and not e.keywords:
            b, t = self.expr(e.args[0])
            if t.startswith("list:list:"):
                return f"(py_flatten {b})", t[5:]
        if isinstance(e, ast.Tuple) and len(e.elts) == 2:
            (a, ta), (b, tb) = self.expr(e.elts[0]), self.expr(e.elts[1])
            return f"({a}, {b})", f"pair:{ta},{tb}"
        if isinstance(e, ast.ListComp) and 1 <= len(e.generators) <= 2 and all(not g.ifs and not g.is_async and isinstance(g.target, ast.Name) for g in e.generators):
            saved = dict(self.env)
            g = e.generators[0]
            src, st = self.expr(g.iter)
            if not st.startswith("list:"):
                raise Untranslatable(f"iteration over {ast.unparse(g.iter)}")
            self.env[g.target.id] = st[5:]
            if len(e.generators) == 1:
                body, bt = self.expr(e.elt)
                self.env = saved
                return f"(map (fun {g.target.id}_ => {body}) {src})", "list:" + bt
            g2 = e.generators[1]
            src2, st2 = self.expr(g2.iter)
            if not st2.startswith("list:"):
                raise Untranslatable(f"iteration over {ast.unparse(g2.iter)}")
            self.env[g2.target.id] = st2[5:]
            body, bt = self.expr(e.elt)
            self.env = saved
            return f"(flat_map (fun {g.target.id}_ => map (fun {g2.target.id}_ => {body}) {src2}) {src})", "list:" + bt
        raise Untranslatable(f"list expression {ast.unparse(e)}")


def translate_flatten(fn):
    body = strip_doc(fn.body)
    args = [a.arg for a in fn.args.args]
    if len(args) != 1 or len(body) != 1 or not isinstance(body[0], ast.Return) or fn.decorator_list:
        raise Untranslatable("_flatten")
    term, ty = ListExpr({args[0]: "list:list:A"}).expr(body[0].value)
    if ty != "list:A":
        raise Untranslatable("_flatten does not return the elements")
    return f"Definition py_flatten {{A : Type}} ({args[0]}_ : list (list A)) : list A :=\n  {term}.\n"


def translate_get(fn):
    args = [a.arg for a in fn.args.args]
    if len(args) != 2 or args[0] != "self" or fn.decorator_list:
        raise Untranslatable("signature of FcpV2.get")
    cat = args[1]
    body = strip_doc(fn.body)
    if len(body) != 1 or not isinstance(body[0], ast.If):
        raise Untranslatable("FcpV2.get is not one if/elif chain")

    def chain(st):
        t = st.test
        if not (isinstance(t, ast.Compare) and len(t.ops) == 1 and isinstance(t.ops[0], ast.Eq) and isinstance(t.left, ast.Name) and t.left.id == cat
                and isinstance(t.comparators[0], ast.Constant) and isinstance(t.comparators[0].value, str)):
            raise Untranslatable(f"FcpV2.get: test {ast.unparse(t)}")
        if len(st.body) != 1 or not isinstance(st.body[0], ast.Return):
            raise Untranslatable("FcpV2.get: branch")
        then = ret(st.body[0].value)
        if len(st.orelse) == 1 and isinstance(st.orelse[0], ast.If):
            other = chain(st.orelse[0])
        elif len(st.orelse) == 1 and isinstance(st.orelse[0], ast.Return):
            other = ret(st.orelse[0].value)
        else:
            raise Untranslatable("FcpV2.get: else")
        return f"if String.eqb {cat} {cstr(t.comparators[0].value)} then {then}\n  else {other}"

    def ret(v):
        if isinstance(v, ast.Call) and isinstance(v.func, ast.Name) and v.func.id == "Nothing" and not v.args:
            return "None"
        if isinstance(v, ast.Call) and isinstance(v.func, ast.Name) and v.func.id == "Some" and len(v.args) == 1:
            term, ty = ListExpr({"self": "ftree"}).expr(v.args[0])
            if not ty.startswith("list:") or ty[5:] not in NODE_CON:
                raise Untranslatable(f"FcpV2.get returns {ty}")
            return f"Some (map {NODE_CON[ty[5:]]} {term})"
        raise Untranslatable(f"FcpV2.get returns {ast.unparse(v)}")

    return f"Definition py_get (self : ftree) ({cat} : string) : option (list vnode) :=\n  {chain(body[0])}.\n"


# ---------------------------------------------------------------- the whole file
def translate_driver(verifier_src, v2_src, plugin_srcs):
    vt, st = ast.parse(verifier_src), ast.parse(v2_src)
    cls = find_class(vt, "Verifier")
    cats, init = translate_init(find_def(cls.body, "__init__"))
    out = ["(* GENERATED by harness/py2coq_driver.py from class Verifier (src/fcp/verifier.py), FcpV2.get and _flatten (src/fcp/specs/v2.py) and the",
           "   order of the @register decorations, on every run; do not edit. *)",
           "From Coq Require Import String ZArith List Bool.",
           "From FcpV Require Import Schema.Types Layout.Packed Verifier.Checks Py.BufferLib Verifier.ChecksLib Verifier.DriverLib.",
           "Import ListNotations.", "",
           translate_flatten(find_def(st.body, "_flatten")),
           translate_get(find_def(find_class(st, "FcpV2").body, "get")),
           init,
           Register(find_def(cls.body, "register")).translate(),
           Runner(find_def(cls.body, "run_checks"), ["string", "ftree"]).translate("py_run_checks"),
           Runner(find_def(cls.body, "verify"), ["ftree"]).translate("py_verify")]
    # the decorator: register(verifier, category)(f) calls verifier.register(f, category) and nothing else
    reg = find_def(vt.body, "register")
    inner = [s for s in strip_doc(reg.body) if isinstance(s, ast.FunctionDef)]
    if [a.arg for a in reg.args.args] != ["verifier", "category"] or len(inner) != 1 or \
            [ast.unparse(s) for s in strip_doc(inner[0].body)] != ["verifier.register(f, category)", "return f"] or \
            [ast.unparse(s) for s in strip_doc(reg.body) if not isinstance(s, ast.FunctionDef)] != [f"return {inner[0].name}"]:
        raise Untranslatable("the register decorator")
    tables = [("General", verifier_src, "make_general_verifier")] + [(tag, src, "register_checks") for tag, src in plugin_srcs]
    for tag, src, owner in tables:
        found = registered_checks_in(ast.parse(src), owner)
        rows = "; ".join(f"({cstr(n)}, {cstr(c)})" for n, c, _ in found)
        out.append(f"(* the checks {owner} decorates with @register, in that order: (function, category) *)\n"
                   f"Definition registrations_{tag} : list (string * string) := [{rows}].\n")
    return "\n".join(out)


def translate_repo(repo):
    rd = lambda *p: open(os.path.join(repo, *p)).read()
    return translate_driver(rd("src", "fcp", "verifier.py"), rd("src", "fcp", "specs", "v2.py"),
                            [("Dbc", rd("plugins", "fcp_dbc", "fcp_dbc", "generator.py")), ("CanC", rd("plugins", "fcp_can_c", "fcp_can_c", "generator.py"))])


if __name__ == "__main__":
    import sys
    print(translate_repo(sys.argv[1]))
