"""Translator from the Python source of serde._Buffer to Gallina (coq/gen/PyBuffer.v).

Fail-closed: every construct it does not know raises Untranslatable, and the
checks that depend on the generated file then report the tie to the source as
broken.  The subset is what an imperative bit buffer needs: integer
expressions over locals, parameters and the two attributes, list indexing,
append, item update, if/raise, for over range(...) and over a list parameter,
method calls on self, a list comprehension over range, return.

Target conventions (coq/Py/BufferLib.v): ints are Z, List[int]/bytearray are
list Z, a method  def m(self, a, b) -> T  becomes
    Definition py_m (self : pybuf) (a b : ...) : pyres (pybuf * T')
threading the object explicitly; exceptions are values (pyres).
"""
import ast


class Untranslatable(Exception):
    pass


BINOPS = {ast.RShift: "Z.shiftr", ast.LShift: "Z.shiftl", ast.BitAnd: "Z.land", ast.BitOr: "Z.lor", ast.Add: "Z.add", ast.Sub: "Z.sub",
          ast.Mult: "Z.mul"}
CMPOPS = {ast.LtE: "Z.leb", ast.Lt: "Z.ltb", ast.Eq: "Z.eqb", ast.GtE: "Z.geb", ast.Gt: "Z.gtb"}
EXCEPTIONS = {"ValueError": "PyValueError", "IndexError": "PyIndexError"}


def ann_type(a):
    """Python annotation -> Gallina type."""
    if a is None:
        raise Untranslatable("missing annotation")
    s = ast.unparse(a)
    if s == "int":
        return "Z"
    if s in ("List[int]", "bytearray"):
        return "(list Z)"
    if s == "None":
        return "unit"
    raise Untranslatable(f"annotation {s}")


class Method:
    def __init__(self, fn, method_names):
        self.fn = fn
        self.methods = method_names
        self.tmp = 0
        self.list_vars = {a.arg for a in fn.args.args[1:] if ann_type(a.annotation) == "(list Z)"}

    def fresh(self):
        self.tmp += 1
        return f"t{self.tmp}"

    # ---- expressions: returns (binds, term); binds = [(pattern, monadic term)] evaluated in order ----
    def expr(self, e):
        if isinstance(e, ast.Constant):
            if isinstance(e.value, bool) or not isinstance(e.value, int):
                raise Untranslatable(f"constant {e.value!r}")
            return [], (str(e.value) if e.value >= 0 else f"({e.value})")
        if isinstance(e, ast.Name):
            return [], e.id
        if isinstance(e, ast.Attribute):
            if isinstance(e.value, ast.Name) and e.value.id == "self" and e.attr in ("buffer", "bitaddr"):
                return [], f"(b_{e.attr} self)"
            raise Untranslatable(ast.unparse(e))
        if isinstance(e, ast.BinOp):
            if type(e.op) not in BINOPS:
                raise Untranslatable(ast.unparse(e))
            bl, l = self.expr(e.left)
            br, r = self.expr(e.right)
            return bl + br, f"({BINOPS[type(e.op)]} {l} {r})"
        if isinstance(e, ast.Compare):
            if len(e.ops) != 1 or type(e.ops[0]) not in CMPOPS:
                raise Untranslatable(ast.unparse(e))
            bl, l = self.expr(e.left)
            br, r = self.expr(e.comparators[0])
            return bl + br, f"({CMPOPS[type(e.ops[0])]} {l} {r})"
        if isinstance(e, ast.Subscript):
            bl, l = self.expr(e.value)
            bi, i = self.expr(e.slice)
            t = self.fresh()
            return bl + bi + [(t, f"py_getitem {l} {i}")], t
        if isinstance(e, ast.Call):
            f = e.func
            if isinstance(f, ast.Name) and f.id == "int" and len(e.args) == 1 and not e.keywords:
                return self.expr(e.args[0])                     # int(x) of an int
            if isinstance(f, ast.Name) and f.id == "len" and len(e.args) == 1:
                b, a = self.expr(e.args[0])
                return b, f"(py_len {a})"
            if isinstance(f, ast.Name) and f.id == "bytearray" and len(e.args) == 1:
                b, a = self.expr(e.args[0])
                t = self.fresh()
                return b + [(t, f"py_bytearray {a}")], t
            if isinstance(f, ast.Attribute) and isinstance(f.value, ast.Name) and f.value.id == "self" and f.attr in self.methods:
                binds, args = [], []
                for a in e.args:
                    b, x = self.expr(a)
                    binds += b
                    args.append(x)
                t = self.fresh()
                return binds + [(f"'(self, {t})", f"py_{f.attr} self " + " ".join(args))], t
            raise Untranslatable(ast.unparse(e))
        if isinstance(e, ast.ListComp):
            # [<expr> for _ in range(n)]
            if len(e.generators) != 1 or e.generators[0].ifs or e.generators[0].is_async:
                raise Untranslatable(ast.unparse(e))
            g = e.generators[0]
            n = self.range_arg(g.iter)
            if not isinstance(g.target, ast.Name):
                raise Untranslatable(ast.unparse(e))
            bn, nt = self.expr(n)
            be, et = self.expr(e.elt)
            acc = self.fresh()
            body = self.wrap(be, f"POk (self, ({acc} ++ [{et}])%list)")
            t = self.fresh()
            return bn + [(f"'(self, {t})", f"for_range {nt} (fun {g.target.id} '(self, {acc}) => {body}) (self, [])")], t
        raise Untranslatable(ast.unparse(e))

    @staticmethod
    def range_arg(it):
        if isinstance(it, ast.Call) and isinstance(it.func, ast.Name) and it.func.id == "range" and len(it.args) == 1 and not it.keywords:
            return it.args[0]
        raise Untranslatable(ast.unparse(it))

    @staticmethod
    def wrap(binds, term):
        for pat, m in reversed(binds):
            term = f"pbind ({m}) (fun {pat} => {term})"
        return term

    # ---- statements, in continuation style: stmts(list, k) where k is the Gallina for "the rest" ----
    def assigned(self, body):
        """Local names a block assigns (loop-carried state besides self)."""
        out = []
        for node in ast.walk(ast.Module(body=body, type_ignores=[])):
            tgt = None
            if isinstance(node, ast.Assign) and len(node.targets) == 1:
                tgt = node.targets[0]
            elif isinstance(node, ast.AugAssign):
                tgt = node.target
            if isinstance(tgt, ast.Name) and tgt.id not in out:
                out.append(tgt.id)
        return out

    def block(self, body, k):
        for st in reversed(body):
            k = self.stmt(st, k)
        return k

    def state(self, names):
        return "self" if not names else "(" + ", ".join(["self"] + names) + ")"

    def statepat(self, names):
        return "self" if not names else "'(" + ", ".join(["self"] + names) + ")"

    def stmt(self, st, k):
        if isinstance(st, ast.Expr) and isinstance(st.value, ast.Constant) and isinstance(st.value.value, str):
            return k                                            # docstring
        if isinstance(st, ast.Assign) and len(st.targets) == 1 and isinstance(st.targets[0], ast.Name):
            b, t = self.expr(st.value)
            return self.wrap(b, f"let {st.targets[0].id} := {t} in {k}")
        if isinstance(st, ast.AugAssign):
            if type(st.op) not in BINOPS:
                raise Untranslatable(ast.unparse(st))
            op = BINOPS[type(st.op)]
            b, v = self.expr(st.value)
            tg = st.target
            if isinstance(tg, ast.Name):
                return self.wrap(b, f"let {tg.id} := ({op} {tg.id} {v}) in {k}")
            if isinstance(tg, ast.Attribute) and isinstance(tg.value, ast.Name) and tg.value.id == "self" and tg.attr == "bitaddr":
                return self.wrap(b, f"let self := set_bitaddr self ({op} (b_bitaddr self) {v}) in {k}")
            if isinstance(tg, ast.Subscript) and isinstance(tg.value, ast.Attribute) and ast.unparse(tg.value) == "self.buffer":
                bi, i = self.expr(tg.slice)
                old, new = self.fresh(), self.fresh()
                # Python evaluates the target's container and index, reads the item, evaluates the value, stores
                return self.wrap(bi + [(old, f"py_getitem (b_buffer self) {i}")] + b + [(new, f"py_setitem (b_buffer self) {i} ({op} {old} {v})")],
                                 f"let self := set_buffer self {new} in {k}")
            raise Untranslatable(ast.unparse(st))
        if isinstance(st, ast.Expr) and isinstance(st.value, ast.Call):
            c = st.value
            if isinstance(c.func, ast.Attribute) and ast.unparse(c.func) == "self.buffer.append" and len(c.args) == 1:
                b, v = self.expr(c.args[0])
                return self.wrap(b, f"let self := set_buffer self (b_buffer self ++ [{v}])%list in {k}")
            b, _ = self.expr(c)
            return self.wrap(b, k)
        if isinstance(st, ast.If):
            if st.orelse:
                raise Untranslatable("else branch")
            names = self.assigned(st.body)
            b, c = self.expr(st.test)
            s, p = self.state(names), self.statepat(names)
            inner = self.block(st.body, f"POk {s}")
            return self.wrap(b, f"pbind (if {c} then {inner} else POk {s}) (fun {p} => {k})")
        if isinstance(st, ast.Raise):
            e = st.exc
            if isinstance(e, ast.Call) and isinstance(e.func, ast.Name) and e.func.id in EXCEPTIONS:
                return f"PRaise {EXCEPTIONS[e.func.id]}"
            raise Untranslatable(ast.unparse(st))
        if isinstance(st, ast.For):
            if st.orelse or not isinstance(st.target, ast.Name):
                raise Untranslatable(ast.unparse(st))
            names = self.assigned(st.body)
            s, p = self.state(names), self.statepat(names)
            body = self.block(st.body, f"POk {s}")
            if isinstance(st.iter, ast.Name) and st.iter.id in self.list_vars:
                return f"pbind (for_each {st.iter.id} (fun {st.target.id} {p} => {body}) {s}) (fun {p} => {k})"
            b, n = self.expr(self.range_arg(st.iter))
            return self.wrap(b, f"pbind (for_range {n} (fun {st.target.id} {p} => {body}) {s}) (fun {p} => {k})")
        if isinstance(st, ast.Return):
            if st.value is None:
                return "POk (self, tt)"
            b, t = self.expr(st.value)
            return self.wrap(b, f"POk (self, {t})")
        raise Untranslatable(ast.unparse(st))

    def translate(self):
        fn = self.fn
        if fn.args.vararg or fn.args.kwarg or fn.args.kwonlyargs or fn.args.defaults or fn.decorator_list:
            raise Untranslatable(f"signature of {fn.name}")
        params = " ".join(f"({a.arg} : {ann_type(a.annotation)})" for a in fn.args.args[1:])
        ret = ann_type(fn.returns)
        body = self.block(fn.body, "POk (self, tt)")
        return f"Definition py_{fn.name} (self : pybuf) {params} : pyres (pybuf * {ret}) :=\n  {body}.\n"


def translate_init(fn):
    """__init__: attribute = constant initialisers only."""
    vals = {}
    for st in fn.body:
        if isinstance(st, ast.AnnAssign) and isinstance(st.target, ast.Attribute) and ast.unparse(st.target.value) == "self" and st.value is not None:
            v = ast.unparse(st.value)
            if (st.target.attr, v) in (("buffer", "[]"), ("bitaddr", "0")):
                vals[st.target.attr] = v
                continue
        raise Untranslatable("__init__: " + ast.unparse(st))
    if set(vals) != {"buffer", "bitaddr"}:
        raise Untranslatable("__init__ does not initialise buffer and bitaddr")
    return "Definition py_init : pybuf := {| b_buffer := []; b_bitaddr := 0 |}.\n"


def order_methods(fns):
    """Callees before callers (Gallina has no forward references); recursion is not in the subset."""
    names = {f.name for f in fns}
    deps = {f.name: {n.func.attr for n in ast.walk(f) if isinstance(n, ast.Call) and isinstance(n.func, ast.Attribute)
                     and isinstance(n.func.value, ast.Name) and n.func.value.id == "self" and n.func.attr in names} for f in fns}
    out, done = [], set()
    while len(out) < len(fns):
        ready = [f for f in fns if f.name not in done and deps[f.name] <= done]
        if not ready:
            raise Untranslatable("recursive methods")
        for f in ready:
            out.append(f)
            done.add(f.name)
    return out


def translate_buffer(source):
    tree = ast.parse(source)
    cls = [n for n in tree.body if isinstance(n, ast.ClassDef) and n.name == "_Buffer"]
    if len(cls) != 1 or cls[0].bases or cls[0].decorator_list:
        raise Untranslatable("class _Buffer not found (or has bases/decorators)")
    fns = []
    init = None
    for n in cls[0].body:
        if isinstance(n, ast.FunctionDef):
            if n.name == "__init__":
                init = n
            else:
                fns.append(n)
        elif isinstance(n, ast.Expr) and isinstance(n.value, ast.Constant):
            continue
        else:
            raise Untranslatable("class body: " + ast.unparse(n))
    if init is None:
        raise Untranslatable("no __init__")
    names = {f.name for f in fns}
    out = ["(* GENERATED by harness/py2coq.py from class _Buffer of /repo/src/fcp/serde.py on every run; do not edit. *)",
           "From Coq Require Import ZArith List Bool.", "From FcpV Require Import Py.BufferLib.", "Import ListNotations.", "Open Scope Z_scope.", "",
           translate_init(init)]
    for f in order_methods(fns):
        out.append(Method(f, names).translate())
    return "\n".join(out)


if __name__ == "__main__":
    import sys
    print(translate_buffer(open(sys.argv[1]).read()))
