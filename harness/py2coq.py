"""Translator from the Python source of fcp/serde.py to Gallina (coq/gen/PyBuffer.v, coq/gen/PyLeaf.v).

Fail-closed: every construct it does not know raises Untranslatable, and the
checks that depend on the generated files then report the tie to the source as
broken.  Two parts of serde.py are translated:

  * class _Buffer (every method), and
  * the module-level leaf codecs _encode_builtin_* / _decode_builtin_*
    (unsigned, signed, float, double), whose first parameter is the buffer.

The subset is what an imperative bit buffer needs: integer expressions over
locals, parameters and the two attributes, list indexing, append, item update,
if / if-else, raise, for over range(...) and over a list parameter, method
calls on the buffer object, a list comprehension over range, return,
type.get_length(), struct.pack/unpack of one float, 2**n, unary minus, and the
comparison  a > b / c  (Python true division, compared exactly).

Target conventions (coq/Py/BufferLib.v): ints are Z, List[int]/bytearray are
list Z, a float is its IEEE bit pattern (Z), exceptions are values (pyres).
  def m(self, a, b) -> T            becomes  py_m (self : pybuf) a b : pyres (pybuf * T')
  def _f(buffer: _Buffer, t, d) -> T becomes  py__f (buffer : pybuf) t d : pyres (pybuf * T')
"""
import ast


class Untranslatable(Exception):
    pass


BINOPS = {ast.RShift: "Z.shiftr", ast.LShift: "Z.shiftl", ast.BitAnd: "Z.land", ast.BitOr: "Z.lor", ast.Add: "Z.add", ast.Sub: "Z.sub",
          ast.Mult: "Z.mul", ast.Pow: "Z.pow"}
CMPOPS = {ast.LtE: "Z.leb", ast.Lt: "Z.ltb", ast.Eq: "Z.eqb", ast.GtE: "Z.geb", ast.Gt: "Z.gtb"}
EXCEPTIONS = {"ValueError": "PyValueError", "IndexError": "PyIndexError"}
NUM_TYPES = ("UnsignedType", "SignedType", "FloatType", "DoubleType")
STRUCT_FMT = {"f": "f", "d": "d"}


def ann_type(a):
    """Python annotation -> Gallina type."""
    if a is None:
        raise Untranslatable("missing annotation")
    s = ast.unparse(a)
    if s in ("int", "Any", "float"):
        return "Z"                      # a float is carried as its IEEE bit pattern (BufferLib: py_struct_pack/unpack)
    if s in ("List[int]", "bytearray"):
        return "(list Z)"
    if s == "None":
        return "unit"
    if s in NUM_TYPES:
        return "pynum"
    if s == "_Buffer":
        return "pybuf"
    raise Untranslatable(f"annotation {s}")


def ends_in_return(body):
    if not body:
        return False
    last = body[-1]
    if isinstance(last, ast.Return):
        return True
    if isinstance(last, ast.If) and last.orelse:
        return ends_in_return(last.body) and ends_in_return(last.orelse)
    return False


class Function:
    """One method of _Buffer (obj = "self") or one module-level leaf function whose first parameter is the buffer (obj = "buffer")."""

    def __init__(self, fn, methods, obj, functions=()):
        self.fn = fn
        self.methods = methods                     # names of the _Buffer methods
        self.obj = obj
        self.functions = set(functions)            # module-level functions translated so far
        self.tmp = 0
        params = fn.args.args[1:]
        self.list_vars = {a.arg for a in params if ann_type(a.annotation) == "(list Z)"}
        self.num_vars = {a.arg for a in params if ann_type(a.annotation) == "pynum"}

    def fresh(self):
        self.tmp += 1
        return f"t{self.tmp}"

    def is_obj(self, e):
        return isinstance(e, ast.Name) and e.id == self.obj

    # ---- expressions: returns (binds, term); binds = [(pattern, monadic term)] evaluated in order ----
    def expr(self, e):
        o = self.obj
        if isinstance(e, ast.Constant):
            if isinstance(e.value, bool) or not isinstance(e.value, int):
                raise Untranslatable(f"constant {e.value!r}")
            return [], (str(e.value) if e.value >= 0 else f"({e.value})")
        if isinstance(e, ast.Name):
            if e.id == o or e.id in self.num_vars:
                raise Untranslatable(f"an object used as a value: {e.id}")
            return [], e.id
        if isinstance(e, ast.Attribute):
            if self.is_obj(e.value) and o == "self" and e.attr in ("buffer", "bitaddr"):
                return [], f"(b_{e.attr} {o})"
            raise Untranslatable(ast.unparse(e))
        if isinstance(e, ast.UnaryOp) and isinstance(e.op, ast.USub):
            b, x = self.expr(e.operand)
            return b, f"(Z.opp {x})"
        if isinstance(e, ast.BinOp):
            if type(e.op) not in BINOPS:
                raise Untranslatable(ast.unparse(e))
            bl, l = self.expr(e.left)
            br, r = self.expr(e.right)
            return bl + br, f"({BINOPS[type(e.op)]} {l} {r})"
        if isinstance(e, ast.Compare):
            if len(e.ops) != 1:
                raise Untranslatable(ast.unparse(e))
            rhs = e.comparators[0]
            if isinstance(e.ops[0], ast.Gt) and isinstance(rhs, ast.BinOp) and isinstance(rhs.op, ast.Div):
                # a > b / c with ints: Python compares the int with the float quotient exactly (BufferLib.py_gt_truediv)
                ba, a = self.expr(e.left)
                bb, b = self.expr(rhs.left)
                bc, c = self.expr(rhs.right)
                return ba + bb + bc, f"(py_gt_truediv {a} {b} {c})"
            if type(e.ops[0]) not in CMPOPS:
                raise Untranslatable(ast.unparse(e))
            bl, l = self.expr(e.left)
            br, r = self.expr(rhs)
            return bl + br, f"({CMPOPS[type(e.ops[0])]} {l} {r})"
        if isinstance(e, ast.Subscript):
            # struct.unpack("f", X)[0]
            v = e.value
            if (isinstance(v, ast.Call) and ast.unparse(v.func) == "struct.unpack" and len(v.args) == 2 and isinstance(v.args[0], ast.Constant)
                    and v.args[0].value in STRUCT_FMT and isinstance(e.slice, ast.Constant) and e.slice.value == 0):
                b, x = self.expr(v.args[1])
                t = self.fresh()
                return b + [(t, f"py_struct_unpack_{STRUCT_FMT[v.args[0].value]} {x}")], t
            bl, l = self.expr(e.value)
            bi, i = self.expr(e.slice)
            t = self.fresh()
            return bl + bi + [(t, f"py_getitem {l} {i}")], t
        if isinstance(e, ast.Call):
            f = e.func
            if isinstance(f, ast.Name) and f.id in ("int", "float", "list") and len(e.args) == 1 and not e.keywords:
                return self.expr(e.args[0])                     # int(x) of an int, float(x) of a float, list(x) of bytes
            if isinstance(f, ast.Name) and f.id == "len" and len(e.args) == 1:
                b, a = self.expr(e.args[0])
                return b, f"(py_len {a})"
            if isinstance(f, ast.Name) and f.id == "bytearray" and len(e.args) == 1:
                b, a = self.expr(e.args[0])
                t = self.fresh()
                return b + [(t, f"py_bytearray {a}")], t
            if ast.unparse(f) == "struct.pack" and len(e.args) == 2 and isinstance(e.args[0], ast.Constant) and e.args[0].value in STRUCT_FMT:
                b, a = self.expr(e.args[1])
                return b, f"(py_struct_pack_{STRUCT_FMT[e.args[0].value]} {a})"
            if (isinstance(f, ast.Attribute) and f.attr == "get_length" and isinstance(f.value, ast.Name) and f.value.id in self.num_vars
                    and not e.args):
                return [], f"(get_length {f.value.id})"
            if isinstance(f, ast.Attribute) and self.is_obj(f.value) and f.attr in self.methods:
                binds, args = [], []
                for a in e.args:
                    b, x = self.expr(a)
                    binds += b
                    args.append(x)
                t = self.fresh()
                return binds + [(f"'({o}, {t})", f"py_{f.attr} {o} " + " ".join(args))], t
            if isinstance(f, ast.Name) and f.id in self.functions and e.args and self.is_obj(e.args[0]):
                binds, args = [], []
                for a in e.args[1:]:
                    b, x = self.expr(a)
                    binds += b
                    args.append(x)
                t = self.fresh()
                return binds + [(f"'({o}, {t})", f"py_{f.id} {o} " + " ".join(args))], t
            raise Untranslatable(ast.unparse(e))
        if isinstance(e, ast.ListComp):
            # [<expr> for _ in range(n)]
            if len(e.generators) != 1 or e.generators[0].ifs or e.generators[0].is_async:
                raise Untranslatable(ast.unparse(e))
            g = e.generators[0]
            n = self.range_arg(g.iter)
            if not isinstance(g.target, ast.Name):
                raise Untranslatable(ast.unparse(e))
            bn, nt = self.expr(n)
            be, et = self.expr(e.elt)
            acc = self.fresh()
            body = self.wrap(be, f"POk ({o}, ({acc} ++ [{et}])%list)")
            t = self.fresh()
            return bn + [(f"'({o}, {t})", f"for_range {nt} (fun {g.target.id} '({o}, {acc}) => {body}) ({o}, [])")], t
        raise Untranslatable(ast.unparse(e))

    @staticmethod
    def range_arg(it):
        if isinstance(it, ast.Call) and isinstance(it.func, ast.Name) and it.func.id == "range" and len(it.args) == 1 and not it.keywords:
            return it.args[0]
        raise Untranslatable(ast.unparse(it))

    @staticmethod
    def wrap(binds, term):
        for pat, m in reversed(binds):
            term = f"pbind ({m}) (fun {pat} => {term})"
        return term

    # ---- statements, in continuation style: k is the Gallina for "the rest" ----
    def assigned(self, body):
        """Local names a block assigns (loop-carried state besides the object)."""
        out = []
        for node in ast.walk(ast.Module(body=body, type_ignores=[])):
            tgt = None
            if isinstance(node, ast.Assign) and len(node.targets) == 1:
                tgt = node.targets[0]
            elif isinstance(node, ast.AugAssign):
                tgt = node.target
            if isinstance(tgt, ast.Name) and tgt.id not in out:
                out.append(tgt.id)
        return out

    def block(self, body, k):
        for st in reversed(body):
            k = self.stmt(st, k)
        return k

    def state(self, names):
        return self.obj if not names else "(" + ", ".join([self.obj] + names) + ")"

    def statepat(self, names):
        return self.obj if not names else "'(" + ", ".join([self.obj] + names) + ")"

    def stmt(self, st, k):
        o = self.obj
        if isinstance(st, ast.Expr) and isinstance(st.value, ast.Constant) and isinstance(st.value.value, str):
            return k                                            # docstring
        if isinstance(st, ast.Assign) and len(st.targets) == 1 and isinstance(st.targets[0], ast.Name):
            b, t = self.expr(st.value)
            return self.wrap(b, f"let {st.targets[0].id} := {t} in {k}")
        if isinstance(st, ast.AugAssign):
            if type(st.op) not in BINOPS:
                raise Untranslatable(ast.unparse(st))
            op = BINOPS[type(st.op)]
            b, v = self.expr(st.value)
            tg = st.target
            if isinstance(tg, ast.Name):
                return self.wrap(b, f"let {tg.id} := ({op} {tg.id} {v}) in {k}")
            if o == "self" and isinstance(tg, ast.Attribute) and self.is_obj(tg.value) and tg.attr == "bitaddr":
                return self.wrap(b, f"let self := set_bitaddr self ({op} (b_bitaddr self) {v}) in {k}")
            if o == "self" and isinstance(tg, ast.Subscript) and isinstance(tg.value, ast.Attribute) and ast.unparse(tg.value) == "self.buffer":
                bi, i = self.expr(tg.slice)
                old, new = self.fresh(), self.fresh()
                # Python evaluates the target's container and index, reads the item, evaluates the value, stores
                return self.wrap(bi + [(old, f"py_getitem (b_buffer self) {i}")] + b + [(new, f"py_setitem (b_buffer self) {i} ({op} {old} {v})")],
                                 f"let self := set_buffer self {new} in {k}")
            raise Untranslatable(ast.unparse(st))
        if isinstance(st, ast.Expr) and isinstance(st.value, ast.Call):
            c = st.value
            if o == "self" and isinstance(c.func, ast.Attribute) and ast.unparse(c.func) == "self.buffer.append" and len(c.args) == 1:
                b, v = self.expr(c.args[0])
                return self.wrap(b, f"let self := set_buffer self (b_buffer self ++ [{v}])%list in {k}")
            b, _ = self.expr(c)
            return self.wrap(b, k)
        if isinstance(st, ast.If):
            b, c = self.expr(st.test)
            if st.orelse:
                # only as the tail of a function, with a return on every path
                if not (ends_in_return(st.body) and ends_in_return(st.orelse)):
                    raise Untranslatable("if/else whose branches do not both return")
                return self.wrap(b, f"if {c} then {self.block(st.body, None)} else {self.block(st.orelse, None)}")
            if ends_in_return(st.body):
                raise Untranslatable("return inside an if without else")
            names = self.assigned(st.body)
            s, p = self.state(names), self.statepat(names)
            inner = self.block(st.body, f"POk {s}")
            return self.wrap(b, f"pbind (if {c} then {inner} else POk {s}) (fun {p} => {k})")
        if isinstance(st, ast.Raise):
            e = st.exc
            if isinstance(e, ast.Call) and isinstance(e.func, ast.Name) and e.func.id in EXCEPTIONS:
                return f"PRaise {EXCEPTIONS[e.func.id]}"
            raise Untranslatable(ast.unparse(st))
        if isinstance(st, ast.For):
            if st.orelse or not isinstance(st.target, ast.Name):
                raise Untranslatable(ast.unparse(st))
            if ends_in_return(st.body):
                raise Untranslatable("return inside a loop")
            names = self.assigned(st.body)
            s, p = self.state(names), self.statepat(names)
            body = self.block(st.body, f"POk {s}")
            if isinstance(st.iter, ast.Name) and st.iter.id in self.list_vars:
                return f"pbind (for_each {st.iter.id} (fun {st.target.id} {p} => {body}) {s}) (fun {p} => {k})"
            b, n = self.expr(self.range_arg(st.iter))
            return self.wrap(b, f"pbind (for_range {n} (fun {st.target.id} {p} => {body}) {s}) (fun {p} => {k})")
        if isinstance(st, ast.Return):
            if st.value is None:
                return f"POk ({o}, tt)"
            b, t = self.expr(st.value)
            return self.wrap(b, f"POk ({o}, {t})")
        raise Untranslatable(ast.unparse(st))

    def translate(self):
        fn = self.fn
        if fn.args.vararg or fn.args.kwarg or fn.args.kwonlyargs or fn.args.defaults or fn.decorator_list:
            raise Untranslatable(f"signature of {fn.name}")
        if fn.args.args[0].arg != self.obj:
            raise Untranslatable(f"first parameter of {fn.name} is not {self.obj}")
        params = " ".join(f"({a.arg} : {ann_type(a.annotation)})" for a in fn.args.args[1:])
        ret = ann_type(fn.returns)
        body = self.block(fn.body, f"POk ({self.obj}, tt)")
        return f"Definition py_{fn.name} ({self.obj} : pybuf) {params} : pyres (pybuf * {ret}) :=\n  {body}.\n"


def translate_init(fn):
    """__init__: attribute = constant initialisers only."""
    vals = {}
    for st in fn.body:
        if isinstance(st, ast.AnnAssign) and isinstance(st.target, ast.Attribute) and ast.unparse(st.target.value) == "self" and st.value is not None:
            v = ast.unparse(st.value)
            if (st.target.attr, v) in (("buffer", "[]"), ("bitaddr", "0")):
                vals[st.target.attr] = v
                continue
        raise Untranslatable("__init__: " + ast.unparse(st))
    if set(vals) != {"buffer", "bitaddr"}:
        raise Untranslatable("__init__ does not initialise buffer and bitaddr")
    return "Definition py_init : pybuf := {| b_buffer := []; b_bitaddr := 0 |}.\n"


def order_methods(fns):
    """Callees before callers (Gallina has no forward references); recursion is not in the subset."""
    names = {f.name for f in fns}
    deps = {f.name: {n.func.attr for n in ast.walk(f) if isinstance(n, ast.Call) and isinstance(n.func, ast.Attribute)
                     and isinstance(n.func.value, ast.Name) and n.func.value.id == "self" and n.func.attr in names} for f in fns}
    out, done = [], set()
    while len(out) < len(fns):
        ready = [f for f in fns if f.name not in done and deps[f.name] <= done]
        if not ready:
            raise Untranslatable("recursive methods")
        for f in ready:
            out.append(f)
            done.add(f.name)
    return out


def buffer_class(tree):
    cls = [n for n in tree.body if isinstance(n, ast.ClassDef) and n.name == "_Buffer"]
    if len(cls) != 1 or cls[0].bases or cls[0].decorator_list:
        raise Untranslatable("class _Buffer not found (or has bases/decorators)")
    fns, init = [], None
    for n in cls[0].body:
        if isinstance(n, ast.FunctionDef):
            if n.name == "__init__":
                init = n
            else:
                fns.append(n)
        elif isinstance(n, ast.Expr) and isinstance(n.value, ast.Constant):
            continue
        else:
            raise Untranslatable("class body: " + ast.unparse(n))
    if init is None:
        raise Untranslatable("no __init__")
    return init, fns


HEADER = ["From Coq Require Import ZArith List Bool.", "From FcpV Require Import Py.BufferLib.", "Import ListNotations.", "Open Scope Z_scope.", ""]


def translate_buffer(source):
    init, fns = buffer_class(ast.parse(source))
    names = {f.name for f in fns}
    out = ["(* GENERATED by harness/py2coq.py from class _Buffer of /repo/src/fcp/serde.py on every run; do not edit. *)"] + HEADER + [translate_init(init)]
    for f in order_methods(fns):
        out.append(Function(f, names, "self").translate())
    return "\n".join(out)


LEAVES = ["_encode_builtin_unsigned", "_encode_builtin_signed", "_encode_builtin_float", "_encode_builtin_double",
          "_decode_builtin_unsigned", "_decode_builtin_signed", "_decode_builtin_float", "_decode_builtin_double"]


def translate_leaves(source):
    tree = ast.parse(source)
    _, fns = buffer_class(tree)
    methods = {f.name for f in fns}
    top = {n.name: n for n in tree.body if isinstance(n, ast.FunctionDef)}
    out = ["(* GENERATED by harness/py2coq.py from the leaf codecs of /repo/src/fcp/serde.py on every run; do not edit. *)"] + HEADER[:2] + \
          ["From FcpV Require Import gen.PyBuffer."] + HEADER[2:]
    done = []
    for name in LEAVES:
        if name not in top:
            raise Untranslatable(f"{name} not found")
        out.append(Function(top[name], methods, "buffer", done).translate())
        done.append(name)
    return "\n".join(out)


if __name__ == "__main__":
    import sys
    src = open(sys.argv[1]).read()
    print(translate_buffer(src))
    print(translate_leaves(src))
