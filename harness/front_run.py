"""Running the real front end and packaging cases for Corr/Front.v."""
import os
import shutil

import common
import printer
import to_coq
from common import cz, cstr, clist, cpair


def run_front(files, root="main.fcp", workdir=None):
    """files: {relative path: text}.  Returns ("ok", fcp) | ("err", diagnostic) | ("raise", repr)."""
    from fcp.error import Logger
    logger = Logger({})
    try:
        if len(files) == 1 and workdir is None:
            from fcp.parser import get_fcp_from_string
            r = get_fcp_from_string(files[root], logger)
        else:
            from fcp.parser import get_fcp
            for rel, text in files.items():
                p = os.path.join(workdir, rel)
                os.makedirs(os.path.dirname(p), exist_ok=True)
                with open(p, "w") as f:
                    f.write(text)
            r = get_fcp(os.path.join(workdir, root), logger)
    except Exception as e:
        return "raise", repr(e)
    if r.is_ok():
        return "ok", r.unwrap()
    err = r.err()
    try:
        text = logger.error(err)
    except Exception as e:
        return "raise", "rendering the error raised " + repr(e)
    return "err", str(err) + "\n" + text


def sanitize(s):
    return "".join(ch if (32 <= ord(ch) <= 126 or ch in "\n\t") else "?" for ch in s)


def case_term(files, root, outcome, oracle):
    o = clist(cpair(cstr(k), cz(v)) for k, v in oracle.items())
    fs = clist(cpair(clist(cstr(c) for c in rel.split("/")), cstr(text)) for rel, text in files.items())
    kind, val = outcome
    if kind == "ok":
        obs = f"(FOk {to_coq.front(val)})"
    elif kind == "err":
        obs = f"(FErr {cstr(sanitize(val))})"
    else:
        obs = "FRaise"
    return cpair(o, fs, clist(cstr(c) for c in root.split("/")), obs)


def judge_cases(cases, shard=40):
    """Returns (mismatch indices, out-of-domain indices)."""
    mism = common.run_cases("Front", cases, shard=shard)
    dom = common.run_cases("Front", cases, shard=shard, check="in_domain")
    return mism, dom
