"""Running the real Python codec and packaging cases for Corr/Serde.v."""
import own_lookup
import signal

import common
import gen_schema
import to_coq
from common import cz, cstr, clist, cpair


def parse(text):
    from fcp.parser import get_fcp_from_string
    return get_fcp_from_string(text)


def make_schemas(chk, n, profile="serde", **kw):
    """Returns [(desc, text, fcp, schema_term)] for descriptions the front end accepts."""
    out = []
    while len(out) < n:
        desc = gen_schema.gen_desc(chk.rng, profile, **kw)
        text = gen_schema.render(desc)
        try:
            r = parse(text)
            fcp = r.unwrap()
        except Exception as e:
            raise RuntimeError(f"front end rejected a generated schema: {e!r}\n{text}")
        out.append((desc, text, fcp, to_coq.schema(fcp)))
    return out


class ImplTimeout(Exception):
    pass


class time_limit:
    """Bound the time one call into the real code may take (a runaway loop is an observation, not a hang)."""

    def __init__(self, seconds=5):
        self.seconds = seconds

    def __enter__(self):
        def handler(signum, frame):
            raise ImplTimeout(f"implementation call exceeded {self.seconds}s")
        self.old = signal.signal(signal.SIGALRM, handler)
        signal.setitimer(signal.ITIMER_REAL, self.seconds)

    def __exit__(self, *a):
        signal.setitimer(signal.ITIMER_REAL, 0)
        signal.signal(signal.SIGALRM, self.old)
        return False


def real_encode(fcp, name, v):
    from fcp import serde
    try:
        with time_limit():
            return list(serde.encode(fcp, name, v)), None
    except Exception as e:
        return None, e


def classify(e):
    if isinstance(e, UnicodeDecodeError):
        return "OBadAscii"
    if isinstance(e, ValueError) and "overr" in str(e):
        return "OOverrun"
    return "OOther"


def real_decode(fcp, name, data):
    from fcp import serde
    try:
        with time_limit():
            return serde.decode(fcp, name, bytearray(data)), None
    except Exception as e:
        return None, e


def enc_case(sch_term, fcp, name, v, obs):
    vt = to_coq.struct_value(fcp, name, v)
    o = "None" if obs is None else f"(Some {clist(cz(b) for b in obs)})"
    return cpair(sch_term, cstr(name), f"(Enc {vt} {o})")


def dec_case(sch_term, fcp, name, data, result, exc):
    if exc is not None:
        o = classify(exc)
    else:
        try:
            o = f"(OVal {to_coq.struct_value(fcp, name, result)})"
        except Exception:            # a decoded value of the wrong shape/type for the schema (cannot be embedded): not a value of the model
            o = "OOther"
    return cpair(sch_term, cstr(name), f"(Dec {clist(cz(b) for b in data)} {o})")


def type_hist(chk, fcp, t, depth=0, off=None):
    from fcp.specs import type as T
    chk.hist("constructor", type(t).__name__)
    if type(t) in (T.UnsignedType, T.SignedType):
        chk.hist("width", t.get_length())
    if type(t) in (T.ArrayType, T.DynamicArrayType, T.OptionalType):
        chk.hist("nesting_depth", depth + 1)
        type_hist(chk, fcp, t.underlying_type, depth + 1)
    if type(t) is T.StructType:
        for f in own_lookup.struct(fcp, t.name).fields:
            type_hist(chk, fcp, f.type, depth + 1)


def run_serde_cases(chk, cases, broken):
    """The cases against the hand-written model (Corr.Serde.check_case) and, when the translation of serde.py builds, against the
    translated source run inside Coq as well (Corr.SerdeGen.check_case_gen).  Returns (indices where the model disagrees with the
    implementation, indices where only the translated source disagrees, broken)."""
    # (the translated code keeps the buffer as a Python-style list of bytes - each bit costs a list look-up or update - which is some
    # ten times slower to evaluate than the model and quadratic in the message length: see common.run_model_and_translated)
    return common.run_model_and_translated(chk, "Serde", "SerdeGen", cases, broken)
