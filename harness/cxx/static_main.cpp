// Generic driver for a generated fcp.h (C03, C13): line protocol on stdin/stdout.
//   E <struct> <json>   -> "OK <hex bytes>" | "NONE" | "EXC <what>"
//   D <struct> <hex>    -> "OK <json>"      | "NONE" | "EXC <what>"
//   e / d : the same through fcp::dynamic::DynamicSchema loaded from the reflection binary given as argv[1] (-DWITH_DYNAMIC)
#include <cmath>
#include <limits>
#include <iostream>
#include <sstream>
#include <iomanip>
#include <stdexcept>
#include "fcp.h"
#ifdef WITH_DYNAMIC
#include "dynamic.h"
#include <fstream>
#include <iterator>
#endif

static std::string hex(const std::vector<std::uint8_t>& v) {
    std::ostringstream ss;
    for (auto b : v) ss << std::hex << std::setw(2) << std::setfill('0') << (int)b;
    return ss.str();
}
static std::vector<std::uint8_t> unhex(const std::string& s) {
    std::vector<std::uint8_t> v;
    for (std::size_t i = 0; i + 1 < s.size(); i += 2) v.push_back((std::uint8_t)std::stoi(s.substr(i, 2), nullptr, 16));
    return v;
}

int main(int argc, char** argv) {
    fcp::StaticSchema st;
#ifdef WITH_DYNAMIC
    fcp::dynamic::DynamicSchema dyn;
    try {
        dyn.LoadBinarySchemaFromFile(argv[1]);
        std::cout << "LOADED\n";
    } catch (const std::exception& e) {
        std::cout << "LOADFAIL " << e.what() << "\n";
    }
    std::cout.flush();
#endif
    std::string line;
    while (std::getline(std::cin, line)) {
        std::istringstream is(line);
        std::string op, name, rest;
        is >> op >> name;
        std::getline(is, rest);
        if (!rest.empty() && rest[0] == ' ') rest.erase(0, 1);
        try {
            if (op == "E") {
                auto r = st.EncodeJson(name, nlohmann::json::parse(rest));
                if (r) std::cout << "OK " << hex(*r) << "\n"; else std::cout << "NONE\n";
            } else if (op == "D") {
                auto r = st.DecodeJson(name, unhex(rest));
                if (r) std::cout << "OK " << r->dump() << "\n"; else std::cout << "NONE\n";
#ifdef WITH_DYNAMIC
            } else if (op == "e") {
                auto r = dyn.EncodeJson(name, nlohmann::json::parse(rest));
                if (r) std::cout << "OK " << hex(*r) << "\n"; else std::cout << "NONE\n";
            } else if (op == "d") {
                auto r = dyn.DecodeJson(name, unhex(rest));
                if (r) std::cout << "OK " << r->dump() << "\n"; else std::cout << "NONE\n";
#endif
            } else {
                std::cout << "EXC bad op\n";
            }
        } catch (const std::exception& e) {
            std::cout << "EXC " << e.what() << "\n";
        }
        std::cout.flush();
    }
    return 0;
}
