// Driver for the generated C++ CAN wrappers (C18): static and reflection-loaded schema in one process.
//   SE <name> <json> | DE <name> <json>        -> "OK <bus hex> <sid> <dlc> <data hex>" | "NONE" | "EXC <what>"
//   SD <bushex> <sid> <dlc> <datahex> | DD ... -> "OK <name> <json>" | "NONE" | "EXC <what>"
#include <cmath>
#include <limits>
#include <iostream>
#include <sstream>
#include <iomanip>
#include <stdexcept>
#include <memory>
#include "fcp.h"
#include "can.h"
#include "can_static_schema.h"
#include "dynamic.h"
#include "can_dynamic_schema.h"

template <typename It> static std::string hex(It a, It b) {
    std::ostringstream ss;
    for (; a != b; ++a) ss << std::hex << std::setw(2) << std::setfill('0') << (int)(unsigned char)*a;
    return ss.str();
}
static std::vector<std::uint8_t> unhex(const std::string& s) {
    std::vector<std::uint8_t> v;
    for (std::size_t i = 0; i + 1 < s.size(); i += 2) v.push_back((std::uint8_t)std::stoi(s.substr(i, 2), nullptr, 16));
    return v;
}
static void show(const std::optional<fcp::can::frame_t>& f) {
    if (!f) { std::cout << "NONE\n"; return; }
    std::cout << "OK " << hex(f->bus.begin(), f->bus.end()) << " " << f->sid << " " << (int)f->dlc << " " << hex(f->data.begin(), f->data.end()) << "\n";
}
static void showd(const std::optional<std::pair<std::string, nlohmann::json>>& r) {
    if (!r) { std::cout << "NONE\n"; return; }
    std::cout << "OK " << r->first << " " << r->second.dump() << "\n";
}

int main(int argc, char** argv) {
    fcp::can::Can st{std::make_shared<fcp::can::CanStaticSchema>()};
    fcp::dynamic::DynamicSchema dyn;
    dyn.LoadBinarySchemaFromFile(argv[1]);
    fcp::can::Can dy{std::make_shared<fcp::can::CanDynamicSchema>(dyn)};
    std::cout << "LOADED\n"; std::cout.flush();
    std::string line;
    while (std::getline(std::cin, line)) {
        std::istringstream is(line);
        std::string op; is >> op;
        try {
            if (op == "SE" || op == "DE") {
                std::string name, rest; is >> name; std::getline(is, rest);
                auto j = nlohmann::json::parse(rest);
                show(op == "SE" ? st.Encode(name, j) : dy.Encode(name, j));
            } else if (op == "SD" || op == "DD") {
                std::string bus, data; int sid, dlc; is >> bus >> sid >> dlc >> data;
                fcp::can::frame_t f{};
                auto b = unhex(bus); for (int i = 0; i < 4 && i < (int)b.size(); i++) f.bus[i] = (char)b[i];
                f.sid = (std::uint16_t)sid; f.dlc = (std::uint8_t)dlc;
                auto d = unhex(data); for (int i = 0; i < 8 && i < (int)d.size(); i++) f.data[i] = d[i];
                showd(op == "SD" ? st.Decode(f) : dy.Decode(f));
            } else std::cout << "EXC bad op\n";
        } catch (const std::exception& e) { std::cout << "EXC " << e.what() << "\n"; }
        std::cout.flush();
    }
    return 0;
}
