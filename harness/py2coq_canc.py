"""Translator for two helpers of plugins/fcp_can_c/fcp_can_c/can_c_writer.py -> Gallina (coq/gen/PyCanC.v): ceil_to_power_of_2 (the carrier
width of a user-defined / short type) and is_signed (the signedness of a value).  Fail-closed.  The rest of the file (CanSignal.__post_init__,
create_can_signals, initialize_can_data, the templates) is modelled by hand in CanC/CModel.v and tied by the correspondence of C06.

ceil_to_power_of_2: `if x <= <lit>: return <lit>`, `x -= <lit>`, `x |= x >> <lit>` (any number of them), `return x + <lit>`.
is_signed: `return bool(value.type.name.startswith("<literal>"))`.
"""
import ast
import os

from py2coq import Untranslatable
from py2coq_driver import strip_doc, find_def, cstr


def lit(e):
    if isinstance(e, ast.Constant) and isinstance(e.value, int) and not isinstance(e.value, bool):
        return f"({e.value})%Z"
    raise Untranslatable(f"integer literal expected: {ast.unparse(e)}")


def translate_ceil(fn):
    args = [a.arg for a in fn.args.args]
    if len(args) != 1 or fn.decorator_list:
        raise Untranslatable("signature of ceil_to_power_of_2")
    x = args[0]
    body = strip_doc(fn.body)
    if len(body) < 3:
        raise Untranslatable("ceil_to_power_of_2: statements")
    first, rest = body[0], body[1:]
    if not (isinstance(first, ast.If) and not first.orelse and len(first.body) == 1 and isinstance(first.body[0], ast.Return)
            and isinstance(first.test, ast.Compare) and len(first.test.ops) == 1 and isinstance(first.test.ops[0], ast.LtE)
            and ast.unparse(first.test.left) == x):
        raise Untranslatable(f"ceil_to_power_of_2: {ast.unparse(first)}")
    lines = [f"  if ({x} <=? {lit(first.test.comparators[0])})%Z then {lit(first.body[0].value)} else"]
    for st in rest[:-1]:
        if isinstance(st, ast.AugAssign) and ast.unparse(st.target) == x and isinstance(st.op, ast.Sub):
            lines.append(f"  let {x} := ({x} - {lit(st.value)})%Z in")
        elif isinstance(st, ast.AugAssign) and ast.unparse(st.target) == x and isinstance(st.op, ast.BitOr) and isinstance(st.value, ast.BinOp) \
                and isinstance(st.value.op, ast.RShift) and ast.unparse(st.value.left) == x:
            lines.append(f"  let {x} := Z.lor {x} (Z.shiftr {x} {lit(st.value.right)}) in")
        else:
            raise Untranslatable(f"ceil_to_power_of_2: {ast.unparse(st)}")
    last = rest[-1]
    if not (isinstance(last, ast.Return) and isinstance(last.value, ast.BinOp) and isinstance(last.value.op, ast.Add) and ast.unparse(last.value.left) == x):
        raise Untranslatable(f"ceil_to_power_of_2: {ast.unparse(last)}")
    lines.append(f"  ({x} + {lit(last.value.right)})%Z.")
    return f"Definition py_ceil_to_power_of_2 ({x} : Z) : Z :=\n" + "\n".join(lines) + "\n"


def translate_is_signed(fn):
    args = [a.arg for a in fn.args.args]
    body = strip_doc(fn.body)
    if len(args) != 1 or len(body) != 1 or not isinstance(body[0], ast.Return) or fn.decorator_list:
        raise Untranslatable("is_signed")
    v = body[0].value
    if not (isinstance(v, ast.Call) and ast.unparse(v.func) == "bool" and len(v.args) == 1 and isinstance(v.args[0], ast.Call)
            and ast.unparse(v.args[0].func) == f"{args[0]}.type.name.startswith" and len(v.args[0].args) == 1
            and isinstance(v.args[0].args[0], ast.Constant) and isinstance(v.args[0].args[0].value, str)):
        raise Untranslatable(f"is_signed: {ast.unparse(v)}")
    return (f"(* is_signed(value): decided by the NAME of the value's type *)\n"
            f"Definition py_is_signed (type_name : string) : bool :=\n  py_startswith type_name {cstr(v.args[0].args[0].value)}.\n")


# ---------------------------------------------------------------- initialize_can_data, map_messages_to_devices
def translate_map_messages(fn):
    U = ast.unparse
    args = [a.arg for a in fn.args.args]
    body = strip_doc(fn.body)
    if len(args) != 1 or len(body) != 3 or fn.decorator_list:
        raise Untranslatable("map_messages_to_devices")
    a, loop, ret = body
    if not (isinstance(a, ast.Assign) and len(a.targets) == 1 and isinstance(a.targets[0], ast.Name) and U(a.value) == "{}"):
        raise Untranslatable(f"map_messages_to_devices: {U(a)}")
    d = a.targets[0].id
    if not (isinstance(loop, ast.For) and not loop.orelse and isinstance(loop.target, ast.Name) and U(loop.iter) == args[0] and len(loop.body) == 1):
        raise Untranslatable(f"map_messages_to_devices: {U(loop)}")
    m = loop.target.id
    inner = loop.body[0]
    if not (isinstance(inner, ast.For) and not inner.orelse and isinstance(inner.target, ast.Name) and U(inner.iter) == f"{m}.senders" and len(inner.body) == 1
            and U(inner.body[0]) == f"{d}.setdefault({inner.target.id}, []).append({m})"):
        raise Untranslatable(f"map_messages_to_devices: {U(inner)}")
    if U(ret) != f"return {d}":
        raise Untranslatable(f"map_messages_to_devices: {U(ret)}")
    s = inner.target.id
    return (f"Definition py_map_messages_to_devices {{S : Type}} ({args[0]} : list (cmsg S)) : list (string * list (cmsg S)) :=\n"
            f"  let {d} := [] in\n"
            f"  fold_left (fun {d} {m} => fold_left (fun {d} {s} => setdefault_append {d} {s} {m}) (c_senders {m}) {d}) {args[0]} {d}.\n")


def translate_initialize(fn):
    U = ast.unparse
    if [a.arg for a in fn.args.args] != ["fcp"] or fn.decorator_list:
        raise Untranslatable("signature of initialize_can_data")
    body = strip_doc(fn.body)
    if len(body) != 7:
        raise Untranslatable("initialize_can_data: statements")
    s_en, s_msg, s_dev, s_enc, s_efor, s_for, s_ret = body
    if [U(s_en), U(s_msg), U(s_dev)] != ["enums = []", "messages = []", "devices = []"]:
        raise Untranslatable("initialize_can_data: the three lists")
    if U(s_enc) != "encoder = make_encoder('packed', fcp, PackedEncoderContext().with_unroll_arrays(True))":
        raise Untranslatable(f"initialize_can_data: {U(s_enc)}")
    # for enum in fcp.enums: values = {...}; enums.append(Enum(...)); devices.append(CanNode('global'))
    if not (isinstance(s_efor, ast.For) and not s_efor.orelse and U(s_efor.iter) == "fcp.enums" and isinstance(s_efor.target, ast.Name) and len(s_efor.body) == 3):
        raise Untranslatable(f"initialize_can_data: {U(s_efor)}")
    e = s_efor.target.id
    want = [f"values = {{v.name: v.value for v in {e}.enumeration}}", f"enums.append(Enum(name={e}.name, values=values))", "devices.append(CanNode('global'))"]
    if [U(x) for x in s_efor.body] != want:
        raise Untranslatable(f"initialize_can_data: enum loop {[U(x) for x in s_efor.body]}")
    if not (isinstance(s_for, ast.For) and not s_for.orelse and isinstance(s_for.target, ast.Name) and U(s_for.iter) == "fcp.get_matching_impls('can')"):
        raise Untranslatable(f"initialize_can_data: {U(s_for)}")
    x = s_for.target.id
    want = [
        f"encoding = encoder.generate({x})",
        "signals, dlc = create_can_signals(encoding)",
        f"frame_id = {x}.fields.get('id')",
        "if frame_id is None:\n    Err('No id field found in extension').unwrap()",
        f"device_name = {x}.fields.get('device', 'global')",
        f"period = {x}.fields.get('period', -1)",
        "if not any((node.name == device_name for node in devices)):\n    devices.append(CanNode(device_name))",
        f"messages.append(CanMessage(frame_id=frame_id, name_pascal={x}.name, dlc=dlc, signals=signals, senders=[device_name], period=period))",
    ]
    got = [U(st) for st in s_for.body]
    if got != want:
        diff = next((g for g, w in zip(got, want) if g != w), got[len(want):] or want[len(got):])
        raise Untranslatable(f"initialize_can_data loop: {diff}")
    if U(s_ret) != "return (enums, messages, devices)":
        raise Untranslatable(f"initialize_can_data: {U(s_ret)}")
    return ("(* initialize_can_data(fcp): the messages (in order of the CAN bindings) and the device names; create_can_signals is a parameter *)\n"
            "Definition py_initialize_can_data {S : Type} (create_can_signals : list piece -> pyres (S * Z)) (fcp : schema) (impls : list simpl)\n"
            "  : dres (list (cmsg S) * list string) :=\n"
            "  let messages := [] in\n"
            "  let devices := [] in\n"
            "  let encoder := encoder_init in\n"
            f"  let devices := fold_left (fun devices {e} => devices ++ [\"global\"%string]) (enums fcp) devices in\n"
            f"  dbind (dfor (filter (fun i => String.eqb (iprotocol i) \"can\"%string) impls) (messages, devices, encoder) (fun st {x} =>\n"
            "      let '(messages, devices, encoder) := st in\n"
            f"      match generate true fcp encoder {x} with (encoder, None) => DRaise | (encoder, Some encoding) =>\n"
            "      dbind (dlift (create_can_signals encoding)) (fun sd => let '(signals, dlc) := sd in\n"
            f"      let frame_id := impl_int {x} \"id\"%string in\n"
            "      match frame_id with None => DRaise | Some frame_id =>\n"
            f"      let device_name := impl_str_default {x} \"device\"%string \"global\"%string in\n"
            f"      let period := impl_int_default {x} \"period\"%string (-1)%Z in\n"
            "      let devices := if negb (existsb (fun node => String.eqb node device_name) devices) then devices ++ [device_name] else devices in\n"
            f"      let messages := messages ++ [{{| c_frame_id := frame_id; c_name := iname {x}; c_dlc := dlc; c_signals := signals; c_senders := [device_name]; c_period := period |}}] in\n"
            "      DOk (messages, devices, encoder) end) end))\n"
            "  (fun st => let '(messages, devices, encoder) := st in DOk (messages, devices)).\n")


# ---------------------------------------------------------------- create_can_signals
def translate_create_can_signals(fn):
    """The loop of create_can_signals: one signal record per piece (name, start bit, length, byte order, signedness, the type names,
    the multiplexing options) and the running maximum of ceil(end / 8).  Statement shapes are fixed; the keyword arguments of CanSignal
    are translated one by one."""
    U = ast.unparse
    args = [a.arg for a in fn.args.args]
    body = strip_doc(fn.body)
    if len(args) != 1 or fn.decorator_list or len(body) != 4:
        raise Untranslatable("create_can_signals")
    enc = args[0]
    a, b, loop, ret = body
    if [U(a), U(b)] != ["signals = []", "max_dlc = 0"] or U(ret) != "return (signals, max_dlc)":
        raise Untranslatable("create_can_signals: state / return")
    if not (isinstance(loop, ast.For) and not loop.orelse and isinstance(loop.target, ast.Name) and U(loop.iter) == enc and len(loop.body) == 5):
        raise Untranslatable(f"create_can_signals: {U(loop)[:80]}")
    p = loop.target.id
    s1, s2, s3, s4, s5 = loop.body
    if U(s1) != f"multiplexer_signal = {p}.extended_data.get('mux_signal')":
        raise Untranslatable(f"create_can_signals: {U(s1)}")
    if U(s2) != f"multiplexer_ids = list(range({p}.extended_data.get('mux_count', 0)))":
        raise Untranslatable(f"create_can_signals: {U(s2)}")
    if U(s3) != f"type = {p}.composite_type.unwrap_or({p}.type.name)":
        raise Untranslatable(f"create_can_signals: {U(s3)}")
    if not (isinstance(s4, ast.Expr) and isinstance(s4.value, ast.Call) and U(s4.value.func) == "signals.append" and len(s4.value.args) == 1
            and isinstance(s4.value.args[0], ast.Call) and U(s4.value.args[0].func) == "CanSignal" and not s4.value.args[0].args):
        raise Untranslatable(f"create_can_signals: {U(s4)[:80]}")
    kw = {k.arg: U(k.value) for k in s4.value.args[0].keywords}
    want = {
        "name": (f"{p}.name.replace('::', '_')", f"dbc_name {p}"),
        "start_bit": (f"{p}.bitstart", f"pstart {p}"),
        "data_type": ("type", "type_"),
        "scalar_type": (f"{p}.type.name", f"piece_type_name {p}"),
        "bit_length": (f"{p}.bitlength", f"plen {p}"),
        "byte_order": (f"'big_endian' if {p}.extended_data.get('endianness', 'little') == 'big' else 'little_endian'",
                       f"(if ext_str_is {p} \"endianness\"%string \"big\"%string then \"big_endian\"%string else \"little_endian\"%string)"),
        "signed": (f"is_signed({p})", f"py_is_signed (piece_type_name {p})"),
        "is_multiplexer": ("bool(multiplexer_signal)", "truthy_ostr multiplexer_signal"),
        "multiplexer_ids": ("multiplexer_ids if multiplexer_signal else None", "(if truthy_ostr multiplexer_signal then Some multiplexer_ids else None)"),
        "multiplexer_signal": ("multiplexer_signal", "multiplexer_signal"),
    }
    if sorted(kw) != sorted(want):
        raise Untranslatable(f"CanSignal keywords {sorted(kw)}")
    for k, (src, _) in want.items():
        if kw[k] != src:
            raise Untranslatable(f"CanSignal {k}={kw[k]}")
    if U(s5) != f"max_dlc = max(max_dlc, ceil(({p}.bitstart + {p}.bitlength) / 8))":
        raise Untranslatable(f"create_can_signals: {U(s5)}")
    rec = ("{| cs_name := " + want["name"][1] + "; cs_start_bit := " + want["start_bit"][1] + "; cs_bit_length := " + want["bit_length"][1]
           + "; cs_data_type := " + want["data_type"][1] + "; cs_scalar_type := " + want["scalar_type"][1] + "; cs_byte_order := " + want["byte_order"][1]
           + "; cs_signed := " + want["signed"][1] + "; cs_is_multiplexer := " + want["is_multiplexer"][1] + "; cs_multiplexer_ids := " + want["multiplexer_ids"][1]
           + "; cs_multiplexer_signal := " + want["multiplexer_signal"][1] + " |}")
    return ("Definition py_create_can_signals (" + enc + " : list piece) : list csignal * Z :=\n"
            "  fold_left (fun (acc : list csignal * Z) " + p + " => let '(signals, max_dlc) := acc in\n"
            f"      let multiplexer_signal := ext_str {p} \"mux_signal\"%string in\n"
            f"      let multiplexer_ids := zrange (match ext_int {p} \"mux_count\"%string with Some n => n | None => 0%Z end) in\n"
            f"      let type_ := piece_type_name {p} in     (* composite_type is Nothing() for every piece PackedEncoder._generate_signal makes *)\n"
            f"      (signals ++ [{rec}], Z.max max_dlc (ceil8 (pstart {p} + plen {p})%Z))) {enc} ([], 0%Z).\n")


def translate_repo(repo):
    tree = ast.parse(open(os.path.join(repo, "plugins", "fcp_can_c", "fcp_can_c", "can_c_writer.py")).read())
    return "\n".join(["(* GENERATED by harness/py2coq_canc.py from plugins/fcp_can_c/fcp_can_c/can_c_writer.py (ceil_to_power_of_2, is_signed, map_messages_to_devices, initialize_can_data, create_can_signals) on every run; do not edit. *)",
                      "From Coq Require Import String ZArith List Bool.",
                      "From FcpV Require Import Schema.Types Layout.Packed Py.BufferLib Dbc.DbcModel Dbc.DbcLib CanC.CWriterLib.",
                      "Import ListNotations.", "",
                      translate_ceil(find_def(tree.body, "ceil_to_power_of_2")),
                      translate_is_signed(find_def(tree.body, "is_signed")),
                      translate_map_messages(find_def(tree.body, "map_messages_to_devices")),
                      translate_initialize(find_def(tree.body, "initialize_can_data")),
                      translate_create_can_signals(find_def(tree.body, "create_can_signals"))])


if __name__ == "__main__":
    import sys
    print(translate_repo(sys.argv[1]))


