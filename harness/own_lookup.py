"""Look-ups in a parsed schema done by the harness itself (first declaration of that name, by equality), so that what the harness
embeds and predicts does not go through the FcpV2.get_struct / get_enum of the code under test."""


def struct(fcp, name):
    for s in fcp.structs:
        if s.name == name:
            return s
    raise KeyError(f"no struct named {name!r}")


def enum(fcp, name):
    for e in fcp.enums:
        if e.name == name:
            return e
    raise KeyError(f"no enum named {name!r}")
