"""Schema descriptions and their rendering to FCP text (DESIGN §6).

A description is plain data:
  {"enums": [{"name", "vals": [(name, int)]}],
   "structs": [{"name", "fields": [{"name", "id", "type", "params": {...}}]}],
   "impls": [...], ...}
types are tuples: ("u", n) ("i", n) ("f32",) ("f64",) ("str",) ("enum", name) ("struct", name)
("arr", t, n) ("dyn", t) ("opt", t).
"""

SPECIAL_W = [1, 7, 8, 9, 31, 32, 33, 63, 64]


def ty_text(t):
    k = t[0]
    if k == "u":
        return f"u{t[1]}"
    if k == "i":
        return f"i{t[1]}"
    if k in ("f32", "f64", "str"):
        return k
    if k in ("enum", "struct"):
        return t[1]
    if k == "arr":
        return f"[{ty_text(t[1])}, {t[2]}]"
    if k == "dyn":
        return f"[{ty_text(t[1])}]"
    if k == "opt":
        return f"Optional[{ty_text(t[1])}]"
    raise ValueError(t)


def render(desc):
    out = ['version: "3"', ""]
    for item in desc.get("order") or ([("enum", i) for i in range(len(desc.get("enums", [])))] +
                                      [("struct", i) for i in range(len(desc.get("structs", [])))] +
                                      [("impl", i) for i in range(len(desc.get("impls", [])))] +
                                      [("service", i) for i in range(len(desc.get("services", [])))] +
                                      [("device", i) for i in range(len(desc.get("devices", [])))]):
        kind, i = item
        if kind == "enum":
            e = desc["enums"][i]
            out.append(f"enum {e['name']} {{")
            for n, v in e["vals"]:
                out.append(f"    {n} = {v},")
            out.append("}\n")
        elif kind == "struct":
            s = desc["structs"][i]
            out.append(f"struct {s['name']} {{")
            for f in s["fields"]:
                params = ""
                p = f.get("params") or {}
                if "unit" in p:
                    params += f' | unit("{p["unit"]}")'
                if "range" in p:
                    params += f" | range({p['range'][0]!r}, {p['range'][1]!r})"
                out.append(f"    {f['name']} @{f['id']}: {ty_text(f['type'])}{params},")
            out.append("}\n")
        elif kind == "impl":
            im = desc["impls"][i]
            head = f"impl {im['protocol']} for {im['type']}"
            if im.get("name") and im["name"] != im["type"]:
                head += f" as {im['name']}"
            out.append(head + " {")
            for k, v in im.get("fields", []):
                out.append(f"    {k}: {val_text(v)},")
            for sb in im.get("signals", []):
                out.append(f"    signal {sb['name']} {{")
                for k, v in sb["fields"]:
                    out.append(f"        {k}: {val_text(v)},")
                out.append("    },")
            out.append("}\n")
        elif kind == "service":
            sv = desc["services"][i]
            out.append(f"service {sv['name']} @{sv['id']} {{")
            for m in sv["methods"]:
                out.append(f"    method {m['name']}({m['input']}) @{m['id']} returns {m['output']},")
            out.append("}\n")
        elif kind == "device":
            d = desc["devices"][i]
            out.append(f"device {d['name']} {{")
            for k, v in d["fields"]:
                out.append(f"    {k}: {val_text(v)},")
            out.append("}\n")
    return "\n".join(out)


def val_text(v):
    if isinstance(v, bool):
        raise ValueError(v)
    if isinstance(v, (int, float)):
        return repr(v)
    if isinstance(v, str):
        return '"' + v + '"'
    if isinstance(v, tuple) and v[0] == "ident":
        return v[1]
    if isinstance(v, list):
        return "[" + ", ".join(val_text(x) for x in v) + "]"
    raise ValueError(v)


def gen_width(rng):
    return rng.choice(SPECIAL_W) if rng.random() < 0.35 else rng.randint(1, 64)


def gen_type(rng, structs, enums, depth, profile):
    """profile: 'serde' (every constructor) or 'fixed' (CAN-encodable)."""
    r = rng.random()
    leaf = depth <= 0
    if profile == "serde":
        if not leaf and r < 0.30:
            k = rng.choice(["arr", "dyn", "opt", "arr", "dyn", "opt", "struct"])
            if k == "struct" and structs:
                return ("struct", rng.choice(structs))
            if k in ("arr", "dyn") and rng.random() < 0.4:
                # byte arrays (payloads, blobs) and arrays of sub-byte elements (flags, nibbles, small enums: more elements than bytes):
                # the element types an implementation is most tempted to special-case
                el = rng.choice([("i", 8), ("u", 8), ("i", 16), ("i", 32), ("u", 16), ("u", 1), ("u", 2), ("i", 3), ("i", 4), ("u", 7), ("u", 1)]
                                + ([("enum", rng.choice(enums))] if enums else []))
                return ("arr", el, rng.randint(1, 4)) if k == "arr" else ("dyn", el)
            if k == "arr":
                return ("arr", gen_type(rng, structs, enums, depth - 1, profile), rng.choice([1, 2, 3, 4, 1, 2, 0]) if rng.random() < 0.15 else rng.randint(1, 4))
            if k == "dyn":
                return ("dyn", gen_type(rng, structs, enums, depth - 1, profile))
            return ("opt", gen_type(rng, structs, enums, depth - 1, profile))
        r = rng.random()
        if r < 0.30:
            return ("u", gen_width(rng))
        if r < 0.55:
            return ("i", gen_width(rng))
        if r < 0.65:
            return ("f32",)
        if r < 0.75:
            return ("f64",)
        if r < 0.85:
            return ("str",)
        if r < 0.93 and enums:
            return ("enum", rng.choice(enums))
        if structs:
            return ("struct", rng.choice(structs))
        return ("u", gen_width(rng))
    else:  # fixed (fixedx: now and then a type the packed encoder must refuse)
        if profile == "fixedx" and rng.random() < 0.04:
            return rng.choice([("str",), ("dyn", ("u", 8)), ("opt", ("u", 8))])
        if not leaf and r < 0.25:
            k = rng.choice(["arr", "struct", "arr"])
            if k == "struct" and structs:
                return ("struct", rng.choice(structs))
            inner = gen_type(rng, structs, enums, depth - 1, profile)
            return ("arr", inner, rng.randint(1, 3))
        r = rng.random()
        if r < 0.35:
            return ("u", gen_width(rng))
        if r < 0.6:
            return ("i", gen_width(rng))
        if r < 0.68:
            return ("f32",)
        if r < 0.74:
            return ("f64",)
        if r < 0.9 and enums:
            return ("enum", rng.choice(enums))
        if structs:
            return ("struct", rng.choice(structs))
        return ("u", gen_width(rng))


def gen_enum(rng, name, max_bits=40):
    n = rng.randint(1, 5)
    k = rng.randint(0, max_bits)
    top = rng.choice([2 ** k - 1, 2 ** k, 2 ** k + 1, rng.randint(0, 2 ** k)])
    top = max(top, 0)
    if max_bits >= 40 and rng.random() < 0.08:
        # flag-style enums whose top enumerator is a power of two (or one above it) beyond 2^48, where a width computed through a
        # floating-point log2 is still exact for these two shapes (for 2^k - 1 it is not: DESIGN, "seen but not claimed")
        k = rng.randint(49, 62)
        top = 2 ** k + rng.choice([0, 0, 1])
    n = min(n, top + 1)
    vals = {top}
    while len(vals) < n:
        vals.add(rng.randint(0, top))
    vals = sorted(vals)
    rng.shuffle(vals)
    return {"name": name, "vals": [(f"V{i}", v) for i, v in enumerate(vals)]}


def gen_desc(rng, profile="serde", nstructs=None, max_fields=6, depth=3, max_enum_bits=40):
    desc = {"enums": [], "structs": [], "impls": []}
    for i in range(rng.randint(0, 3)):
        desc["enums"].append(gen_enum(rng, f"E{i}", max_enum_bits))
    enums = [e["name"] for e in desc["enums"]]
    ns = nstructs or rng.randint(1, 5)
    for i in range(ns):
        earlier = [s["name"] for s in desc["structs"]]
        nf = rng.randint(1, max_fields)
        ids = list(range(nf))
        if rng.random() < 0.3:
            ids = sorted(rng.sample(range(0, 40), nf))
        fields = []
        for j in range(nf):
            t = gen_type(rng, earlier, enums, depth, profile)
            # a forced sub-byte field now and then, so that whatever follows is unaligned
            if rng.random() < 0.2:
                t = ("u", rng.randint(1, 7))
            fields.append({"name": f"f{j}", "id": ids[j], "type": t})
        if rng.random() < 0.5:
            rng.shuffle(fields)          # declaration order differs from id order
        desc["structs"].append({"name": f"S{i}", "fields": fields})
    # interleave enums and structs is not needed: enums first is always legal
    return desc


def field_names_deep(desc, sname, depth=2):
    """Field names reachable from a struct (own, nested, derived array names) for signal-block naming."""
    out = []
    st = next(s for s in desc["structs"] if s["name"] == sname)
    for f in st["fields"]:
        out.append(f["name"])
        t = f["type"]
        if t[0] == "arr":
            out += [f"{f['name']}_0", f"{f['name']}_1"]
            if t[1][0] == "arr":
                out.append(f"{f['name']}_0_0")
            t = t[1]
        if t[0] == "struct" and depth > 0:
            out += field_names_deep(desc, t[1], depth - 1)
    return out


def add_can_impls(rng, desc, p=0.75, buses=None, with_period=False):
    used_ids = set()
    for s in desc["structs"]:
        if rng.random() > p:
            continue
        fid = rng.randrange(0, 2048)
        while fid in used_ids:
            fid = rng.randrange(0, 2048)
        used_ids.add(fid)
        fields = [("id", fid)]
        if rng.random() < 0.5:
            fields.append(("device", rng.choice(["ecu", "bms", "dash"])))
        if buses and rng.random() < 0.7:
            fields.append(("bus", rng.choice(buses)))
        names = field_names_deep(desc, s["name"])
        sigs = []
        for nm in rng.sample(names, min(len(names), rng.randint(0, 3))):
            fs = []
            if rng.random() < 0.6:
                fs.append(("endianess", rng.choice(["big", "little"])))
            if rng.random() < 0.4:
                fs.append(("mux_count", rng.randint(1, 8)))
                fs.append(("mux_signal", rng.choice(names)))
            if not fs or rng.random() < 0.2:
                # zero, written as an integer and as a float, is a value like any other (and is falsy in Python)
                fs.append(("scale", rng.choice([rng.randint(1, 9), 0, 0.0, 0.5, rng.randint(1, 9)])))
                if rng.random() < 0.3:
                    fs.append(("offset", rng.choice([0, 0.0, -1.5, 3])))
            sigs.append({"name": nm, "fields": fs})
        if rng.random() < 0.1:
            sigs.append({"name": "nosuchfield", "fields": [("endianess", "big")]})
        desc["impls"].append({"protocol": "can", "type": s["name"], "name": s["name"], "fields": fields, "signals": sigs})
        if rng.random() < 0.35:
            # the same struct bound a second time, under another name, with its own (different) signal blocks
            fid2 = rng.randrange(0, 2048)
            while fid2 in used_ids:
                fid2 = rng.randrange(0, 2048)
            used_ids.add(fid2)
            sigs2 = []
            for nm in rng.sample(names, min(len(names), rng.randint(0, 3))):
                sigs2.append({"name": nm, "fields": [("endianess", rng.choice(["big", "little"]))] if rng.random() < 0.6
                              else [("mux_count", rng.randint(1, 8)), ("mux_signal", rng.choice(names))]})
            f2 = [("id", fid2)] + ([("bus", rng.choice(buses))] if buses and rng.random() < 0.7 else [])
            desc["impls"].append({"protocol": "can", "type": s["name"], "name": s["name"] + "B", "fields": f2, "signals": sigs2})
    return desc


def add_units_ranges(rng, desc):
    for s in desc["structs"]:
        for f in s["fields"]:
            p = {}
            if rng.random() < 0.3:
                # (also units that end in an escaped quote - inches - : the value is everything between the delimiting quotes)
                p["unit"] = rng.choice(["V", "A", "rpm", "deg C", "m/s", "in\\\"", "\\\""])
            if rng.random() < 0.25:
                # dyadic and non-dyadic bounds, and whole numbers beyond 2^24 and 2^32: values a narrower float would round
                lo = rng.choice([0.0, -1.5, 10.0, -100.25, 0.1, -0.3, 16777217.0])
                p["range"] = (lo, lo + rng.choice([1.0, 2.5, 1000.0, 99.8, 4294967295.0, 9007199254740991.0]))
            f["params"] = p
    return desc


def add_services(rng, desc):
    desc["services"] = []
    names = [s["name"] for s in desc["structs"]]
    for i in range(rng.randint(0, 2)):
        ms = [{"name": f"m{j}", "id": j, "input": rng.choice(names), "output": rng.choice(names)} for j in range(rng.randint(1, 3))]
        desc["services"].append({"name": f"Sv{i}", "id": i, "methods": ms})
    desc["devices"] = []
    for i in range(rng.randint(0, 2)):
        fs = [("id", i)]
        if desc["services"] and rng.random() < 0.6:
            fs.append(("services", [("ident", sv["name"]) for sv in desc["services"][: rng.randint(1, len(desc["services"]))]]))
        desc["devices"].append({"name": f"dev{i}", "fields": fs})
    return desc
