"""Fail-closed printing of fcp-core objects as Gallina terms (DESIGN §3.1).

Anything this module does not know how to print raises TypeError: the
correspondence is then reported as broken, never silently skipped.
"""
import own_lookup
import math
import struct

from common import cz, cnat, cstr, clist, cpair


def _types():
    from fcp.specs import type as T
    return T


def _width(t, letter):
    """The width a numeric type object carries in its NAME (u13, i64), read here independently of the code under test
    (NumericType.get_length is part of what the checks decide)."""
    import re
    m = re.fullmatch(letter + r"(\d+)", str(getattr(t, "name", "")))
    if not m:
        raise TypeError(f"to_coq.sty: numeric type with name {getattr(t, 'name', None)!r}")
    return int(m.group(1))


def sty(t):
    T = _types()
    if type(t) is T.UnsignedType:
        return f"(SU {cnat(_width(t, 'u'))})"
    if type(t) is T.SignedType:
        return f"(SI {cnat(_width(t, 'i'))})"
    if type(t) is T.FloatType:
        return "SF32"
    if type(t) is T.DoubleType:
        return "SF64"
    if type(t) is T.StringType:
        return "SStr"
    if type(t) is T.EnumType:
        return f"(SEnumRef {cstr(t.name)})"
    if type(t) is T.StructType:
        return f"(SStructRef {cstr(t.name)})"
    if type(t) is T.ArrayType:
        return f"(SArr {sty(t.underlying_type)} {cnat(t.size)})"
    if type(t) is T.DynamicArrayType:
        return f"(SDyn {sty(t.underlying_type)})"
    if type(t) is T.OptionalType:
        return f"(SOpt {sty(t.underlying_type)})"
    raise TypeError(f"to_coq.sty: unknown type object {t!r}")


def schema(fcp):
    ss = []
    for s in fcp.structs:
        fs = clist("{| fname := %s; fid := %s; fty := %s; funit := %s |}" % (
            cstr(f.name), cz(f.field_id), sty(f.type), "None" if f.unit is None else f"(Some {cstr(f.unit)})") for f in s.fields)
        ss.append("{| sname := %s; sfields := %s |}" % (cstr(s.name), fs))
    es = []
    for e in fcp.enums:
        vals = clist(cpair(cstr(x.name), cz(x.value)) for x in e.enumeration)
        es.append("{| ename := %s; evals := %s |}" % (cstr(e.name), vals))
    return "{| structs := %s; enums := %s |}" % (clist(ss), clist(es))


def f32_bits(x):
    return struct.unpack("<I", struct.pack("<f", x))[0]


def f64_bits(x):
    return struct.unpack("<Q", struct.pack("<d", x))[0]


def value(fcp, t, v):
    """Type-directed embedding of a Python value (as the codec takes/returns it)."""
    T = _types()
    if type(t) in (T.UnsignedType, T.SignedType, T.EnumType):
        if not isinstance(v, int) or isinstance(v, bool):
            raise TypeError(f"value: expected int for {t!r}, got {v!r}")
        return f"(VInt {cz(v)})"
    if type(t) is T.FloatType:
        if not isinstance(v, float):
            raise TypeError(f"value: expected float, got {v!r}")
        return f"(VBits {cz(f32_bits(v))})"
    if type(t) is T.DoubleType:
        if not isinstance(v, float):
            raise TypeError(f"value: expected float, got {v!r}")
        return f"(VBits {cz(f64_bits(v))})"
    if type(t) is T.StringType:
        if not isinstance(v, str):
            raise TypeError(f"value: expected str, got {v!r}")
        return f"(VStr {clist(cz(ord(c)) for c in v)})"
    if type(t) in (T.ArrayType, T.DynamicArrayType):
        if not isinstance(v, list):
            raise TypeError(f"value: expected list, got {v!r}")
        return f"(VList {clist(value(fcp, t.underlying_type, x) for x in v)})"
    if type(t) is T.OptionalType:
        if v is None:
            return "VNone"
        return f"(VSome {value(fcp, t.underlying_type, v)})"
    if type(t) is T.StructType:
        return struct_value(fcp, t.name, v)
    raise TypeError(f"to_coq.value: unknown type object {t!r}")


def struct_value(fcp, name, d):
    s = own_lookup.struct(fcp, name)
    if not isinstance(d, dict) or set(d.keys()) != {f.name for f in s.fields}:
        raise TypeError(f"struct_value: dict keys {list(d) if isinstance(d, dict) else d!r} do not match struct {name}")
    return "(VStruct %s)" % clist(cpair(cstr(f.name), value(fcp, f.type, d[f.name])) for f in s.fields)


# ---------------------------------------------------------------------------
# in-range Python values, boundary biased

def canon_f32(bits):
    e = (bits >> 23) & 0xFF
    if e == 0xFF and (bits & 0x7FFFFF):
        return 0x7FC00000
    return bits


def canon_f64(bits):
    e = (bits >> 52) & 0x7FF
    if e == 0x7FF and (bits & ((1 << 52) - 1)):
        return 0x7FF8000000000000
    return bits


F32_SPECIAL = [0x00000000, 0x80000000, 0x3FC00000, 0x7F800000, 0xFF800000, 0x00000001, 0x7F7FFFFF, 0x7FC00000, 0x3F800000]
F64_SPECIAL = [0, 1 << 63, 0x3FF8000000000000, 0x7FF0000000000000, 0xFFF0000000000000, 1, 0x7FEFFFFFFFFFFFFF,
               0x7FF8000000000000, 0x3FF0000000000000]


def gen_value(rng, fcp, t, avoid_signed_min=False, big=False):
    T = _types()
    if type(t) is T.UnsignedType:
        n = _width(t, 'u')
        c = [0, 1, 2 ** n - 1, 2 ** (n - 1), 2 ** (n - 1) - 1]
        return rng.choice(c) if rng.random() < 0.5 else rng.randrange(0, 2 ** n)
    if type(t) is T.SignedType:
        n = _width(t, 'i')
        lo, hi = -(2 ** (n - 1)), 2 ** (n - 1) - 1
        c = [lo, -1, 0, 1, hi, lo + 1]
        v = rng.choice(c) if rng.random() < 0.5 else rng.randint(lo, hi)
        if avoid_signed_min and v == lo:
            v = hi if n == 1 else lo + 1
            if n == 1:
                v = 0
        return max(lo, min(hi, v))
    if type(t) is T.EnumType:
        e = own_lookup.enum(fcp, t.name)
        return rng.choice([x.value for x in e.enumeration])
    if type(t) is T.FloatType:
        bits = rng.choice(F32_SPECIAL) if rng.random() < 0.4 else canon_f32(rng.getrandbits(32))
        return struct.unpack("<f", struct.pack("<I", bits))[0]
    if type(t) is T.DoubleType:
        bits = rng.choice(F64_SPECIAL) if rng.random() < 0.4 else canon_f64(rng.getrandbits(64))
        return struct.unpack("<d", struct.pack("<Q", bits))[0]
    if type(t) is T.StringType:
        n = rng.choice([0, 0, 1, 2, 3, 5, 8, 17]) if not (big and rng.random() < 0.1) else 300
        return "".join(chr(rng.choice([rng.randint(32, 126), rng.randint(1, 127), 127, 65])) for _ in range(n))
    if type(t) is T.ArrayType:
        return [gen_value(rng, fcp, t.underlying_type, avoid_signed_min, big) for _ in range(t.size)]
    if type(t) is T.DynamicArrayType:
        n = rng.choice([0, 0, 1, 2, 3, 5]) if not (big and rng.random() < 0.1) else 40
        if type(t.underlying_type) in (T.UnsignedType, T.SignedType, T.EnumType) and rng.random() < 0.5:
            n = rng.choice([6, 9, 12, 17, 33])      # more elements than bytes when the elements are narrower than a byte
        return [gen_value(rng, fcp, t.underlying_type, avoid_signed_min, big) for _ in range(n)]
    if type(t) is T.OptionalType:
        if rng.random() < 0.4:
            return None
        return gen_value(rng, fcp, t.underlying_type, avoid_signed_min, big)
    if type(t) is T.StructType:
        return gen_struct_value(rng, fcp, t.name, avoid_signed_min, big)
    raise TypeError(f"gen_value: unknown type {t!r}")


def gen_struct_value(rng, fcp, name, avoid_signed_min=False, big=False):
    s = own_lookup.struct(fcp, name)
    return {f.name: gen_value(rng, fcp, f.type, avoid_signed_min, big) for f in s.fields}


def contains_signed_min(fcp, t, v):
    T = _types()
    if type(t) is T.SignedType:
        return v == -(2 ** (_width(t, 'i') - 1))
    if type(t) in (T.ArrayType, T.DynamicArrayType):
        return any(contains_signed_min(fcp, t.underlying_type, x) for x in v)
    if type(t) is T.OptionalType:
        return v is not None and contains_signed_min(fcp, t.underlying_type, v)
    if type(t) is T.StructType:
        s = own_lookup.struct(fcp, t.name)
        return any(contains_signed_min(fcp, f.type, v[f.name]) for f in s.fields)
    return False


def values_equal(fcp, t, a, b):
    """Type-directed equality; a value of the wrong shape for the type is simply not equal."""
    try:
        return _values_equal(fcp, t, a, b)
    except Exception:
        return False


def _values_equal(fcp, t, a, b):
    """Exact equality, floats compared as bit patterns."""
    T = _types()
    if type(t) is T.FloatType:
        return isinstance(a, float) and isinstance(b, float) and f32_bits(a) == f32_bits(b)
    if type(t) is T.DoubleType:
        return isinstance(a, float) and isinstance(b, float) and f64_bits(a) == f64_bits(b)
    if type(t) in (T.ArrayType, T.DynamicArrayType):
        return isinstance(a, list) and isinstance(b, list) and len(a) == len(b) and all(
            values_equal(fcp, t.underlying_type, x, y) for x, y in zip(a, b))
    if type(t) is T.OptionalType:
        if a is None or b is None:
            return a is None and b is None
        return values_equal(fcp, t.underlying_type, a, b)
    if type(t) is T.StructType:
        s = own_lookup.struct(fcp, t.name)
        return isinstance(a, dict) and isinstance(b, dict) and set(a) == set(b) and all(
            values_equal(fcp, f.type, a[f.name], b[f.name]) for f in s.fields)
    return type(a) is type(b) and a == b


def xval(v):
    if isinstance(v, bool):
        return "XOther"
    if isinstance(v, int):
        return f"(XInt {cz(v)})"
    if isinstance(v, str):
        try:
            return f"(XStr {cstr(v)})"
        except TypeError:
            return "XOther"
    return "XOther"


def xfields(d):
    return clist(cpair(cstr(k), xval(v)) for k, v in d.items())


def impl(im):
    sigs = clist("{| sbname := %s; sbfields := %s |}" % (cstr(sb.name), xfields(sb.fields)) for sb in im.signals)
    return "{| iname := %s; iprotocol := %s; itype := %s; ifields := %s; isignals := %s |}" % (
        cstr(im.name), cstr(im.protocol), cstr(im.type), xfields(im.fields), sigs)


def opiece(v):
    """encoding.Value -> Corr.Layout.opiece"""
    unit = "None" if v.unit is None else f"(Some {cstr(v.unit)})"
    if not isinstance(v.extended_data, dict):
        raise TypeError("opiece: extended_data is not a dict")
    return cpair(cstr(v.name), sty(v.type), cz(v.bitstart), cz(v.bitlength), cstr(v.endianess), unit, xfields(v.extended_data))


def ftree(fcp):
    """FcpV2 -> Verifier.Checks.ftree (fail-closed)."""
    ss = []
    for s in fcp.structs:
        fs = clist("{| fname := %s; fid := %s; fty := %s; funit := %s |}" % (
            cstr(f.name), cz(f.field_id), sty(f.type), "None" if f.unit is None else f"(Some {cstr(f.unit)})") for f in s.fields)
        ss.append("{| sname := %s; sfields := %s |}" % (cstr(s.name), fs))
    es = ["{| ename := %s; evals := %s |}" % (cstr(e.name), clist(cpair(cstr(x.name), cz(x.value)) for x in e.enumeration)) for e in fcp.enums]
    ims = [impl(i) for i in fcp.impls]
    svs = [cstr(s.name) for s in fcp.services]
    ds = []
    for d in fcp.devices:
        sv = d.fields.get("services")
        if sv is None:
            t = "None"
        elif isinstance(sv, list) and all(isinstance(x, str) for x in sv):
            t = f"(Some {clist(cstr(x) for x in sv)})"
        else:
            raise TypeError(f"ftree: device services outside the model: {sv!r}")
        ds.append("{| dname := %s; dservices := %s |}" % (cstr(d.name), t))
    return "{| t_structs := %s; t_enums := %s; t_impls := %s; t_services := %s; t_devices := %s |}" % (
        clist(ss), clist(es), clist(ims), clist(svs), clist(ds))


def rtype(t):
    T = _types()
    if type(t) in (T.UnsignedType, T.SignedType, T.FloatType, T.DoubleType):
        return f"(TLeaf {cstr(t.name)} {cstr(t.type)})"
    if type(t) is T.StringType:
        return '(TLeaf "str" "str")'
    if type(t) is T.EnumType:
        return f'(TLeaf {cstr(t.name)} "Enum")'
    if type(t) is T.StructType:
        return f'(TLeaf {cstr(t.name)} "Struct")'
    if type(t) is T.ArrayType:
        return f"(TArr {rtype(t.underlying_type)} {cz(t.size)})"
    if type(t) is T.DynamicArrayType:
        return f"(TDyn {rtype(t.underlying_type)})"
    if type(t) is T.OptionalType:
        return f"(TOpt {rtype(t.underlying_type)})"
    raise TypeError(f"rtype: {t!r}")


def rmeta(m):
    if m is None:
        return "None"
    return "(Some {| m_line := %s; m_end_line := %s; m_col := %s; m_end_col := %s; m_start := %s; m_end := %s; m_file := %s |})" % (
        cz(m.line), cz(m.end_line), cz(m.column), cz(m.end_column), cz(m.start_pos), cz(m.end_pos), cstr(m.filename))


def _ostr(x):
    return "None" if x is None else f"(Some {cstr(x)})"


def _obits(x):
    if x is None:
        return "None"
    if not isinstance(x, float):
        raise TypeError(f"rtree: min/max must be float, got {x!r}")
    return f"(Some {cz(f64_bits(x))})"


def rtree(fcp):
    from fcp.specs.v2 import encode_version
    ss = []
    for s in fcp.structs:
        fs = clist("{| rf_name := %s; rf_id := %s; rf_type := %s; rf_unit := %s; rf_min := %s; rf_max := %s; rf_meta := %s |}" % (
            cstr(f.name), cz(f.field_id), rtype(f.type), _ostr(f.unit), _obits(f.min_value), _obits(f.max_value), rmeta(f.meta)) for f in s.fields)
        ss.append("{| rs_name := %s; rs_fields := %s; rs_meta := %s |}" % (cstr(s.name), fs, rmeta(s.meta)))
    es = []
    for e in fcp.enums:
        vs = clist("{| re_name := %s; re_value := %s; re_meta := %s |}" % (cstr(x.name), cz(x.value), rmeta(x.meta)) for x in e.enumeration)
        es.append("{| rn_name := %s; rn_vals := %s; rn_meta := %s |}" % (cstr(e.name), vs, rmeta(e.meta)))
    ims = []
    for i in fcp.impls:
        sg = clist("{| rg_name := %s; rg_fields := %s; rg_meta := %s |}" % (
            cstr(g.name), clist(cpair(cstr(k), cstr(str(v))) for k, v in g.fields.items()), rmeta(g.meta)) for g in i.signals)
        ims.append("{| ri_name := %s; ri_protocol := %s; ri_type := %s; ri_fields := %s; ri_signals := %s; ri_meta := %s |}" % (
            cstr(i.name), cstr(i.protocol), cstr(i.type), clist(cpair(cstr(k), cstr(str(v))) for k, v in i.fields.items()), sg, rmeta(i.meta)))
    svs = []
    for sv in fcp.services:
        ms = clist("{| rm_name := %s; rm_id := %s; rm_input := %s; rm_output := %s; rm_meta := %s |}" % (
            cstr(m.name), cz(m.id), cstr(m.input), cstr(m.output), rmeta(m.meta)) for m in sv.methods)
        svs.append("{| rv_name := %s; rv_id := %s; rv_methods := %s; rv_meta := %s |}" % (cstr(sv.name), cz(sv.id), ms, rmeta(sv.meta)))
    return "{| r_version := %s; r_structs := %s; r_enums := %s; r_impls := %s; r_services := %s |}" % (
        cz(encode_version(fcp.version)), clist(ss), clist(es), clist(ims), clist(svs))


def fval(v):
    if isinstance(v, bool):
        raise TypeError("fval: bool")
    if isinstance(v, int):
        return f"(FInt {cz(v)})"
    if isinstance(v, float):
        return f"(FFloat {cz(f64_bits(v))})"
    if isinstance(v, str):
        return f"(FStr {cstr(v)})"
    if isinstance(v, list):
        return f"(FArr {clist(fval(x) for x in v)})"
    raise TypeError(f"fval: {v!r}")


def fdict(d):
    return clist(cpair(cstr(k), fval(v)) for k, v in d.items())


def front(fcp):
    """FcpV2 (as returned by the real front end) -> Front.Elab.front"""
    def ob(x):
        if x is None:
            return "None"
        if not isinstance(x, float):
            raise TypeError(f"front: min/max not float: {x!r}")
        return f"(Some {cz(f64_bits(x))})"
    ss = []
    for s in fcp.structs:
        fs = clist("{| ff_name := %s; ff_id := %s; ff_type := %s; ff_unit := %s; ff_min := %s; ff_max := %s |}" % (
            cstr(f.name), cz(f.field_id), sty(f.type), _ostr(f.unit), ob(f.min_value), ob(f.max_value)) for f in s.fields)
        ss.append("{| fs_name := %s; fs_fields := %s |}" % (cstr(s.name), fs))
    es = [cpair(cstr(e.name), clist(cpair(cstr(x.name), cz(x.value)) for x in e.enumeration)) for e in fcp.enums]
    ims = []
    for i in fcp.impls:
        sg = clist("{| fg_name := %s; fg_fields := %s |}" % (cstr(g.name), fdict(g.fields)) for g in i.signals)
        ims.append("{| fi_name := %s; fi_protocol := %s; fi_type := %s; fi_fields := %s; fi_signals := %s |}" % (
            cstr(i.name), cstr(i.protocol), cstr(i.type), fdict(i.fields), sg))
    svs = []
    for sv in fcp.services:
        ms = clist("{| fm_name := %s; fm_id := %s; fm_input := %s; fm_output := %s |}" % (cstr(m.name), cz(m.id), cstr(m.input), cstr(m.output)) for m in sv.methods)
        svs.append("{| fv_name := %s; fv_id := %s; fv_methods := %s |}" % (cstr(sv.name), cz(sv.id), ms))
    ds = ["{| fd_name := %s; fd_fields := %s |}" % (cstr(d.name), fdict(d.fields)) for d in fcp.devices]
    return "{| f_structs := %s; f_enums := %s; f_impls := %s; f_services := %s; f_devices := %s |}" % (
        clist(ss), clist(es), clist(ims), clist(svs), clist(ds))


# ---------------------------------------------------------------------------
# front-profile descriptions (harness/printer.py) as Front.Parser items, and printer tokens as Front.Lexer tokens

def pval(v):
    if isinstance(v, bool):
        raise TypeError(v)
    if isinstance(v, int):
        return f"(PVInt {cz(v)})"
    if v[0] == "float":
        return f"(PVFloat {cstr(v[1])})"
    if v[0] in ("str", "ident"):
        return f"(PVStr {cstr(v[1])})"
    if v[0] == "arr":
        return f"(PVArr {clist(pval(x) for x in v[1])})"
    raise TypeError(v)


def ppty(t):
    k = t[0]
    if k == "u":
        return f"(PTU {cnat(t[1])})"
    if k == "i":
        return f"(PTI {cnat(t[1])})"
    if k == "f32":
        return "PTF32"
    if k == "f64":
        return "PTF64"
    if k == "str":
        return "PTStr"
    if k in ("enum", "struct", "ref"):
        return f"(PTRef {cstr(t[1])})"
    if k == "arr":
        return f"(PTArr {ppty(t[1])} (PVInt {cz(t[2])}))"
    if k == "dyn":
        return f"(PTDyn {ppty(t[1])})"
    if k == "opt":
        return f"(PTOpt {ppty(t[1])})"
    raise TypeError(t)


def pitem(it):
    k = it[0]
    kv = lambda kk, vv: cpair(cstr(kk), pval(vv))
    if k == "struct":
        fs = clist("{| pf_name := %s; pf_id := (PVInt %s); pf_type := %s; pf_params := %s |}" % (
            cstr(f["name"]), cz(f["id"]), ppty(f["type"]),
            clist("{| pp_name := %s; pp_args := %s |}" % (cstr(pn), clist(pval(a) for a in pargs)) for pn, pargs in f.get("params", [])))
            for f in it[2])
        return f"(IStruct {cstr(it[1])} {fs})"
    if k == "enum":
        return f"(IEnum {cstr(it[1])} {clist(kv(n, v) for n, v in it[2])})"
    if k == "impl":
        _, proto, ty, name, _as, body = it
        bs = clist(f"(PExt {cstr(b[1])} {pval(b[2])})" if b[0] == "ext" else f"(PSig {cstr(b[1])} {clist(kv(a, c) for a, c in b[2])})" for b in body)
        nm = "None" if name is None else f"(Some {cstr(name)})"
        return f"(IImpl {cstr(proto)} {cstr(ty)} {nm} {bs})"
    if k == "service":
        ms = clist("{| pm_name := %s; pm_input := %s; pm_id := (PVInt %s); pm_output := %s |}" % (cstr(m[0]), cstr(m[1]), cz(m[2]), cstr(m[3])) for m in it[3])
        return f"(IService {cstr(it[1])} (PVInt {cz(it[2])}) {ms})"
    if k == "device":
        return f"(IDevice {cstr(it[1])} {clist(kv(a, c) for a, c in it[2])})"
    if k == "mod":
        return f"(IMod {clist(cstr(p) for p in it[1])})"
    raise TypeError(it)


_INT = __import__("re").compile(r"^[+-]?\d+$")
_PUNCT = set("{}[]():,;@|=.")


def ptoken(t):
    if t.startswith('"'):
        return f"(TStr {cstr(t[1:-1])})"
    if len(t) == 1 and t in _PUNCT:
        return f'(TPunct "{t}"%char)'
    if _INT.match(t):
        return f"(TInt {cz(int(t))})"
    if t[0] in "+-.0123456789":
        return f"(TFloat {cstr(t)})"
    return f"(TId {cstr(t)})"
