"""Regeneration of the source-derived Coq files (DESIGN §3.1).  Filled in per property."""
import common

GENERATORS = []  # list of (name, function(strict) -> None)


def regenerate_all(strict=True):
    for name, fn in GENERATORS:
        fn(strict)
