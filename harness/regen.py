"""Regeneration of the source-derived Coq files under coq/gen (DESIGN §3.1).

Every generator is fail-closed: anything it cannot translate raises, and the
check that depends on the file reports the tie to the source as broken.
Files are rewritten only when their content changes.
"""
import json
import os

import common
import to_coq
from common import cz, cstr, clist, cpair

GEN = os.path.join(common.COQ, "gen")


def _std_value(fcp, t, raw):
    from fcp.specs import type as T
    if type(t) is T.UnsignedType:
        if raw == "ULONG_MAX":
            return 2 ** 64 - 1
        return int(raw, 0)
    if type(t) is T.SignedType:
        if raw == "LLONG_MAX":
            return 2 ** 63 - 1
        if raw == "LLONG_MIN":
            return -(2 ** 63)
        return int(raw, 0)
    if type(t) in (T.FloatType, T.DoubleType):
        return float(raw)
    if type(t) is T.StringType:
        return str(raw)
    if type(t) is T.EnumType:
        e = fcp.get_enum(t.name).unwrap()
        m = {x.name: x.value for x in e.enumeration}
        return m[raw]
    if type(t) in (T.ArrayType, T.DynamicArrayType):
        return [_std_value(fcp, t.underlying_type, x) for x in raw]
    if type(t) is T.OptionalType:
        return None if raw is None else _std_value(fcp, t.underlying_type, raw)
    raise TypeError(f"std vectors: unsupported type {t!r}")


def std_vectors():
    """Python view of tests/standardized: [(suite, test, fcp, struct, value, bytes)]."""
    from fcp.parser import get_fcp
    d = os.path.join(common.REPO, "tests", "standardized")
    suites = json.load(open(os.path.join(d, "fcp_tests.json")))
    out = []
    for suite in suites:
        fcp = get_fcp(os.path.join(d, suite["schema"])).unwrap()
        for t in suite["tests"]:
            s = fcp.get_struct(t["datatype"]).unwrap()
            val = {}
            for xpath, raw in t["decoded"].items():
                root, path = xpath.split(":")
                if root != s.name or "/" in path:
                    raise TypeError(f"std vectors: unsupported xpath {xpath}")
                val[path] = _std_value(fcp, s.get_field(path).type, raw)
            out.append((suite["name"], t["name"], fcp, s.name, val, [x if isinstance(x, int) else int(x, 0) for x in t["encoded"]]))
    return out


def gen_std_vectors(strict=True):
    items = []
    for suite, name, fcp, sname, val, enc in std_vectors():
        items.append(cpair(to_coq.schema(fcp), cstr(sname), to_coq.struct_value(fcp, sname, val), clist(cz(b) for b in enc)))
    body = ("(* GENERATED from /repo/tests/standardized on every run; do not edit. *)\n"
            "From Coq Require Import String ZArith List Bool.\n"
            "From FcpV Require Import Corr.Serde.\nImport ListNotations.\nOpen Scope Z_scope.\n\n"
            "Definition vectors : list (schema * string * value * list Z) := [\n  " + ";\n  ".join(items) + "\n].\n\n"
            "Lemma std_vectors_ok : forallb check_vector vectors = true.\nProof. vm_compute. reflexivity. Qed.\n")
    common.write_if_changed(os.path.join(GEN, "StdVectors.v"), body)


GENERATORS = {
    "StdVectors": gen_std_vectors,
}

BY_PROP = {
    "C02": ["StdVectors"],
}


def regenerate_all(strict=True):
    for name, fn in GENERATORS.items():
        fn(strict)


def regenerate_for(prop):
    for name in BY_PROP.get(prop, []):
        GENERATORS[name](True)
