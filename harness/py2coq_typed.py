"""Typed translator for the dispatch layer of fcp/serde.py -> Gallina (coq/gen/PyDispatch.v).

Everything in serde.py below the leaf codecs: _encode_enum/_str/_struct/_array/_dynamic_array/_optional, _encode, encode and
their decode counterparts.  Unlike the _Buffer class and the leaf codecs (py2coq.py: all ints), this code is dynamically
typed: `data` is any Python value, `type` is a type object, `fcp` the schema.  The translator therefore infers a static type
for every expression (from the annotations and from the operations) and inserts the dynamic checks Python performs as explicit
coercions of the run-time library coq/Py/DispatchLib.v (as_int, py_getkey, py_underlying, ...), each of which can raise.

Fail-closed: any construct outside the subset raises Untranslatable.

Recursion: the functions that can reach themselves (_encode and the composite encoders, _decode and the composite decoders)
become one mutual Fixpoint on an explicit fuel (exhaustion = RecursionError, excluded by the theorems); a function that only
calls them passes its own fuel on.

Static types:  Z int | F float (IEEE bits) | pyval | sty | schema | pybuf | pynum | string | listZ | bool | unit
               | sstruct | senum | sfield | sfields | plist (a list being built) | pdict (a dict being built)
"""
import ast

from py2coq import Untranslatable, buffer_class, LEAVES

RESERVED = {"struct", "end", "at", "fun", "fix", "cofix", "let", "match", "then", "forall", "exists", "where", "using", "Type", "Set", "Prop"}
TYPE_CLASSES = ("UnsignedType", "SignedType", "FloatType", "DoubleType", "StringType", "EnumType", "StructType", "ArrayType",
                "DynamicArrayType", "OptionalType")
COQ_TYPE = {"Z": "Z", "F": "Z", "pyval": "pyval", "sty": "sty", "schema": "schema", "pybuf": "pybuf", "pynum": "pynum", "string": "string",
            "listZ": "(list Z)", "bool": "bool", "unit": "unit", "sstruct": "sstruct", "senum": "senum", "sfield": "sfield",
            "sfields": "(list sfield)", "plist": "(list pyval)", "pdict": "(list (string * pyval))"}
EXCEPTIONS = {"ValueError": "PyValueError", "IndexError": "PyIndexError", "TypeError": "PyTypeError", "KeyError": "PyKeyError"}


def ident(name):
    return name + "_" if name in RESERVED else name


def param_type(a):
    if a is None:
        raise Untranslatable("missing annotation")
    s = ast.unparse(a)
    if s == "_Buffer":
        return "pybuf"
    if s == "FcpV2":
        return "schema"
    if s == "Type" or s in TYPE_CLASSES:
        return "sty"
    if s in ("Any", "Dict[str, Any]", "Union[Any, Dict[str, Any]]", "List[Any]"):
        return "pyval"
    if s == "str":
        return "string"
    if s == "int":
        return "Z"
    if s in ("bytearray", "List[int]"):
        return "listZ"
    raise Untranslatable(f"parameter annotation {s}")


def return_type(a):
    if a is None:
        raise Untranslatable("missing return annotation")
    s = ast.unparse(a)
    if s == "None":
        return "unit"
    if s == "int":
        return "Z"
    if s == "float":
        return "F"
    if s in ("str", "List[Any]", "Dict[str, Any]", "Any"):
        return "pyval"
    if s in ("bytearray", "List[int]"):
        return "listZ"
    raise Untranslatable(f"return annotation {s}")


def leaf_signature(fn):
    """Signature of a leaf codec as translated by py2coq.Function (gen/PyLeaf.v): (buffer, type : pynum[, data : Z|F]) -> Z|F|unit.
    `data: Any` is a float when it is what struct.pack packs, an int otherwise."""
    params = []
    for a in fn.args.args:
        s = ast.unparse(a.annotation)
        if s == "_Buffer":
            params.append("pybuf")
        elif s in ("UnsignedType", "SignedType", "FloatType", "DoubleType"):
            params.append("pynum")
        elif s == "Any":
            packed = any(isinstance(n, ast.Call) and ast.unparse(n.func) == "struct.pack" and len(n.args) == 2
                         and isinstance(n.args[1], ast.Name) and n.args[1].id == a.arg for n in ast.walk(fn))
            params.append("F" if packed else "Z")
        else:
            raise Untranslatable(f"leaf parameter {s}")
    return params, return_type(fn.returns)


def method_signature(fn):
    params = ["pybuf"]
    for a in fn.args.args[1:]:
        s = ast.unparse(a.annotation)
        if s == "int":
            params.append("Z")
        elif s in ("List[int]", "bytearray"):
            params.append("listZ")
        else:
            raise Untranslatable(f"method parameter {s}")
    return params, return_type(fn.returns)


def ends_in_exit(body):
    """Every path through the block ends in return or raise."""
    if not body:
        return False
    last = body[-1]
    if isinstance(last, (ast.Return, ast.Raise)):
        return True
    if isinstance(last, ast.If) and last.orelse:
        return ends_in_exit(last.body) and ends_in_exit(last.orelse)
    return False


class TypedFunction:
    def __init__(self, fn, sigs, methods, fuel_fns, in_group):
        self.fn = fn
        self.sigs = sigs                # name -> (param types, return type) of every callable module-level function
        self.methods = methods          # _Buffer method name -> (param types, return type)
        self.fuel_fns = fuel_fns        # functions that take a fuel argument
        self.in_group = in_group        # this function is part of the mutual Fixpoint (its fuel is decremented)
        self.tmp = 0
        self.env = {}
        for a in fn.args.args:
            self.env[a.arg] = param_type(a.annotation)
        self.ret = return_type(fn.returns)
        bufs = [a.arg for a in fn.args.args if self.env[a.arg] == "pybuf"]
        if len(bufs) > 1:
            raise Untranslatable("two buffers")
        self.bufparam = bufs[0] if bufs else None

    def fresh(self):
        self.tmp += 1
        return f"t{self.tmp}"

    # ------------------------------------------------------------------ coercions
    def coerce(self, x, want):
        binds, term, have = x
        if have == want:
            return binds, term
        if (have, want) == ("Z", "pyval"):
            return binds, f"(PInt {term})"
        if (have, want) == ("F", "pyval"):
            return binds, f"(PFlt {term})"
        if (have, want) == ("plist", "pyval"):
            return binds, f"(PList {term})"
        if (have, want) == ("pdict", "pyval"):
            return binds, f"(PDict {term})"
        dyn = {("pyval", "Z"): "as_int", ("pyval", "F"): "as_flt", ("sty", "pynum"): "py_as_num"}
        if (have, want) in dyn:
            t = self.fresh()
            return binds + [(t, f"{dyn[(have, want)]} {term}")], t
        raise Untranslatable(f"a {have} where a {want} is expected: {term}")

    # ------------------------------------------------------------------ expressions -> (binds, term, type)
    def expr(self, e):
        if isinstance(e, ast.Constant):
            if e.value is None:
                return [], "PNone", "pyval"
            if isinstance(e.value, bool) or not isinstance(e.value, int):
                raise Untranslatable(f"constant {e.value!r}")
            return [], (str(e.value) if e.value >= 0 else f"({e.value})"), "Z"
        if isinstance(e, ast.Name):
            if e.id not in self.env:
                raise Untranslatable(f"unknown name {e.id}")
            return [], ident(e.id), self.env[e.id]
        if isinstance(e, ast.Attribute):
            b, x, t = self.expr(e.value)
            pure = {("sfield", "name"): ("fname", "string"), ("sfield", "type"): ("fty", "sty"), ("sfield", "field_id"): ("fid", "Z"),
                    ("sstruct", "fields"): ("sfields", "sfields"), ("sstruct", "name"): ("sname", "string")}
            if (t, e.attr) in pure:
                f, rt = pure[(t, e.attr)]
                return b, f"({f} {x})", rt
            dyn = {("sty", "name"): ("py_type_name", "string"), ("sty", "underlying_type"): ("py_underlying", "sty"), ("sty", "size"): ("py_array_size", "Z")}
            if (t, e.attr) in dyn:
                f, rt = dyn[(t, e.attr)]
                v = self.fresh()
                return b + [(v, f"{f} {x}")], v, rt
            raise Untranslatable(ast.unparse(e))
        if isinstance(e, ast.IfExp):
            bc, c, tc = self.expr(e.test)
            ba, a, ta = self.expr(e.body)
            bb, bt, tb = self.expr(e.orelse)
            if tc != "bool" or ta != tb or ba or bb:
                raise Untranslatable(ast.unparse(e))
            return bc, f"(if {c} then {a} else {bt})", ta
        if isinstance(e, ast.Compare):
            if len(e.ops) != 1:
                raise Untranslatable(ast.unparse(e))
            op, rhs = e.ops[0], e.comparators[0]
            if isinstance(op, (ast.Is, ast.IsNot)) and isinstance(rhs, ast.Constant) and rhs.value is None:
                b, x = self.coerce(self.expr(e.left), "pyval")
                return b, (f"(py_is_none {x})" if isinstance(op, ast.Is) else f"(negb (py_is_none {x}))"), "bool"
            bl, l = self.coerce(self.expr(e.left), "Z")
            br, r = self.coerce(self.expr(rhs), "Z")
            forms = {ast.Eq: "(Z.eqb {l} {r})", ast.NotEq: "(negb (Z.eqb {l} {r}))", ast.Lt: "(Z.ltb {l} {r})", ast.LtE: "(Z.leb {l} {r})",
                     ast.Gt: "(Z.ltb {r} {l})", ast.GtE: "(Z.leb {r} {l})"}
            if type(op) not in forms:
                raise Untranslatable(ast.unparse(e))
            return bl + br, forms[type(op)].format(l=l, r=r), "bool"
        if isinstance(e, ast.Subscript):
            bv, v = self.coerce(self.expr(e.value), "pyval")
            bi, i, ti = self.expr(e.slice)
            t = self.fresh()
            if ti == "Z":
                return bv + bi + [(t, f"py_index {v} {i}")], t, "pyval"
            if ti == "string":
                return bv + bi + [(t, f"py_getkey {v} {i}")], t, "pyval"
            raise Untranslatable(ast.unparse(e))
        if isinstance(e, ast.Call):
            return self.call(e)
        raise Untranslatable(ast.unparse(e))

    def args_for(self, args, want):
        if len(args) != len(want):
            raise Untranslatable("arity")
        binds, terms = [], []
        for a, w in zip(args, want):
            b, t = self.coerce(self.expr(a), w)
            binds += b
            terms.append(t)
        return binds, terms

    def call(self, e):
        f = e.func
        if e.keywords and not (isinstance(f, ast.Name) and f.id == "sorted"):
            raise Untranslatable(ast.unparse(e))
        if isinstance(f, ast.Name):
            name = f.id
            if name in TYPE_CLASSES and name in ("UnsignedType", "SignedType") and len(e.args) == 1 and isinstance(e.args[0], ast.Constant) \
                    and isinstance(e.args[0].value, str):
                s = e.args[0].value
                if s[:1] != {"UnsignedType": "u", "SignedType": "i"}[name] or not s[1:].isdigit():
                    raise Untranslatable(ast.unparse(e))
                # NumericType.get_length() is int(name[1:]) (specs/type.py)
                return [], f"({'SU' if name == 'UnsignedType' else 'SI'} {int(s[1:])}%nat)", "sty"
            if name == "_Buffer" and not e.args:
                return [], "py_init", "pybuf"
            if name == "len" and len(e.args) == 1:
                b, x, t = self.expr(e.args[0])
                if t == "listZ":
                    return b, f"(py_len {x})", "Z"
                b, x = self.coerce((b, x, t), "pyval")
                v = self.fresh()
                return b + [(v, f"py_len_val {x}")], v, "Z"
            if name == "ord" and len(e.args) == 1:
                b, x = self.coerce(self.expr(e.args[0]), "pyval")
                v = self.fresh()
                return b + [(v, f"py_ord {x}")], v, "Z"
            if name == "list" and len(e.args) == 1:
                b, x = self.coerce(self.expr(e.args[0]), "listZ")
                return b, x, "listZ"
            if name == "bytearray" and len(e.args) == 1:
                b, x = self.coerce(self.expr(e.args[0]), "listZ")
                v = self.fresh()
                return b + [(v, f"py_bytearray {x}")], v, "listZ"
            if name == "isinstance" and len(e.args) == 2 and isinstance(e.args[1], ast.Name) and e.args[1].id in TYPE_CLASSES:
                b, x = self.coerce(self.expr(e.args[0]), "sty")
                return b, f"(is_{e.args[1].id} {x})", "bool"
            if name == "sorted" and len(e.args) == 1 and len(e.keywords) == 1 and e.keywords[0].arg == "key":
                k = e.keywords[0].value
                if (isinstance(k, ast.Lambda) and len(k.args.args) == 1 and isinstance(k.body, ast.Attribute) and isinstance(k.body.value, ast.Name)
                        and k.body.value.id == k.args.args[0].arg and k.body.attr == "field_id"):
                    b, x = self.coerce(self.expr(e.args[0]), "sfields")
                    return b, f"(sort_by fid {x})", "sfields"       # sorted() is stable, as Schema.Types.sort_by
                raise Untranslatable(ast.unparse(e))
            if name in self.sigs:
                ptypes, rt = self.sigs[name]
                binds, terms = self.args_for(e.args, ptypes)
                fuel = "fuel " if name in self.fuel_fns else ""
                t = self.fresh()
                if ptypes and ptypes[0] == "pybuf":
                    if not isinstance(e.args[0], ast.Name):
                        raise Untranslatable("buffer argument is not a variable")
                    bv = ident(e.args[0].id)
                    return binds + [(f"'({bv}, {t})", f"py_{name} {fuel}" + " ".join(terms))], t, rt
                return binds + [(t, f"py_{name} {fuel}" + " ".join(terms))], t, rt
            raise Untranslatable(ast.unparse(e))
        if isinstance(f, ast.Attribute):
            # chains on the schema: fcp.get_struct(n).unwrap(), fcp.get_enum(n).unwrap()[.get_packed_size()]
            if f.attr == "unwrap" and not e.args and isinstance(f.value, ast.Call) and isinstance(f.value.func, ast.Attribute) \
                    and f.value.func.attr in ("get_struct", "get_enum") and len(f.value.args) == 1:
                bs, s = self.coerce(self.expr(f.value.func.value), "schema")
                bn, n = self.coerce(self.expr(f.value.args[0]), "string")
                t = self.fresh()
                kind = f.value.func.attr
                return bs + bn + [(t, f"py_{kind} {s} {n}")], t, ("sstruct" if kind == "get_struct" else "senum")
            if f.attr == "get_packed_size" and not e.args:
                b, x = self.coerce(self.expr(f.value), "senum")
                return b, f"(enum_packed_size {x})", "Z"
            if f.attr == "decode" and len(e.args) == 1 and isinstance(e.args[0], ast.Constant) and e.args[0].value == "ascii":
                b, x = self.coerce(self.expr(f.value), "listZ")
                t = self.fresh()
                return b + [(t, f"py_decode_ascii {x}")], t, "pyval"
            if isinstance(f.value, ast.Name) and self.env.get(f.value.id) == "pybuf" and f.attr in self.methods:
                ptypes, rt = self.methods[f.attr]
                binds, terms = self.args_for(e.args, ptypes[1:])
                bv = ident(f.value.id)
                t = self.fresh()
                return binds + [(f"'({bv}, {t})", f"py_{f.attr} {bv} " + " ".join(terms))], t, rt
        raise Untranslatable(ast.unparse(e))

    # ------------------------------------------------------------------ statements (continuation style)
    @staticmethod
    def wrap(binds, term):
        for pat, m in reversed(binds):
            term = f"pbind ({m}) (fun {pat} => {term})"
        return term

    def assigned(self, body):
        out = []
        for node in ast.walk(ast.Module(body=body, type_ignores=[])):
            name = None
            if isinstance(node, ast.Assign) and len(node.targets) == 1:
                tg = node.targets[0]
                if isinstance(tg, ast.Name):
                    name = tg.id
                elif isinstance(tg, ast.Subscript) and isinstance(tg.value, ast.Name):
                    name = tg.value.id
            elif isinstance(node, ast.Call) and isinstance(node.func, ast.Attribute) and node.func.attr == "append" and isinstance(node.func.value, ast.Name):
                name = node.func.value.id
            if name and name not in out:
                out.append(name)
        return out

    def state_vars(self, body):
        """Variables a block may change and that exist before it: the buffer (if any is in scope) and the assigned locals."""
        names = [n for n in self.env if self.env[n] == "pybuf"]
        for n in self.assigned(body):
            if n in self.env and n not in names:
                names.append(n)
        return names

    @staticmethod
    def tuple_of(names):
        names = [ident(n) for n in names]
        if not names:
            return "tt", "_"
        if len(names) == 1:
            return names[0], names[0]
        return "(" + ", ".join(names) + ")", "'(" + ", ".join(names) + ")"

    def final(self):
        """Falling off the end of the function: return None."""
        if self.ret != "unit":
            raise Untranslatable(f"{self.fn.name}: a path returns nothing")
        return self.result("tt")

    def result(self, term):
        return f"POk ({ident(self.bufparam)}, {term})" if self.bufparam else f"POk {term}"

    def block(self, body, k):
        """k: Gallina for what follows the block (None = nothing follows: the block must exit or fall off the function)."""
        if not body:
            return k if k is not None else self.final()
        st, rest = body[0], body[1:]
        return self.stmt(st, lambda: self.block(rest, k), last=(not rest and k is None))

    def stmt(self, st, cont, last):
        if isinstance(st, ast.Expr) and isinstance(st.value, ast.Constant) and isinstance(st.value.value, str):
            return cont()
        if isinstance(st, ast.Return):
            if st.value is None:
                return self.final()
            b, t = self.coerce(self.expr(st.value), self.ret)
            return self.wrap(b, self.result(t))
        if isinstance(st, ast.Raise):
            x = st.exc
            if isinstance(x, ast.Call) and isinstance(x.func, ast.Name) and x.func.id in EXCEPTIONS:
                return f"PRaise {EXCEPTIONS[x.func.id]}"
            raise Untranslatable(ast.unparse(st))
        if isinstance(st, ast.Assign) and len(st.targets) == 1:
            tg = st.targets[0]
            if isinstance(tg, ast.Name):
                v = st.value
                if isinstance(v, ast.List) and not v.elts:
                    b, t, ty = [], "(@nil pyval)", "plist"
                elif isinstance(v, ast.Dict) and not v.keys:
                    b, t, ty = [], "(@nil (string * pyval))", "pdict"
                else:
                    b, t, ty = self.expr(v)
                if tg.id in self.env and self.env[tg.id] != ty:
                    raise Untranslatable(f"{tg.id} changes its type from {self.env[tg.id]} to {ty}")
                self.env[tg.id] = ty
                return self.wrap(b, f"let {ident(tg.id)} := {t} in {cont()}")
            if isinstance(tg, ast.Subscript) and isinstance(tg.value, ast.Name) and self.env.get(tg.value.id) == "pdict":
                bk, k = self.coerce(self.expr(tg.slice), "string")
                bv, v = self.coerce(self.expr(st.value), "pyval")
                d = ident(tg.value.id)
                # Python evaluates the value first, then the target's key
                return self.wrap(bv + bk, f"let {d} := dict_set {d} {k} {v} in {cont()}")
            if isinstance(tg, ast.Attribute) and isinstance(tg.value, ast.Name) and self.env.get(tg.value.id) == "pybuf" and tg.attr == "bitaddr":
                b, v = self.coerce(self.expr(st.value), "Z")
                o = ident(tg.value.id)
                return self.wrap(b, f"let {o} := set_bitaddr {o} {v} in {cont()}")
            raise Untranslatable(ast.unparse(st))
        if isinstance(st, ast.Expr) and isinstance(st.value, ast.Call):
            c = st.value
            if isinstance(c.func, ast.Attribute) and c.func.attr == "append" and isinstance(c.func.value, ast.Name) \
                    and self.env.get(c.func.value.id) == "plist" and len(c.args) == 1:
                b, v = self.coerce(self.expr(c.args[0]), "pyval")
                d = ident(c.func.value.id)
                return self.wrap(b, f"let {d} := ({d} ++ [{v}])%list in {cont()}")
            b, _, _ = self.expr(c)
            return self.wrap(b, cont())
        if isinstance(st, ast.If):
            b, c, tc = self.expr(st.test)
            if tc != "bool":
                raise Untranslatable("condition is not a bool: " + ast.unparse(st.test))
            if st.orelse and ends_in_exit(st.body) and ends_in_exit(st.orelse):
                return self.wrap(b, f"if {c} then {self.branch(st.body)} else {self.branch(st.orelse)}")
            if ends_in_exit(st.body) and not st.orelse:
                # if c: <exit>   followed by the rest
                return self.wrap(b, f"if {c} then {self.branch(st.body)} else {cont()}")
            if ends_in_exit(st.body):
                # if c: <exit>  else/elif: <falls through>   followed by the rest: the rest follows the else part
                yes = self.branch(st.body)
                env0 = dict(self.env)
                rest = cont()
                self.env = env0
                return self.wrap(b, f"if {c} then {yes} else {self.block(st.orelse, rest)}")
            # general: both branches fall through (a branch that raises has any type); the state they may change is passed on
            names = self.state_vars(st.body + st.orelse)
            tup, pat = self.tuple_of(names)
            env0 = dict(self.env)
            yes = self.block_state(st.body, tup)
            self.env = dict(env0)
            no = self.block_state(st.orelse, tup)
            self.env = env0
            return self.wrap(b, f"pbind (if {c} then {yes} else {no}) (fun {pat} => {cont()})")
        if isinstance(st, ast.For):
            if st.orelse or not isinstance(st.target, ast.Name):
                raise Untranslatable(ast.unparse(st))
            for n in ast.walk(ast.Module(body=st.body, type_ignores=[])):
                if isinstance(n, (ast.Return, ast.Break, ast.Continue)):
                    raise Untranslatable("return/break/continue inside a loop")
            names = self.state_vars(st.body)
            tup, pat = self.tuple_of(names)
            x = ident(st.target.id)
            it = st.iter
            if isinstance(it, ast.Call) and isinstance(it.func, ast.Name) and it.func.id == "range" and len(it.args) == 1 and not it.keywords:
                b, n = self.coerce(self.expr(it.args[0]), "Z")
                self.env[st.target.id] = "Z"
                body = self.block_state(st.body, tup)
                return self.wrap(b, f"pbind (for_range {n} (fun {x} {pat} => {body}) {tup}) (fun {pat} => {cont()})")
            b, l, t = self.expr(it)
            if t == "sfields":
                self.env[st.target.id] = "sfield"
            elif t == "pyval":
                v = self.fresh()
                b, l = b + [(v, f"py_iter {l}")], v
                self.env[st.target.id] = "pyval"
            else:
                raise Untranslatable("iteration over a " + t)
            body = self.block_state(st.body, tup)
            return self.wrap(b, f"pbind (for_each {l} (fun {x} {pat} => {body}) {tup}) (fun {pat} => {cont()})")
        raise Untranslatable(ast.unparse(st))

    def branch(self, body):
        env0 = dict(self.env)
        out = self.block(body, None)
        self.env = env0
        return out

    def block_state(self, body, tup):
        """A block that falls through, yielding the tuple of state variables."""
        if ends_in_exit(body) and body and isinstance(body[-1], ast.Raise) and len(body) == 1:
            return self.stmt(body[0], None, True)
        for n in ast.walk(ast.Module(body=body, type_ignores=[])):
            if isinstance(n, ast.Return):
                raise Untranslatable("return inside a block that must fall through")
        return self.block(body, f"POk {tup}")

    def translate(self):
        fn = self.fn
        if fn.args.vararg or fn.args.kwarg or fn.args.kwonlyargs or fn.args.defaults or fn.decorator_list:
            raise Untranslatable(f"signature of {fn.name}")
        params = " ".join(f"({ident(a.arg)} : {COQ_TYPE[self.env[a.arg]]})" for a in fn.args.args)
        rt = COQ_TYPE[self.ret]
        rt = f"pyres (pybuf * {rt})" if self.bufparam else f"pyres {rt}"
        body = self.block(fn.body, None)
        return params, rt, body


def call_graph(fns):
    names = set(fns)
    return {n: {c.func.id for c in ast.walk(f) if isinstance(c, ast.Call) and isinstance(c.func, ast.Name) and c.func.id in names}
            for n, f in fns.items()}


def translate_dispatch(source):
    tree = ast.parse(source)
    _, mfns = buffer_class(tree)
    methods = {f.name: method_signature(f) for f in mfns}
    top = {n.name: n for n in tree.body if isinstance(n, ast.FunctionDef)}
    for n in tree.body:
        if not isinstance(n, (ast.FunctionDef, ast.ClassDef, ast.Import, ast.ImportFrom)) and not (isinstance(n, ast.Expr) and isinstance(n.value, ast.Constant)):
            raise Untranslatable("module-level statement: " + ast.unparse(n)[:60])
    classes = [n.name for n in tree.body if isinstance(n, ast.ClassDef)]
    if classes != ["_Buffer"]:
        raise Untranslatable(f"classes {classes}")
    sigs = {}
    for name in LEAVES:
        if name not in top:
            raise Untranslatable(f"{name} not found")
        sigs[name] = leaf_signature(top[name])
    rest = {n: f for n, f in top.items() if n not in LEAVES}          # EVERY other function of the module is translated
    for n, f in rest.items():
        sigs[n] = ([param_type(a.annotation) for a in f.args.args], return_type(f.returns))
    graph = call_graph(rest)

    def reach(n):
        seen, todo = set(), [n]
        while todo:
            for m in graph[todo.pop()]:
                if m not in seen:
                    seen.add(m)
                    todo.append(m)
        return seen
    reaches = {n: reach(n) for n in rest}
    recursive = {n for n in rest if n in reaches[n]}
    fuel_fns = {n for n in rest if n in recursive or reaches[n] & recursive}
    # strongly connected groups of recursive functions, in source order
    groups, placed = [], set()
    for n in rest:
        if n in recursive and n not in placed:
            g = [m for m in rest if m in recursive and m in reaches[n] and n in reaches[m]]
            groups.append(g)
            placed |= set(g)
    out = ["(* GENERATED by harness/py2coq_typed.py from the dispatch layer of /repo/src/fcp/serde.py on every run; do not edit. *)",
           "From Coq Require Import String ZArith List Bool.",
           "From FcpV Require Import Schema.Types Py.BufferLib Py.DispatchLib gen.PyBuffer gen.PyLeaf.",
           "Import ListNotations.", "Open Scope Z_scope.", ""]
    emitted = set()

    def emit_plain(n):
        tf = TypedFunction(rest[n], sigs, methods, fuel_fns, False)
        params, rt, body = tf.translate()
        fuel = "(fuel : nat) " if n in fuel_fns else ""
        out.append(f"Definition py_{n} {fuel}{params} : {rt} :=\n  {body}.\n")
        emitted.add(n)

    def emit_group(g):
        parts = []
        for n in g:
            tf = TypedFunction(rest[n], sigs, methods, fuel_fns, True)
            params, rt, body = tf.translate()
            parts.append(f"py_{n} (fuel0 : nat) {params} {{struct fuel0}} : {rt} :=\n  match fuel0 with O => PRaise PyRecursionError | S fuel =>\n  {body}\n  end")
        out.append("Fixpoint " + "\nwith ".join(parts) + ".\n")
        emitted.update(g)

    pending = list(rest)
    while pending:
        progress = False
        for n in list(pending):
            if n in emitted:
                pending.remove(n)
                continue
            g = next((g for g in groups if n in g), None)
            members = set(g) if g else {n}
            deps = set().union(*(graph[m] for m in members)) - members
            if deps <= emitted:
                emit_group(g) if g else emit_plain(n)
                pending = [p for p in pending if p not in emitted]
                progress = True
                break
        if not progress:
            raise Untranslatable("cannot order functions: " + ", ".join(pending))
    return "\n".join(out)


if __name__ == "__main__":
    import sys
    print(translate_dispatch(open(sys.argv[1]).read()))
