"""Translator for src/fcp/codegen.py -> Gallina (coq/gen/PyCodegen.v): GeneratorManager.generate, CodeGenerator.gen, handle_result,
_handle_file, _handle_print.  Fail-closed: a statement outside the subset raises Untranslatable.

The translation is a program in the state-and-exception monad of Codegen/CodegenLib.v (state = the output directory, exceptions =
the attempt errors and everything else), statement by statement in source order:

  GeneratorManager.generate (exactly @catch-decorated)
      generator = self._get_generator(generator_name).Generator()     binds `generator` to the plug-in
      generator.register_checks(self.verifier)                         from here on the verifier holds the plug-in's checks too
      self.verifier.verify(fcp).attempt()                              verify_comp <checks registered so far> fcp, then attempt
      templates = self._get_templates(template_dir)                    pure (directories are only read)
      skels = self._get_skels(skel_dir)                                pure
      generator.gen(fcp, templates, skels, output_path)                py_gen
      return Ok(())
  CodeGenerator.gen
      self.output_path = pathlib.Path(output_path); ctx = {...}        pure
      for result in self.generate(fcp, ctx): handle_result(result)     plugin_generate, then a loop
  handle_result            if/elif/else on result.get("type") == "<literal>", calls of _handle_file / _handle_print, logging.* (no-op)
  _handle_file             path = Path(result.get("path")); logging.*; path.parent.mkdir(exist_ok=True) (no-op in the flat directory
                           model); path.write_text(str(result.get("contents")))  = the file holds exactly these contents afterwards
  _handle_print            print(result.get("contents"))              no effect on the directory
"""
import ast
import os

from py2coq import Untranslatable
from py2coq_driver import strip_doc, find_class, find_def, decorators, cstr


def is_logging(st):
    return isinstance(st, ast.Expr) and isinstance(st.value, ast.Call) and ast.unparse(st.value.func).startswith("logging.")


def translate_handle_file(fn):
    args = [a.arg for a in fn.args.args]
    if len(args) != 1 or fn.decorator_list:
        raise Untranslatable("_handle_file")
    r = args[0]
    body = [s for s in strip_doc(fn.body) if not is_logging(s)]
    want_path = f"Path({r}.get('path'))"
    if len(body) != 3:
        raise Untranslatable("_handle_file: statements")
    a, b, c = body
    tgt = a.target if isinstance(a, ast.AnnAssign) else (a.targets[0] if isinstance(a, ast.Assign) and len(a.targets) == 1 else None)
    if not (isinstance(tgt, ast.Name) and ast.unparse(a.value) == want_path):
        raise Untranslatable(f"_handle_file: {ast.unparse(a)}")
    p = tgt.id
    if not (isinstance(b, ast.Expr) and ast.unparse(b.value) == f"{p}.parent.mkdir(exist_ok=True)"):
        raise Untranslatable(f"_handle_file: {ast.unparse(b)}")
    if not (isinstance(c, ast.Expr) and ast.unparse(c.value) == f"{p}.write_text(str({r}.get('contents')))"):
        raise Untranslatable(f"_handle_file: {ast.unparse(c)}")
    return (f"Definition py_handle_file ({r} : gres) : st unit :=\n"
            f"  let {p} := g_path {r} in\n"
            f"  sbind (mkdir_parent {p}) (fun _ => write_text {p} (g_contents {r})).\n")


def translate_handle_print(fn):
    args = [a.arg for a in fn.args.args]
    body = strip_doc(fn.body)
    if len(args) != 1 or len(body) != 1 or ast.unparse(body[0]) != f"print({args[0]}.get('contents'))":
        raise Untranslatable("_handle_print")
    return f"Definition py_handle_print ({args[0]} : gres) : st unit :=\n  py_print (g_contents {args[0]}).\n"


def translate_handle_result(fn):
    args = [a.arg for a in fn.args.args]
    body = strip_doc(fn.body)
    if len(args) != 1 or len(body) != 1 or not isinstance(body[0], ast.If) or fn.decorator_list:
        raise Untranslatable("handle_result")
    r = args[0]

    def branch(stmts):
        stmts = [s for s in stmts if not is_logging(s)]
        if not stmts:
            return "sret tt"
        if len(stmts) == 1 and isinstance(stmts[0], ast.Expr) and isinstance(stmts[0].value, ast.Call) and isinstance(stmts[0].value.func, ast.Name) \
                and stmts[0].value.func.id in ("_handle_file", "_handle_print") and ast.unparse(stmts[0].value.args[0]) == r and len(stmts[0].value.args) == 1:
            return f"py{stmts[0].value.func.id} {r}"
        raise Untranslatable(f"handle_result: {[ast.unparse(s) for s in stmts]}")

    def chain(st):
        t = st.test
        if not (isinstance(t, ast.Compare) and len(t.ops) == 1 and isinstance(t.ops[0], ast.Eq) and ast.unparse(t.left) == f"{r}.get('type')"
                and isinstance(t.comparators[0], ast.Constant) and isinstance(t.comparators[0].value, str)):
            raise Untranslatable(f"handle_result: test {ast.unparse(t)}")
        then = branch(st.body)
        if len(st.orelse) == 1 and isinstance(st.orelse[0], ast.If):
            other = chain(st.orelse[0])
        else:
            other = branch(st.orelse)
        return f"if String.eqb (g_type {r}) {cstr(t.comparators[0].value)} then {then}\n  else {other}"

    return f"Definition py_handle_result ({r} : gres) : st unit :=\n  {chain(body[0])}.\n"


def translate_gen(fn):
    args = [a.arg for a in fn.args.args]
    if len(args) != 5 or args[0] != "self" or fn.decorator_list:
        raise Untranslatable("signature of CodeGenerator.gen")
    _, fcp, templates, skels, output_path = args
    body = strip_doc(fn.body)
    if len(body) != 3:
        raise Untranslatable("CodeGenerator.gen: statements")
    a, b, c = body
    if ast.unparse(a) != f"self.output_path = pathlib.Path({output_path})":
        raise Untranslatable(f"gen: {ast.unparse(a)}")
    if not (isinstance(b, ast.Assign) and len(b.targets) == 1 and isinstance(b.targets[0], ast.Name) and isinstance(b.value, ast.Dict)
            and [ast.unparse(k) for k in b.value.keys] == ["'templates'", "'skels'", "'output'"]
            and [ast.unparse(v) for v in b.value.values] == [templates, skels, "self.output_path"]):
        raise Untranslatable(f"gen: {ast.unparse(b)}")
    ctx = b.targets[0].id
    if not (isinstance(c, ast.For) and not c.orelse and isinstance(c.target, ast.Name) and ast.unparse(c.iter) == f"self.generate({fcp}, {ctx})"
            and len(c.body) == 1 and ast.unparse(c.body[0]) == f"handle_result({c.target.id})"):
        raise Untranslatable(f"gen: {ast.unparse(c)}")
    x = c.target.id
    return (f"Definition py_gen (self : plugin) (out : plugin_out) : st unit :=\n"
            f"  sbind (plugin_generate self out) (fun results => sfor results (fun {x} => py_handle_result {x})).\n")


def translate_generate(fn):
    if decorators(fn) != ["catch"]:
        raise Untranslatable("decorators of GeneratorManager.generate")
    args = [a.arg for a in fn.args.args]
    if len(args) != 6 or args[0] != "self":
        raise Untranslatable("signature of GeneratorManager.generate")
    _, gname, tdir, sdir, fcp, outp = args
    body = strip_doc(fn.body)
    env = {}            # python name -> what it holds: "generator" | "pure"

    def block(stmts):
        if not stmts:
            raise Untranslatable("generate falls off its end")
        st, rest = stmts[0], stmts[1:]
        src = ast.unparse(st)
        if isinstance(st, ast.Return):
            if rest or ast.unparse(st.value) != "Ok(())":
                raise Untranslatable(f"generate: {src}")
            return "sret (ROk tt)"
        if isinstance(st, ast.Assign) and len(st.targets) == 1 and isinstance(st.targets[0], ast.Name):
            n, v = st.targets[0].id, ast.unparse(st.value)
            if v == f"self._get_generator({gname}).Generator()":
                env[n] = "generator"
                return block(rest)
            if v in (f"self._get_templates({tdir})", f"self._get_skels({sdir})"):
                env[n] = "templates" if "templates" in v else "skels"
                return block(rest)
        if isinstance(st, ast.Expr) and isinstance(st.value, ast.Call):
            c = st.value
            if isinstance(c.func, ast.Attribute) and c.func.attr == "register_checks" and isinstance(c.func.value, ast.Name) \
                    and env.get(c.func.value.id) == "generator" and [ast.unparse(a) for a in c.args] == ["self.verifier"]:
                return f"let registered := pl in\n    {block(rest)}"
            if src == f"self.verifier.verify({fcp}).attempt()":
                return f"sbind (lift (cbind (verify_comp registered {fcp}) attempt)) (fun _ =>\n    {block(rest)})"
            if isinstance(c.func, ast.Attribute) and c.func.attr == "gen" and isinstance(c.func.value, ast.Name) and env.get(c.func.value.id) == "generator" \
                    and len(c.args) == 4 and ast.unparse(c.args[0]) == fcp and [env.get(ast.unparse(a)) for a in c.args[1:3]] == ["templates", "skels"] \
                    and ast.unparse(c.args[3]) == outp:
                return f"sbind (py_gen pl out) (fun _ =>\n    {block(rest)})"
        raise Untranslatable(f"generate: {src}")

    return (f"Definition py_manager_generate (pl : plugin) ({fcp} : ftree) (out : plugin_out) : st (result unit) :=\n"
            f"  catch_st (\n    let registered := NoPlugin in\n    {block(body)}).\n")


def translate_repo(repo):
    src = open(os.path.join(repo, "src", "fcp", "codegen.py")).read()
    tree = ast.parse(src)
    out = ["(* GENERATED by harness/py2coq_codegen.py from src/fcp/codegen.py on every run; do not edit. *)",
           "From Coq Require Import String ZArith List Bool.",
           "From FcpV Require Import Schema.Types Layout.Packed Verifier.Checks Codegen.Pipeline Codegen.CodegenLib.",
           "Import ListNotations.", "",
           translate_handle_file(find_def(tree.body, "_handle_file")),
           translate_handle_print(find_def(tree.body, "_handle_print")),
           translate_handle_result(find_def(tree.body, "handle_result")),
           translate_gen(find_def(find_class(tree, "CodeGenerator").body, "gen")),
           translate_generate(find_def(find_class(tree, "GeneratorManager").body, "generate"))]
    return "\n".join(out)


if __name__ == "__main__":
    import sys
    print(translate_repo(sys.argv[1]))
