"""Writes MANIFEST.json from the table below (kept in one place so it stays valid)."""
import json, os
V = os.path.dirname(os.path.dirname(os.path.abspath(__file__)))
props = [json.loads(l) for l in open(os.path.join(V, "properties.jsonl"))]
CLAIMED = {
 "C04": dict(
   text="Coq proof over the model of PackedEncoder (resolved layout trees, emission as a state machine with explicit reset) that every successful generate() yields pieces that start at bit 0 and tile the message without gaps or overlaps (layout_tiles, layout_inside), each piece carrying exactly the options of the signal block named like its own field and its declared byte order, and that the result of a call does not depend on the encoder's history (generate_history_independent, for all call sequences). The width clause is stated in full (layout_widths_statement) and refuted for enums whose packed size is not a power of two (known finding enum-width). Tie: histories of generate() calls on one real encoder, both unroll settings, compared piece by piece in Coq.",
   note="Trusted: Coq kernel+vm_compute; name resolution is the model's; float log2 exact below 2^48; option values other than ints/7-bit strings abstracted.",
   technique="Coq proof (induction over layout trees, step invariants) + history correspondence evaluated in Coq", ref="§5 C04"),
 "C15": dict(
   text="Coq proof that a stable sort by field id is invariant under any permutation of a list with distinct ids (sort_by_perm, via sortedness + permutation + key injectivity) and hence that resolution, the Python codec and the packed layout are identical for a schema and any declaration-permuted twin (resolve/py/layout_perm_invariant). Tie: twins run through the real Python codec, the real encoder, the DBC generator and the C generator; outputs must be identical and agree with the model.",
   note="Trusted: as C01/C04; the C++ codecs are compared on twins in C03; DBC text and C sources compared verbatim on the implementation side.",
   technique="Coq proof (permutation invariance of stable sort with distinct keys) + twin correspondence", ref="§5 C15"),
 "C01": dict(
   text="Coq proof, by induction over type trees (rty_ind2) with an arbitrary trailing bit string (= arbitrary cursor/alignment), that the model of the Python decoder inverts the model of the encoder for every schema, struct and in-range value whose signed leaves are not the minimum (py_roundtrip_partial), together with the exact characterisation of decode(encode v) for EVERY in-range value (py_roundtrip_characterised: signed minima come back as +2^(n-1)) and the refutation of the full statement by a witness (known finding signed-min). The model is tied to src/fcp/serde.py on every run: generated schemas go through the real parser, encode and decode run on the real codec and Coq compares both with the model.",
   note="Trusted: Coq kernel+vm_compute; _Buffer abstracted to the bit string written so far; struct.pack/unpack = identity on IEEE bit patterns; type-directed value embedding (harness/to_coq.py) and dict canonicalisation (Corr.Serde.canon); name resolution is the model's.",
   technique="Coq proof (structural induction over type trees, generic decoder + normalisation) + model-vs-code correspondence evaluated in Coq", ref="§5 C01"),
 "C02": dict(
   text="Coq: the Python encoder model is definitionally the canonical format Wire.wire packed into bytes (py_encode_is_wire); the Python decoder recovers the value from any canonical encoding (py_decode_of_wire_partial / _characterised); the specification itself is injective and inverted by its own decoder (unwire_wire, wire_injective); and Wire.v is re-checked against the project's cross-language vectors regenerated from tests/standardized on every run (std_vectors_are_canonical). Tie: real encode compared with the model and with an independent reference, real decode run on canonical bytes.",
   note="Trusted: as C01; the canonical format is what Wire.v says, anchored to tests/standardized (fail-closed translator harness/regen.py) and to the generated C++ in C03.",
   technique="Coq proof (codec = specification, specification injective) + regenerated test vectors checked by vm_compute + correspondence", ref="§5 C02"),
 "C16": dict(
   text="Coq proof that decoding any strict byte prefix of the encoding of any in-range value of any schema raises the overrun error (decode_prefix_fails; bit-level form at any type and cursor: decode_bit_prefix_fails), by the same induction as C01. Tie: every byte-boundary truncation of generated encodings, announced lengths up to 2^32-1 and single-byte corruptions are decoded by the real code and the outcomes compared in Coq; elapsed time per decode is observed.",
   note="Trusted: as C01; elapsed time is runtime behaviour (observed < 2 s per decode, not proved); element types have positive width (array sizes and integer widths >= 1).",
   technique="Coq proof (prefix lemma by induction over type trees) + truncation/corruption correspondence evaluated in Coq", ref="§5 C16"),
 "C19": dict(
   text="Machine-checked proof (Coq) that the model of the generated scheduler (uint32 wrap-around arithmetic, static last_call/last_send, template guard order) equals the ideal 'send iff timestamp differs and >= P elapsed' automaton over unbounded time for every device and every call history (induction over the history, simulation invariant), plus send-iff / minimum-distance / no-period / current-value theorems; the model is tied to the generated C on every run by compiling devices with gcc and having Coq compare model and C on generated histories (incl. wrap-around).",
   note="Trusted: Coq kernel+vm_compute; gcc and the C abstract machine as modelled (uint32 subtraction, int->unsigned comparison); can_encode_msg_i observed, not modelled; histories obey the gap hypothesis (gap < 2^32 - max period); periods in {-1} U [0,2^31).",
   technique="Coq proof (simulation/refinement by induction over histories) + model-vs-compiled-C correspondence evaluated in Coq", ref="§5 C19"),
}
REASON_PENDING = "machinery for this property is not built yet in this session; see DESIGN.md §5 for the planned Coq model and theorems"
m = {
 "version": 1,
 "setup_cmd": "./check --setup",
 "hooks": {"guard": "FCP_CORE_VERIF", "enable": "no source hook is needed: every observation point is a public API; checks import /repo/src and /repo/plugins/* directly",
           "baseline_off_cmd": "cd /repo && /venv/bin/python -m pytest -ra -q -p no:cacheprovider --timeout=900 --continue-on-collection-errors",
           "source_commits": [], "add_only": True},
 "engines": [{"name": "coq-model", "path": "coq/", "serves_properties": sorted(CLAIMED), "kind_free_text": "Gallina models + theorems (Coq 8.16.1), correspondence cases evaluated by vm_compute"},
             {"name": "harness", "path": "harness/", "serves_properties": sorted(CLAIMED), "kind_free_text": "Python driver: generators, real-code runners, case printer, evidence"}],
 "checks": [], "not_applicable": [],
 "notes": "All checks: ./check <id> [--tier quick|thorough]; VERIF_SEED seeds the single PRNG. Known findings: known_findings.json.",
}
for p in props:
    i = p["id"]
    if i in CLAIMED:
        c = CLAIMED[i]
        m["checks"].append({"property_id": i, "quick_cmd": f"./check {i} --tier quick", "thorough_cmd": f"./check {i} --tier thorough",
          "evidence_file": f"/verif/evidence/{i}.json", "replay_cmd_template": f"./check {i} --replay {{path}}", "engine": "coq-model",
          "level_claimed": {"category": "proof", "text": c["text"], "design_ref": c["ref"]}, "level_note": c["note"], "technique": c["technique"]})
    else:
        m["not_applicable"].append({"property_id": i, "reason": REASON_PENDING})
json.dump(m, open(os.path.join(V, "MANIFEST.json"), "w"), indent=1)
print("claimed", sorted(CLAIMED))
