"""Writes MANIFEST.json from the table below (kept in one place so it stays valid)."""
import json, os
V = os.path.dirname(os.path.dirname(os.path.abspath(__file__)))
props = [json.loads(l) for l in open(os.path.join(V, "properties.jsonl"))]
CLAIMED = {
 "C12": dict(
   text="Coq: the reflection() methods are modelled as a function from the schema tree to a value of the built-in reflection schema; reflection_faithful proves that the whole tree - every struct, field (name, id, flattened type chain, unit, range, position), enumerator, binding with extension fields and signal blocks, service and method - can be read back exactly from the record (hence reflection is injective), and reflection_roundtrip is the C01 theorem instantiated at the reflection schema, which is regenerated from reflection.fcp by the real parser on every run and must equal the modelled one by reflexivity. Tie: fcp.reflection() of generated schemas with every node kind, its encoding and the decoded record are compared in Coq with the model, and each record is checked to be in range of the regenerated schema.",
   note="Trusted: as C01; str() of extension values is Python's; the in-range condition (ids < 2^32, enum values and positions in i32) is checked per case, not proved for all trees: enumerator values outside i32 are the known finding enum-value-i32.",
   technique="Coq proof (left inverse of the reflection function; C01 instance at the regenerated schema) + record/bytes correspondence", ref="§5 C12"),
 "C05": dict(
   text="Coq proof over the model of dbc_writer (_make_signals, write_dbc) that whenever generation succeeds every message of every bus file is the description of one CAN binding on that bus - id, name, ceil(bits/8) bytes, one signal per layout leaf with the leaf's position (+7 for Motorola), width, signedness, float marking, byte order, unit and multiplexing (dbc_describes_layout) - that every CAN binding appears in the file of its bus (dbc_bus_partition), that a frame packed per the layout decodes through the Intel reading of each leaf's signal to the packed value for every layout and every value list (dbc_decodes_packed_le, using the tiling theorem of C04), and that the Motorola start bit of a byte-aligned whole-byte signal selects exactly its bytes MSB first (finite domain, evaluated). Tie: generated DBC text is read back by an own reader and by cantools, compared in Coq with the model; frames packed by a reference packer are decoded by cantools and compared in Coq with the DBC semantics model (Intel, Motorola, two's complement).",
   note="Trusted: Coq kernel+vm_compute; cantools' text rendering is read back, not modelled; big-endian only on byte-aligned whole-byte leaves, one-multiplexer multiplexing; float/multiplexed frames not decoded.",
   technique="Coq proof (soundness/completeness of the message list, bit-level extraction over a tiling) + DBC text and frame correspondence", ref="§5 C05"),
 "C14": dict(
   text="Coq proof that every message of every successfully generated DBC has at most 8 bytes and that its signals are the leaves of a layout lying inside 8*dlc <= 64 bits and pairwise disjoint (dbc_ok_implies_fits, from the tiling and non-negativity theorems), that a CAN binding over 64 bits or without static layout (string / dynamic array / optional anywhere) makes DBC generation fail as a whole (dbc_rejects_oversize, dbc_rejects_variable), and that the C command returns an error or raises and writes nothing unless every binding's size is computable and <= 64 (c_command_rejects_oversize, composing the verifier and pipeline models). Tie: structs of 57..200 bits with the excess / the variable-size field anywhere are run through the real DBC generator and the real can_c command; outcomes compared in Coq; emitted DBC and C signal tables scanned for overlap/overflow.",
   note="Trusted: as C04/C05/C09/C10; the C size rule equals the packed size on flat numeric structs by correspondence only.",
   technique="Coq proof (fits/disjointness from tiling; rejection lemmas; pipeline composition) + around-the-limit correspondence", ref="§5 C14"),
 "C10": dict(
   text="Coq proof about the model of GeneratorManager.generate (the Result/attempt/@catch exception algebra made explicit, the verdict supplied by the verifier model of C09, an abstract output directory): a schema rejected by any check returns that check's error and leaves the directory exactly as it was, a raising check lets the exception escape with the directory untouched, an accepted schema writes exactly the returned files with the returned contents (after the C plug-in's removal of stale *.h/*.c), other names keep their content, and Ok is returned only if verification succeeded. Tie: the real GeneratorManager is run for dbc, can_c, cpp and nop on pre-populated directories with faults injected into parsed trees (every check, any position); result and directory before/after are compared in Coq with the model.",
   note="Trusted: Coq kernel+vm_compute; file system modelled as a finite map that never fails; plug-in discovery not modelled; plug-in output captured by wrapping Generator.generate in the harness.",
   technique="Coq proof (exception-algebra model of the pipeline composed with the verifier model) + before/after directory correspondence", ref="§5 C10"),
 "C09": dict(
   text="Coq proof that the model of Verifier.verify (categories in order, checks in registration order, first failure wins; the count(x) > 1 idiom) answers Ok if and only if the well-formedness specification holds (NoDup of type names across structs and enums, of (binding name, protocol) pairs, of field names per struct, non-empty structs, NoDup enumerator names and values, device services exist), for all trees (general_verdict_iff); with the DBC checks additionally bindings resolve and CAN frame ids are pairwise distinct (dbc_verdict_iff); the C rule as the code computes it (c_verdict_iff_partial) with the refutation of the property's wording for unsizable fields (known finding c-size-raises); and invariance of the verdict under any permutation of every declaration list (verdict_perm_invariant, dbc_verdict_perm_invariant). Tie: the registered checks are regenerated by introspection on every run and must equal the modelled ones by reflexivity; verdicts of the real verifier on directly built trees (random, exhaustive small scope in the thorough tier) x plug-in sets are compared in Coq.",
   note="Trusted: Coq kernel+vm_compute; trees built with the spec classes; verdict observed as Ok/Err/exception; CAN ids are ints.",
   technique="Coq proof (iff between executable checks and a Prop specification, permutation invariance) + regenerated check table + verdict correspondence", ref="§5 C09"),
 "C04": dict(
   text="Coq proof over the model of PackedEncoder (resolved layout trees, emission as a state machine with explicit reset) that every successful generate() yields pieces that start at bit 0 and tile the message without gaps or overlaps (layout_tiles, layout_inside), each piece carrying exactly the options of the signal block named like its own field and its declared byte order, and that the result of a call does not depend on the encoder's history (generate_history_independent, for all call sequences). The width clause is stated in full (layout_widths_statement) and refuted for enums whose packed size is not a power of two (known finding enum-width). Tie: histories of generate() calls on one real encoder, both unroll settings, compared piece by piece in Coq.",
   note="Trusted: Coq kernel+vm_compute; name resolution is the model's; float log2 exact below 2^48; option values other than ints/7-bit strings abstracted.",
   technique="Coq proof (induction over layout trees, step invariants) + history correspondence evaluated in Coq", ref="§5 C04"),
 "C15": dict(
   text="Coq proof that a stable sort by field id is invariant under any permutation of a list with distinct ids (sort_by_perm, via sortedness + permutation + key injectivity) and hence that resolution, the Python codec and the packed layout are identical for a schema and any declaration-permuted twin (resolve/py/layout_perm_invariant). Tie: twins run through the real Python codec, the real encoder, the DBC generator and the C generator; outputs must be identical and agree with the model.",
   note="Trusted: as C01/C04; the C++ codecs are compared on twins in C03; DBC text and C sources compared verbatim on the implementation side.",
   technique="Coq proof (permutation invariance of stable sort with distinct keys) + twin correspondence", ref="§5 C15"),
 "C01": dict(
   text="Coq proof, by induction over type trees (rty_ind2) with an arbitrary trailing bit string (= arbitrary cursor/alignment), that the model of the Python decoder inverts the model of the encoder for every schema, struct and in-range value whose signed leaves are not the minimum (py_roundtrip_partial), together with the exact characterisation of decode(encode v) for EVERY in-range value (py_roundtrip_characterised: signed minima come back as +2^(n-1)) and the refutation of the full statement by a witness (known finding signed-min). The model is tied to src/fcp/serde.py on every run: generated schemas go through the real parser, encode and decode run on the real codec and Coq compares both with the model.",
   note="Trusted: Coq kernel+vm_compute; _Buffer abstracted to the bit string written so far; struct.pack/unpack = identity on IEEE bit patterns; type-directed value embedding (harness/to_coq.py) and dict canonicalisation (Corr.Serde.canon); name resolution is the model's.",
   technique="Coq proof (structural induction over type trees, generic decoder + normalisation) + model-vs-code correspondence evaluated in Coq", ref="§5 C01"),
 "C02": dict(
   text="Coq: the Python encoder model is definitionally the canonical format Wire.wire packed into bytes (py_encode_is_wire); the Python decoder recovers the value from any canonical encoding (py_decode_of_wire_partial / _characterised); the specification itself is injective and inverted by its own decoder (unwire_wire, wire_injective); and Wire.v is re-checked against the project's cross-language vectors regenerated from tests/standardized on every run (std_vectors_are_canonical). Tie: real encode compared with the model and with an independent reference, real decode run on canonical bytes.",
   note="Trusted: as C01; the canonical format is what Wire.v says, anchored to tests/standardized (fail-closed translator harness/regen.py) and to the generated C++ in C03.",
   technique="Coq proof (codec = specification, specification injective) + regenerated test vectors checked by vm_compute + correspondence", ref="§5 C02"),
 "C16": dict(
   text="Coq proof that decoding any strict byte prefix of the encoding of any in-range value of any schema raises the overrun error (decode_prefix_fails; bit-level form at any type and cursor: decode_bit_prefix_fails), by the same induction as C01. Tie: every byte-boundary truncation of generated encodings, announced lengths up to 2^32-1 and single-byte corruptions are decoded by the real code and the outcomes compared in Coq; elapsed time per decode is observed.",
   note="Trusted: as C01; elapsed time is runtime behaviour (observed < 2 s per decode, not proved); element types have positive width (array sizes and integer widths >= 1).",
   technique="Coq proof (prefix lemma by induction over type trees) + truncation/corruption correspondence evaluated in Coq", ref="§5 C16"),
 "C19": dict(
   text="Machine-checked proof (Coq) that the model of the generated scheduler (uint32 wrap-around arithmetic, static last_call/last_send, template guard order) equals the ideal 'send iff timestamp differs and >= P elapsed' automaton over unbounded time for every device and every call history (induction over the history, simulation invariant), plus send-iff / minimum-distance / no-period / current-value theorems; the model is tied to the generated C on every run by compiling devices with gcc and having Coq compare model and C on generated histories (incl. wrap-around).",
   note="Trusted: Coq kernel+vm_compute; gcc and the C abstract machine as modelled (uint32 subtraction, int->unsigned comparison); can_encode_msg_i observed, not modelled; histories obey the gap hypothesis (gap < 2^32 - max period); periods in {-1} U [0,2^31).",
   technique="Coq proof (simulation/refinement by induction over histories) + model-vs-compiled-C correspondence evaluated in Coq", ref="§5 C19"),
}
REASON_PENDING = "machinery for this property is not built yet in this session; see DESIGN.md §5 for the planned Coq model and theorems"
m = {
 "version": 1,
 "setup_cmd": "./check --setup",
 "hooks": {"guard": "FCP_CORE_VERIF", "enable": "no source hook is needed: every observation point is a public API; checks import /repo/src and /repo/plugins/* directly",
           "baseline_off_cmd": "cd /repo && /venv/bin/python -m pytest -ra -q -p no:cacheprovider --timeout=900 --continue-on-collection-errors",
           "source_commits": [], "add_only": True},
 "engines": [{"name": "coq-model", "path": "coq/", "serves_properties": sorted(CLAIMED), "kind_free_text": "Gallina models + theorems (Coq 8.16.1), correspondence cases evaluated by vm_compute"},
             {"name": "harness", "path": "harness/", "serves_properties": sorted(CLAIMED), "kind_free_text": "Python driver: generators, real-code runners, case printer, evidence"}],
 "checks": [], "not_applicable": [],
 "notes": "All checks: ./check <id> [--tier quick|thorough]; VERIF_SEED seeds the single PRNG. Known findings: known_findings.json.",
}
for p in props:
    i = p["id"]
    if i in CLAIMED:
        c = CLAIMED[i]
        m["checks"].append({"property_id": i, "quick_cmd": f"./check {i} --tier quick", "thorough_cmd": f"./check {i} --tier thorough",
          "evidence_file": f"/verif/evidence/{i}.json", "replay_cmd_template": f"./check {i} --replay {{path}}", "engine": "coq-model",
          "level_claimed": {"category": "proof", "text": c["text"], "design_ref": c["ref"]}, "level_note": c["note"], "technique": c["technique"]})
    else:
        m["not_applicable"].append({"property_id": i, "reason": REASON_PENDING})
json.dump(m, open(os.path.join(V, "MANIFEST.json"), "w"), indent=1)
print("claimed", sorted(CLAIMED))
