"""Writes MANIFEST.json from the table below (kept in one place so it stays valid)."""
import json, os
V = os.path.dirname(os.path.dirname(os.path.abspath(__file__)))
props = [json.loads(l) for l in open(os.path.join(V, "properties.jsonl"))]
CLAIMED = {
 "C19": dict(
   text="Machine-checked proof (Coq) that the model of the generated scheduler (uint32 wrap-around arithmetic, static last_call/last_send, template guard order) equals the ideal 'send iff timestamp differs and >= P elapsed' automaton over unbounded time for every device and every call history (induction over the history, simulation invariant), plus send-iff / minimum-distance / no-period / current-value theorems; the model is tied to the generated C on every run by compiling devices with gcc and having Coq compare model and C on generated histories (incl. wrap-around).",
   note="Trusted: Coq kernel+vm_compute; gcc and the C abstract machine as modelled (uint32 subtraction, int->unsigned comparison); can_encode_msg_i observed, not modelled; histories obey the gap hypothesis (gap < 2^32 - max period); periods in {-1} U [0,2^31).",
   technique="Coq proof (simulation/refinement by induction over histories) + model-vs-compiled-C correspondence evaluated in Coq", ref="§5 C19"),
}
REASON_PENDING = "machinery for this property is not built yet in this session; see DESIGN.md §5 for the planned Coq model and theorems"
m = {
 "version": 1,
 "setup_cmd": "./check --setup",
 "hooks": {"guard": "FCP_CORE_VERIF", "enable": "no source hook is needed: every observation point is a public API; checks import /repo/src and /repo/plugins/* directly",
           "baseline_off_cmd": "cd /repo && /venv/bin/python -m pytest -ra -q -p no:cacheprovider --timeout=900 --continue-on-collection-errors",
           "source_commits": [], "add_only": True},
 "engines": [{"name": "coq-model", "path": "coq/", "serves_properties": sorted(CLAIMED), "kind_free_text": "Gallina models + theorems (Coq 8.16.1), correspondence cases evaluated by vm_compute"},
             {"name": "harness", "path": "harness/", "serves_properties": sorted(CLAIMED), "kind_free_text": "Python driver: generators, real-code runners, case printer, evidence"}],
 "checks": [], "not_applicable": [],
 "notes": "All checks: ./check <id> [--tier quick|thorough]; VERIF_SEED seeds the single PRNG. Known findings: known_findings.json.",
}
for p in props:
    i = p["id"]
    if i in CLAIMED:
        c = CLAIMED[i]
        m["checks"].append({"property_id": i, "quick_cmd": f"./check {i} --tier quick", "thorough_cmd": f"./check {i} --tier thorough",
          "evidence_file": f"/verif/evidence/{i}.json", "replay_cmd_template": f"./check {i} --replay {{path}}", "engine": "coq-model",
          "level_claimed": {"category": "proof", "text": c["text"], "design_ref": c["ref"]}, "level_note": c["note"], "technique": c["technique"]})
    else:
        m["not_applicable"].append({"property_id": i, "reason": REASON_PENDING})
json.dump(m, open(os.path.join(V, "MANIFEST.json"), "w"), indent=1)
print("claimed", sorted(CLAIMED))
