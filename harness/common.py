"""Shared machinery of the /verif checks (see DESIGN.md §3, §7).

Everything here is driven by /verif/check; the real code is always imported
from /repo's working tree (sys.path forced), never from a snapshot.
"""
import fcntl
import hashlib
import json
import os
import random
import re
import shutil
import subprocess
import sys
import tempfile
import time
from concurrent.futures import ThreadPoolExecutor

VERIF = os.path.dirname(os.path.dirname(os.path.abspath(__file__)))
REPO = os.environ.get("VERIF_REPO", "/repo")
COQ = os.path.join(VERIF, "coq")
PLUGINS = ["fcp_dbc", "fcp_can_c", "fcp_cpp", "fcp_nop"]
PY = "/venv/bin/python"
NPROC = 16

FORBIDDEN = re.compile(
    r"\b(Admitted|admit|Axiom|Parameter|Parameters|Conjecture|Hypothesis|Variable|Variables)\b"
    r"|Unset\s+Guard|bypass_check|type-in-type|impredicative-set|Admit\s+Obligations"
)


def repo_pythonpath():
    return [os.path.join(REPO, "src")] + [os.path.join(REPO, "plugins", p) for p in PLUGINS]


def setup_sys_path():
    """Force imports of fcp and the plug-ins to come from /repo's working tree."""
    for p in reversed(repo_pythonpath()):
        if p in sys.path:
            sys.path.remove(p)
        sys.path.insert(0, p)
    os.environ["PYTHONPATH"] = ":".join(repo_pythonpath())
    os.environ.setdefault("PYTHONHASHSEED", "0")
    os.environ["FCP_CORE_VERIF"] = "1"


def child_env(extra=None):
    env = dict(os.environ)
    env["PYTHONPATH"] = ":".join(repo_pythonpath())
    env.setdefault("PYTHONHASHSEED", "0")
    env["FCP_CORE_VERIF"] = "1"
    if extra:
        env.update(extra)
    return env


# ---------------------------------------------------------------------------
# Gallina printing (fail-closed)

def cz(n):
    if not isinstance(n, int) or isinstance(n, bool):
        raise TypeError(f"cz: not an int: {n!r}")
    return f"({n})%Z"


def cn(n):
    if not isinstance(n, int) or isinstance(n, bool) or n < 0:
        raise TypeError(f"cn: not a natural: {n!r}")
    return f"{n}%N"


def cnat(n):
    if not isinstance(n, int) or isinstance(n, bool) or n < 0 or n > 100000:
        raise TypeError(f"cnat: not a small natural: {n!r}")
    return f"{n}%nat"


def cbool(b):
    if not isinstance(b, bool):
        raise TypeError(f"cbool: {b!r}")
    return "true" if b else "false"


def cstr(s):
    if not isinstance(s, str):
        raise TypeError(f"cstr: {s!r}")
    for ch in s:
        o = ord(ch)
        if o > 126 or (o < 32 and ch not in "\n\t"):
            raise TypeError(f"cstr: unsupported character {ch!r}")
    return '"' + s.replace('"', '""') + '"%string'


def clist(items):
    items = list(items)
    return "[" + "; ".join(items) + "]"


def cpair(*xs):
    return "(" + ", ".join(xs) + ")"


def copt(x):
    return "None" if x is None else f"(Some {x})"


# ---------------------------------------------------------------------------
# Coq build

class CoqError(Exception):
    pass


def _lock():
    os.makedirs(COQ, exist_ok=True)
    f = open(os.path.join(COQ, ".lock"), "w")
    fcntl.flock(f, fcntl.LOCK_EX)
    return f


def list_v_files():
    out = []
    for root, dirs, files in os.walk(COQ):
        dirs[:] = [d for d in dirs if d not in ("cases",)]
        for fn in sorted(files):
            if fn.endswith(".v") and not fn.startswith("."):
                out.append(os.path.relpath(os.path.join(root, fn), COQ))
    return sorted(out)


def write_if_changed(path, content):
    try:
        with open(path) as f:
            if f.read() == content:
                return False
    except FileNotFoundError:
        pass
    os.makedirs(os.path.dirname(path), exist_ok=True)
    with open(path, "w") as f:
        f.write(content)
    return True


def coq_makefile():
    files = list_v_files()
    proj = "-Q . FcpV\n-arg -w -arg -notation-overridden,-deprecated-hint-without-locality,-deprecated-instance-without-locality,-ambiguous-paths,-comment-terminator-in-string\n" + "\n".join(files) + "\n"
    changed = write_if_changed(os.path.join(COQ, "_CoqProject"), proj)
    if changed or not os.path.exists(os.path.join(COQ, "Makefile")):
        r = subprocess.run(["coq_makefile", "-f", "_CoqProject", "-o", "Makefile"], cwd=COQ,
                           capture_output=True, text=True, timeout=120)
        if r.returncode != 0:
            raise CoqError("coq_makefile failed: " + r.stderr)


def coq_make(targets=None, timeout=3000):
    """Full .vo build of the given targets (default: everything). Returns (ok, log)."""
    lock = _lock()
    try:
        coq_makefile()
        cmd = ["make", f"-j{NPROC}"] + (targets or [])
        r = subprocess.run(cmd, cwd=COQ, capture_output=True, text=True, timeout=timeout)
        return r.returncode == 0, (r.stdout[-6000:] + "\n" + r.stderr[-6000:])
    finally:
        lock.close()


def forbidden_scan():
    """Refuse Admitted/Axiom/... anywhere in the development (comments stripped)."""
    hits = []
    for rel in list_v_files():
        with open(os.path.join(COQ, rel)) as f:
            src = f.read()
        src = strip_coq_comments(src)
        for i, line in enumerate(src.split("\n"), 1):
            m = FORBIDDEN.search(line)
            if m:
                # `Variable`/`Hypothesis` are fine inside a Section: we simply do not use them at all
                hits.append(f"{rel}:{i}: {m.group(0)}")
    return hits


def strip_coq_comments(src):
    out = []
    depth = 0
    i = 0
    instr = False
    while i < len(src):
        if depth == 0 and src[i] == '"':
            instr = not instr
            out.append(src[i]); i += 1; continue
        if not instr and src.startswith("(*", i):
            depth += 1; i += 2; continue
        if not instr and depth > 0 and src.startswith("*)", i):
            depth -= 1; i += 2; continue
        if depth == 0:
            out.append(src[i])
        elif src[i] == "\n":
            out.append("\n")
        i += 1
    return "".join(out)


def props_check(prop):
    """Compile Props/<prop>.v, returning {theorem: assumptions-text}. Raises CoqError."""
    rel = f"Props/{prop}.v"
    path = os.path.join(COQ, rel)
    if not os.path.exists(path):
        raise CoqError(f"{rel} missing")
    lock = _lock()
    try:
        r = subprocess.run(["coqc", "-Q", ".", "FcpV", "-w", "-notation-overridden,-deprecated-hint-without-locality", rel], cwd=COQ, capture_output=True,
                           text=True, timeout=1200)
    finally:
        lock.close()
    if r.returncode != 0:
        raise CoqError(f"coqc {rel} failed:\n{r.stdout[-3000:]}\n{r.stderr[-3000:]}")
    with open(path) as f:
        src = strip_coq_comments(f.read())
    names = re.findall(r"Print Assumptions\s+([A-Za-z0-9_']+)\s*\.", src)
    theorems = re.findall(r"^\s*(?:Theorem|Lemma|Example|Corollary)\s+([A-Za-z0-9_']+)", src, re.M)
    # split the output into one block per Print Assumptions
    blocks = re.split(r"(?=Closed under the global context|Axioms:)", r.stdout)
    blocks = [b.strip() for b in blocks if b.strip()]
    if len(blocks) != len(names):
        raise CoqError(f"{rel}: {len(names)} Print Assumptions but {len(blocks)} answers")
    result = {n: b for n, b in zip(names, blocks)}
    missing = [t for t in theorems if t not in result and not t.endswith("_nonvacuous") and not t.startswith("ex_")]
    if missing:
        raise CoqError(f"{rel}: theorems without Print Assumptions: {missing}")
    return result, theorems


ALLOWED_AXIOMS = set()  # the target is none; a stdlib axiom would be added here and named in DESIGN §10


def assumptions_ok(assm):
    bad = {}
    for name, text in assm.items():
        if text.startswith("Closed under the global context"):
            continue
        axioms = re.findall(r"^([A-Za-z0-9_.']+)\s*:", text, re.M)
        extra = [a for a in axioms if a not in ALLOWED_AXIOMS]
        if extra:
            bad[name] = extra
    return bad


# ---------------------------------------------------------------------------
# Correspondence: cases evaluated inside Coq

MAX_SHARD_CHARS = 350_000


def _big_stack():
    import resource
    try:
        soft, hard = resource.getrlimit(resource.RLIMIT_STACK)
        resource.setrlimit(resource.RLIMIT_STACK, (hard, hard))
    except Exception:
        pass


def run_cases(corr_module, cases, shard=300, check="check_case", timeout=900, opens=""):
    """cases: list of Gallina terms of type <corr_module>.case.

    Returns the sorted list of indices where the model and the observation
    disagree.  Raises CoqError when a shard fails to evaluate.
    """
    if not cases:
        return []
    tmp = tempfile.mkdtemp(prefix="verif_cases_")
    try:
        jobs = []
        # shards are bounded by count AND by text size (a multi-megabyte literal overflows coqc's stack)
        bounds, start, size = [], 0, 0
        for i, c in enumerate(cases):
            if i > start and (i - start >= shard or size + len(c) > MAX_SHARD_CHARS):
                bounds.append((start, i)); start, size = i, 0
            size += len(c)
        bounds.append((start, len(cases)))
        for sn, (k, kend) in enumerate(bounds):
            chunk = cases[k:kend]
            name = f"cases_{os.getpid()}_{sn}"
            body = (
                "From Coq Require Import ZArith NArith List String Bool.\n"
                f"From FcpV Require Import Base.Cases Corr.{corr_module}.\n"
                "Import ListNotations.\n" + opens + "\n"
                f"Definition cases : list Corr.{corr_module}.case := [\n  "
                + ";\n  ".join(chunk)
                + "\n].\n"
                f"Eval vm_compute in (mismatches Corr.{corr_module}.{check} cases).\n"
            )
            path = os.path.join(tmp, name + ".v")
            with open(path, "w") as f:
                f.write(body)
            jobs.append((k, path))

        def one(job):
            k, path = job
            r = subprocess.run(["coqc", "-Q", COQ, "FcpV", "-w", "-notation-overridden", path],
                               capture_output=True, text=True, timeout=timeout, cwd=tmp, preexec_fn=_big_stack)
            if r.returncode != 0:
                keep = os.path.join(VERIF, "replays", "_failed_case_file.v")
                os.makedirs(os.path.dirname(keep), exist_ok=True)
                shutil.copy(path, keep)
                raise CoqError(f"case shard {path} failed (kept as {keep}):\n{r.stdout[-2000:]}\n{r.stderr[-2000:]}")
            out = r.stdout.replace("\n", " ")
            m = re.search(r"=\s*\[(.*?)\]\s*:\s*list nat", out)
            if not m:
                raise CoqError(f"cannot parse coqc output: {r.stdout[-500:]}")
            return [k + int(x) for x in re.findall(r"(\d+)%nat", m.group(1))]

        with ThreadPoolExecutor(max_workers=NPROC) as ex:
            res = list(ex.map(one, jobs))
        return sorted(i for r in res for i in r)
    finally:
        shutil.rmtree(tmp, ignore_errors=True)


def eval_terms(corr_module, terms, timeout=600, opens=""):
    """Evaluate Gallina terms (for replay / shrinking): returns the printed results."""
    tmp = tempfile.mkdtemp(prefix="verif_eval_")
    try:
        body = ("From Coq Require Import ZArith NArith List String Bool.\n"
                f"From FcpV Require Import Base.Cases Corr.{corr_module}.\nImport ListNotations.\n" + opens + "\n"
                + "\n".join(f"Eval vm_compute in ({t})." for t in terms) + "\n")
        path = os.path.join(tmp, "ev.v")
        with open(path, "w") as f:
            f.write(body)
        r = subprocess.run(["coqc", "-Q", COQ, "FcpV", "-w", "-notation-overridden", path],
                           capture_output=True, text=True, timeout=timeout, cwd=tmp)
        if r.returncode != 0:
            raise CoqError(f"eval failed: {r.stdout[-2000:]} {r.stderr[-2000:]}")
        parts = re.split(r"^\s*= ", r.stdout, flags=re.M)[1:]
        return [p.strip() for p in parts]
    finally:
        shutil.rmtree(tmp, ignore_errors=True)


# ---------------------------------------------------------------------------
# Check context: evidence, violations, known findings

def load_known():
    with open(os.path.join(VERIF, "known_findings.json")) as f:
        return json.load(f)


class Check:
    def __init__(self, prop, tier, seed):
        self.prop = prop
        self.tier = tier
        self.seed = seed
        self.rng = random.Random(f"{prop}:{seed}")
        self.t0 = time.time()
        self.violations = []
        self.known_hits = {}
        self.coverage = {
            "evaluations": 0, "distinct_nontrivial": 0, "rule": "", "samples": [],
            "obligations": 0, "discharged": 0, "checker_cmd": "", "trusted_base": [],
        }
        self.assumptions = []
        self.level = "proof"
        self._distinct = set()
        self.known = [k for k in load_known()["findings"] if k["property"] == prop or prop in k.get("also", [])]
        self.replay_n = 0

    def clean_replays(self):
        import glob
        for old in glob.glob(os.path.join(VERIF, "replays", self.prop, f"{self.tier}_{self.seed}_*.json")):
            os.remove(old)

    # --- logging
    def log(self, *a):
        print(f"[{self.prop} +{time.time() - self.t0:6.1f}s]", *a, flush=True)

    # --- counting
    def count(self, key, nontrivial=True, sample=None):
        self.coverage["evaluations"] += 1
        if nontrivial:
            h = hashlib.sha1(repr(key).encode()).hexdigest()
            self._distinct.add(h)
        if sample is not None and len(self.coverage["samples"]) < 6:
            self.coverage["samples"].append(sample)

    def hist(self, name, key, n=1):
        d = self.coverage.setdefault("distribution", {}).setdefault(name, {})
        d[str(key)] = d.get(str(key), 0) + n

    # --- proof obligations
    def corr_buildable(self, targets):
        """When a proof obligation broke (e.g. the translator refused the new source), the correspondence may still be evaluable:
        it needs only the hand-written model. True if those targets build."""
        try:
            ok, _ = coq_make(targets)
            return ok
        except Exception:
            return False

    def proof_obligations(self, extra_targets=None):
        """Build the Coq development needed for this property, scan for forbidden
        words, compile Props/<prop>.v and record Print Assumptions.  Returns
        None when everything is discharged, else a description of what broke."""
        self.coverage["checker_cmd"] = (
            f"cd /verif/coq && make -j16 Props/{self.prop}.vo Corr/{self.prop}.vo && coqc -Q . FcpV Props/{self.prop}.v"
        )
        hits = forbidden_scan()
        if hits:
            return "forbidden construct in the Coq development: " + "; ".join(hits[:5])
        targets = [f"Props/{self.prop}.vo"]
        if os.path.exists(os.path.join(COQ, "Corr", f"{self.prop}.v")):
            targets.append(f"Corr/{self.prop}.vo")
        targets += extra_targets or []
        try:
            import regen
            regen.regenerate_for(self.prop)
        except Exception as e:
            return f"regeneration of the source-derived Coq files failed (translator is fail-closed): {e!r}"
        try:
            ok, log = coq_make(targets)
        except (CoqError, subprocess.TimeoutExpired) as e:
            return f"coq build error: {e}"
        if not ok:
            m = re.search(r'File "\./([^"]+)", line (\d+)', log)
            where = f"{m.group(1)}:{m.group(2)}" if m else "?"
            return f"proof obligation no longer checks (make failed at {where}):\n" + log[-1500:]
        try:
            assm, theorems = props_check(self.prop)
        except (CoqError, subprocess.TimeoutExpired) as e:
            return f"Props/{self.prop}.v no longer checks: {e}"
        self.coverage["obligations"] = len(theorems)
        bad = assumptions_ok(assm)
        self.coverage["discharged"] = len(theorems) - len(bad)
        self.coverage["theorems"] = theorems
        self.coverage["print_assumptions"] = {k: v.split("\n")[0][:200] for k, v in assm.items()}
        tb = self.coverage["trusted_base"]
        tb.append("Coq 8.16.1 kernel + vm_compute (no native_compute); stdlib only")
        tb.append("Print Assumptions: " + ("all theorems closed under the global context" if not bad else f"axioms used: {bad}"))
        if bad:
            return f"theorems depend on axioms not in the trusted base: {bad}"
        return None

    # --- violations
    def violation(self, replay, no_failing_input=False):
        d = os.path.join(VERIF, "replays", self.prop)
        os.makedirs(d, exist_ok=True)
        self.replay_n += 1
        path = os.path.join(d, f"{self.tier}_{self.seed}_{self.replay_n}.json")
        replay = dict(replay)
        replay["property"] = self.prop
        replay["no_failing_input_found"] = no_failing_input
        with open(path, "w") as f:
            json.dump(replay, f, indent=1, default=str)
        line = f"VIOLATION property={self.prop} replay={path}"
        if no_failing_input:
            line += " no-failing-input-found"
        print(line, flush=True)
        self.violations.append(path)

    def known_finding(self, fid, what):
        """Report (once) an open known finding that still reproduces."""
        if fid not in self.known_hits:
            self.known_hits[fid] = what
            print(f"KNOWN-FINDING: property={self.prop} {fid}: {what}", flush=True)

    def find_known(self, fid):
        for k in self.known:
            if k["id"] == fid and k.get("status") == "open":
                return k
        return None

    # --- finish
    def finish(self):
        self.coverage["distinct_nontrivial"] = len(self._distinct)
        self.coverage["known_findings_reproduced"] = self.known_hits
        ev = {
            "property_id": self.prop, "tier": self.tier, "seed": self.seed, "level": self.level,
            "coverage": self.coverage, "assumptions": self.assumptions,
            "wall_s": round(time.time() - self.t0, 2), "violations": len(self.violations),
        }
        os.makedirs(os.path.join(VERIF, "evidence"), exist_ok=True)
        with open(os.path.join(VERIF, "evidence", f"{self.prop}.json"), "w") as f:
            json.dump(ev, f, indent=1, default=str)
        self.log(f"done: evaluations={self.coverage['evaluations']} distinct={len(self._distinct)} "
                 f"obligations={self.coverage['discharged']}/{self.coverage['obligations']} violations={len(self.violations)}")
        return 1 if self.violations else 0


def scratch_dir(prefix="verif_"):
    return tempfile.mkdtemp(prefix=prefix)


def run(cmd, **kw):
    kw.setdefault("capture_output", True)
    kw.setdefault("text", True)
    kw.setdefault("timeout", 600)
    return subprocess.run(cmd, **kw)


TRANSLATED_MAX_CHARS = 30000


def run_model_and_translated(chk, model_mod, gen_mod, cases, broken, shard=300, cap=24000):
    """The cases against the hand-written model (Corr.<model_mod>.check_case) and, when the translation of the source builds, against
    the translated source run inside Coq as well (Corr.<gen_mod>.check_case_gen).  When a proof obligation broke (e.g. the translator
    refused the new source) the model-only correspondence still runs, so that a concrete input can be found.
    Returns (indices where the model disagrees with the implementation, indices where only the translated source disagrees, broken)."""
    mism, translated = [], []
    try:
        if broken is None and chk.corr_buildable([f"Corr/{gen_mod}.vo"]):
            # the translated _Buffer reads a word bit by bit with a list look-up per bit, as the source does: quadratic in the message
            # length.  Cases whose text is beyond TRANSLATED_MAX_CHARS (messages of tens of kilobytes) run on the model only.
            small = [i for i, c in enumerate(cases) if len(c) <= TRANSLATED_MAX_CHARS][:cap]
            rest = sorted(set(range(len(cases))) - set(small))
            both = [small[j] for j in run_cases(gen_mod, [cases[i] for i in small], shard=shard, check="check_case_gen")]
            chk.coverage["cases_also_run_on_the_translated_source"] = len(small)
            if both:
                again = run_cases(model_mod, [cases[i] for i in both], shard=shard)
                mism = [both[j] for j in again]
                translated = [i for i in both if i not in set(mism)]
            if rest:
                mism = sorted(mism + [rest[j] for j in run_cases(model_mod, [cases[i] for i in rest], shard=shard)])
        elif broken is None or chk.corr_buildable([f"Corr/{model_mod}.vo"]):
            mism = run_cases(model_mod, cases, shard=shard)
    except CoqError as e:
        broken = f"correspondence could not be evaluated: {e}"
    return mism, translated, broken
