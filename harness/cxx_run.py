"""Building and driving the generated C++ code (C03, C13, C18)."""
import json
import math
import os
import subprocess

import common

CXX_DIR = os.path.join(common.VERIF, "harness", "cxx")
INC = os.path.join(CXX_DIR, "third_party")


last_regeneration_diff = None


def generate_cpp(fcp, outdir):
    """Run the real C++ generator and write its files into outdir."""
    from fcp_cpp import Generator
    global last_regeneration_diff
    os.makedirs(outdir, exist_ok=True)
    first = Generator().generate(fcp, {"output": outdir})
    # the same parsed object is given to the generator a second time (as a long-running tool does): what is compiled is the second
    # generation, and it must be the first one again (apart from the documented time stamp line)
    files = Generator().generate(fcp, {"output": outdir})
    strip = lambda rs: [(os.path.basename(str(r["path"])), "\n".join(l for l in str(r["contents"]).split("\n") if "Generated using fcp" not in l)) for r in rs]
    a, b = strip(first), strip(files)
    last_regeneration_diff = None if a == b else sorted({n for n, _ in a} ^ {n for n, _ in b} | {n for (n, c), (m, d) in zip(a, b) if n == m and c != d})
    for r in files:
        with open(str(r["path"]), "w") as f:
            f.write(str(r["contents"]))
    return [os.path.basename(str(r["path"])) for r in files]


def build(outdir, main="static_main.cpp", defines=(), exe="drv", timeout=300):
    cmd = ["g++", "-std=c++17", "-O0", "-w", f"-I{outdir}", f"-I{INC}"] + [f"-D{d}" for d in defines] + \
          [os.path.join(CXX_DIR, main), "-o", os.path.join(outdir, exe)]
    r = subprocess.run(cmd, capture_output=True, text=True, timeout=timeout)
    if r.returncode != 0:
        return None, r.stderr[-3000:]
    return os.path.join(outdir, exe), None


class DriverDied(RuntimeError):
    pass


class Driver:
    def __init__(self, exe, args=()):
        self.exe, self.args = exe, list(args)
        self.crashes = []                   # (question, exit status) of every question the process died on
        self.p = subprocess.Popen([exe] + self.args, stdin=subprocess.PIPE, stdout=subprocess.PIPE, text=True)

    def ask(self, line):
        try:
            self.p.stdin.write(line + "\n")
            self.p.stdin.flush()
            out = self.p.stdout.readline()
        except BrokenPipeError:
            out = ""
        if not out:
            raise DriverDied(f"driver died on: {line[:200]} (exit {self.p.poll()})")
        return out.rstrip("\n")

    def ask_or_crash(self, line, greeting=None):
        """Like ask, but a crash of the generated code is an answer ("CRASH <status>"): the process is started again."""
        try:
            return self.ask(line)
        except DriverDied:
            try:
                status = self.p.wait(timeout=10)
            except Exception:
                self.p.kill(); status = None
            self.crashes.append((line, status))
            self.p = subprocess.Popen([self.exe] + self.args, stdin=subprocess.PIPE, stdout=subprocess.PIPE, text=True)
            if greeting is not None:
                self.p.stdout.readline()
            return f"CRASH {status}"

    def close(self):
        try:
            self.p.stdin.close()
            self.p.wait(timeout=10)
        except Exception:
            self.p.kill()


def to_json(v):
    """Python value (as the Python codec takes it) -> JSON text for the C++ FromJson."""
    return json.dumps(v, allow_nan=False)


def has_nonfinite(v):
    if isinstance(v, float):
        return not math.isfinite(v)
    if isinstance(v, dict):
        return any(has_nonfinite(x) for x in v.values())
    if isinstance(v, list):
        return any(has_nonfinite(x) for x in v)
    return False
