"""Translator for the small look-up methods of the schema classes -> Gallina (coq/gen/PySpecs.v).

These are the methods the translated serde.py, PackedEncoder and verifier checks call and that their run-time libraries
(Py/DispatchLib.v, Layout/EncoderLib.v, Verifier/ChecksLib.v) so far only ASSUMED the behaviour of:

    Enum.get_packed_size, Enum.max                                  (src/fcp/specs/enum.py)
    FcpV2.get_struct, get_enum, get_type, get_types, get_matching_impls, merge   (src/fcp/specs/v2.py)
    Impl.get_signal                                                  (src/fcp/specs/impl.py)
    PackedEncoderContext.with_unroll_arrays                          (src/fcp/encoding.py)

Each becomes  py_<Class>_<method> (self : <record>) args : pyres <result>  (for methods that mutate self: pyres (<record> * result)).
Specs/SpecsProofs.v proves each equal to the library function the other translations use.  Fail-closed.
"""
import ast

from py2coq import Untranslatable

SELF_TYPES = {"Enum": "senum", "FcpV2": "ftree", "Impl": "simpl", "PackedEncoderContext": "pctx"}
ATTR = {
    ("senum", "enumeration"): ("evals", "list:enumr"), ("enumr", "value"): ("snd", "Z"), ("enumr", "name"): ("fst", "string"),
    ("ftree", "structs"): ("t_structs", "list:sstruct"), ("ftree", "enums"): ("t_enums", "list:senum"), ("ftree", "impls"): ("t_impls", "list:simpl"),
    ("ftree", "services"): ("t_services", "list:svc"), ("ftree", "devices"): ("t_devices", "list:sdevice"),
    ("sstruct", "name"): ("sname", "string"), ("senum", "name"): ("ename", "string"), ("simpl", "protocol"): ("iprotocol", "string"),
    ("simpl", "signals"): ("isignals", "list:sigblock"), ("sigblock", "name"): ("sbname", "string"), ("tnode", "name"): ("tn_name", "string"),
}
COQ = {"senum": "senum", "ftree": "ftree", "simpl": "simpl", "pctx": "pctx", "sstruct": "sstruct", "sigblock": "sigblock", "tnode": "tnode",
       "string": "string", "Z": "Z", "bool": "bool", "sty": "sty", "unit": "unit", "svc": "string", "sdevice": "sdevice", "enumr": "(string * Z)"}


def coq_type(t):
    if t.startswith("list:"):
        return f"(list {coq_type(t[5:])})"
    if t.startswith("option:"):
        return f"(option {coq_type(t[7:])})"
    return COQ[t]


class Method:
    def __init__(self, cls, fn, params, ret, mutates=False, tracks_self=False):
        self.cls, self.fn, self.ret, self.mutates, self.tracks_self = cls, fn, ret, mutates, tracks_self
        names = [a.arg for a in fn.args.args]
        if names[0] != "self" or len(names) - 1 != len(params):
            raise Untranslatable(f"signature of {cls}.{fn.name}")
        self.params = list(zip(names[1:], params))
        self.env = {"self": SELF_TYPES[cls]}
        self.env.update(dict(self.params))
        self.tmp = 0
        self.is_generator = any(isinstance(n, (ast.Yield, ast.YieldFrom)) for n in ast.walk(fn))

    def fresh(self):
        self.tmp += 1
        return f"t{self.tmp}"

    @staticmethod
    def wrap(binds, term):
        for pat, m in reversed(binds):
            term = f"pbind ({m}) (fun {pat} => {term})"
        return term

    def expr(self, e):
        if isinstance(e, ast.Constant) and isinstance(e.value, int) and not isinstance(e.value, bool):
            return [], str(e.value), "Z"
        if isinstance(e, ast.Name):
            if e.id not in self.env:
                raise Untranslatable(f"unknown name {e.id}")
            return [], e.id + "_", self.env[e.id]
        if isinstance(e, ast.Attribute):
            b, x, t = self.expr(e.value)
            if t == "sty" and e.attr == "name":
                v = self.fresh()
                return b + [(v, f"py_type_name {x}")], v, "string"
            if (t, e.attr) in ATTR:
                f, rt = ATTR[(t, e.attr)]
                return b, f"({f} {x})", rt
            raise Untranslatable(ast.unparse(e))
        if isinstance(e, ast.BinOp) and isinstance(e.op, ast.Add):
            bl, l, tl = self.expr(e.left)
            br, r, tr = self.expr(e.right)
            if tl == tr == "Z":
                return bl + br, f"(Z.add {l} {r})", "Z"
            if tl.startswith("list:") and tr.startswith("list:"):
                # structs + enums: a list of type nodes
                if {tl, tr} == {"list:sstruct", "list:senum"} and tl == "list:sstruct":
                    return bl + br, f"(map TNStruct {l} ++ map TNEnum {r})%list", "list:tnode"
                if tl == tr:
                    return bl + br, f"({l} ++ {r})%list", tl
            raise Untranslatable(ast.unparse(e))
        if isinstance(e, ast.Compare) and len(e.ops) == 1 and isinstance(e.ops[0], ast.Eq):
            bl, l, tl = self.expr(e.left)
            br, r, tr = self.expr(e.comparators[0])
            if tl == tr == "Z":
                return bl + br, f"(Z.eqb {l} {r})", "bool"
            if tl == tr == "string":
                return bl + br, f"(String.eqb {l} {r})", "bool"
            raise Untranslatable(ast.unparse(e))
        if isinstance(e, ast.BoolOp) and len(e.values) == 2:
            bl, l, tl = self.expr(e.values[0])
            br, r, tr = self.expr(e.values[1])
            if tl != "bool" or tr != "bool":
                raise Untranslatable(ast.unparse(e))
            if isinstance(e.op, ast.Or):
                if br:
                    t = self.fresh()
                    return bl + [(t, f"if {l} then POk true else {self.wrap(br, f'POk {r}')}")], t, "bool"
                return bl, f"(orb {l} {r})", "bool"
            if br:
                # the right operand can raise: it is evaluated only when the left one holds
                t = self.fresh()
                return bl + [(t, f"if {l} then {self.wrap(br, f'POk {r}')} else POk false")], t, "bool"
            return bl, f"(andb {l} {r})", "bool"
        if isinstance(e, ast.Call):
            f, s = e.func, ast.unparse(e)
            if isinstance(f, ast.Name) and f.id == "isinstance" and len(e.args) == 2 and isinstance(e.args[1], ast.Name) and e.args[1].id in ("StructType", "EnumType"):
                b, x, t = self.expr(e.args[0])
                if t != "sty":
                    raise Untranslatable(s)
                return b, f"(is_{e.args[1].id} {x})", "bool"
            if isinstance(f, ast.Name) and f.id == "copy" and len(e.args) == 1:
                return self.expr(e.args[0])                     # records are values: a copy is the value
            if isinstance(f, ast.Attribute) and f.attr == "max" and not e.args and ast.unparse(f.value) == "self" and self.cls == "Enum":
                v = self.fresh()
                return [(v, "py_Enum_max self_")], v, "Z"
            if s.startswith("max(map(lambda") and len(e.args) == 1 and len(e.keywords) == 1 and e.keywords[0].arg == "default":
                m = e.args[0]
                lam = m.args[0]
                if (isinstance(m, ast.Call) and ast.unparse(m.func) == "map" and isinstance(lam, ast.Lambda) and len(lam.args.args) == 1):
                    bl, l, tl = self.expr(m.args[1])
                    if not tl.startswith("list:"):
                        raise Untranslatable(s)
                    v = lam.args.args[0].arg
                    self.env[v] = tl[5:]
                    be, x, tx = self.expr(lam.body)
                    del self.env[v]
                    bd, d, td = self.expr(e.keywords[0].value)
                    if be or bd or tx != "Z" or td != "Z":
                        raise Untranslatable(s)
                    return bl, f"(py_max_default (map (fun {v}_ => {x}) {l}) {d})", "Z"
            if s.startswith("math.floor(math.log2(") and len(e.args) == 1 and isinstance(e.args[0], ast.BinOp) and isinstance(e.args[0].op, ast.Add) \
                    and isinstance(e.args[0].left, ast.Call) and ast.unparse(e.args[0].left.func) == "math.log2" \
                    and isinstance(e.args[0].right, ast.Constant) and e.args[0].right.value == 1:
                b, x, t = self.expr(e.args[0].left.args[0])
                if t != "Z":
                    raise Untranslatable(s)
                v = self.fresh()
                return b + [(v, f"py_floor_log2_plus1 {x}")], v, "Z"
        raise Untranslatable(ast.unparse(e))

    def value(self, e):
        """An expression in return position, coerced to the method's result type."""
        if isinstance(e, ast.Call) and ast.unparse(e.func) == "Some" and len(e.args) == 1 and self.ret.startswith("option:"):
            b, x, t = self.expr(e.args[0])
            if t != self.ret[7:] and not (self.ret == "option:tnode" and t == "tnode"):
                raise Untranslatable(f"Some({t}) where {self.ret} is returned")
            return b, f"(Some {x})"
        if isinstance(e, ast.Call) and ast.unparse(e) == "Nothing()" and self.ret.startswith("option:"):
            return [], "None"
        b, x, t = self.expr(e)
        if t != self.ret:
            raise Untranslatable(f"returns a {t}, declared {self.ret}")
        return b, x

    def block(self, body):
        if not body:
            return "POk FNextV"
        st, rest = body[0], body[1:]
        if isinstance(st, ast.Expr) and isinstance(st.value, ast.Constant) and isinstance(st.value.value, str):
            return self.block(rest)
        if isinstance(st, ast.Return) and st.value is not None:
            b, x = self.value(st.value)
            if self.tracks_self:
                x = f"(self_, {x})"                 # the receiver as the call leaves it, and the result
            return self.wrap(b, f"POk (FRetV {x})")
        if isinstance(st, ast.Expr) and isinstance(st.value, ast.Yield) and self.is_generator:
            b, x, t = self.expr(st.value.value)
            if f"list:{t}" != self.ret:
                raise Untranslatable("yield of a " + t)
            return self.wrap(b, f"let acc_ := (acc_ ++ [{x}])%list in {self.block(rest) if rest else 'POk (FAccV acc_)'}")
        if isinstance(st, ast.Assign) and len(st.targets) == 1 and isinstance(st.targets[0], ast.Name):
            b, x, t = self.expr(st.value)
            self.env[st.targets[0].id] = t
            return self.wrap(b, f"let {st.targets[0].id}_ := {x} in {self.block(rest)}")
        if isinstance(st, ast.Assign) and len(st.targets) == 1 and isinstance(st.targets[0], ast.Attribute) and isinstance(st.targets[0].value, ast.Name):
            tg = st.targets[0]
            if self.env.get(tg.value.id) == "pctx" and tg.attr == "unroll_arrays":
                b, x, t = self.expr(st.value)
                if t != "bool":
                    raise Untranslatable(ast.unparse(st))
                return self.wrap(b, f"let {tg.value.id}_ := set_unroll {tg.value.id}_ {x} in {self.block(rest)}")
            raise Untranslatable(ast.unparse(st))
        if isinstance(st, ast.AugAssign) and isinstance(st.op, ast.Add) and isinstance(st.target, ast.Attribute) and ast.unparse(st.target.value) == "self" \
                and self.mutates and ("ftree", st.target.attr) in ATTR:
            b, x, t = self.expr(st.value)
            if t != ATTR[("ftree", st.target.attr)][1]:
                raise Untranslatable(ast.unparse(st))
            return self.wrap(b, f"let self_ := set_t_{st.target.attr} self_ ({ATTR[('ftree', st.target.attr)][0]} self_ ++ {x})%list in {self.block(rest)}")
        if isinstance(st, ast.If):
            b, c, tc = self.expr(st.test)
            if tc != "bool":
                raise Untranslatable(ast.unparse(st.test))
            yes, no = self.block(st.body), self.block(st.orelse)
            if self.is_generator:
                return self.wrap(b, f"pbind (if {c} then {yes} else POk (FAccV acc_)) (fun r => match r with FAccV acc_ => {self.block(rest) if rest else 'POk (FAccV acc_)'} | other => POk other end)")
            return self.wrap(b, f"pbind (if {c} then {yes} else {no}) (fun r => match r with FNextV => {self.block(rest)} | other => POk other end)")
        if isinstance(st, ast.For) and isinstance(st.target, ast.Name) and not st.orelse:
            b, l, tl = self.expr(st.iter)
            if not tl.startswith("list:"):
                raise Untranslatable("iteration over a " + tl)
            self.env[st.target.id] = tl[5:]
            body = self.block(st.body)
            del self.env[st.target.id]
            if self.is_generator:
                return self.wrap(b, f"pbind (for_acc {l} (fun {st.target.id}_ acc_ => {body}) acc_) (fun acc_ => {self.block(rest) if rest else 'POk (FAccV acc_)'})")
            return self.wrap(b, f"pbind (for_first_v {l} (fun {st.target.id}_ => {body})) (fun r => match r with Some v => POk (FRetV v) | None => {self.block(rest)} end)")
        raise Untranslatable(ast.unparse(st))

    def translate(self):
        fn = self.fn
        if fn.args.vararg or fn.args.kwarg or fn.args.kwonlyargs or fn.args.defaults or fn.decorator_list:
            raise Untranslatable(f"signature of {self.cls}.{fn.name}")
        params = " ".join(f"({n}_ : {coq_type(t)})" for n, t in [("self", SELF_TYPES[self.cls])] + self.params)
        name = f"py_{self.cls}_{fn.name}"
        if self.is_generator:
            body = self.block(fn.body)
            return (f"Definition {name} {params} : pyres {coq_type(self.ret)} :=\n"
                    f"  let acc_ := [] in pbind ({body}) (fun r => match r with FAccV acc_ => POk acc_ | _ => PRaise PyTypeError end).\n")
        if self.mutates:
            # falls off the end: returns None; the caller sees the mutated receiver
            return (f"Definition {name} {params} : pyres {coq_type(SELF_TYPES[self.cls])} :=\n"
                    f"  {self.block_mut(fn.body)}.\n")
        body = self.block(fn.body)
        if self.tracks_self:
            return (f"Definition {name} {params} : pyres ({coq_type(SELF_TYPES[self.cls])} * {coq_type(self.ret)}) :=\n"
                    f"  pbind ({body}) (fun r => match r with FRetV v => POk v | _ => PRaise PyTypeError end).\n")
        return (f"Definition {name} {params} : pyres {coq_type(self.ret)} :=\n"
                f"  pbind ({body}) (fun r => match r with FRetV v => POk v | _ => PRaise PyTypeError end).\n")

    def block_mut(self, body):
        if not body:
            return "POk self_"
        st, rest = body[0], body[1:]
        if isinstance(st, ast.Expr) and isinstance(st.value, ast.Constant):
            return self.block_mut(rest)
        if isinstance(st, ast.AugAssign) and isinstance(st.op, ast.Add) and isinstance(st.target, ast.Attribute) and ast.unparse(st.target.value) == "self" \
                and ("ftree", st.target.attr) in ATTR:
            b, x, t = self.expr(st.value)
            if t != ATTR[("ftree", st.target.attr)][1]:
                raise Untranslatable(ast.unparse(st))
            return self.wrap(b, f"let self_ := set_t_{st.target.attr} self_ ({ATTR[('ftree', st.target.attr)][0]} self_ ++ {x})%list in {self.block_mut(rest)}")
        raise Untranslatable(ast.unparse(st))


# (class, method, parameter types, result type, mutates self)
METHODS = {
    "enum": [("Enum", "max", [], "Z", False), ("Enum", "get_packed_size", [], "Z", False)],
    "v2": [("FcpV2", "merge", ["ftree"], "unit", True), ("FcpV2", "get_type", ["sty"], "option:tnode", False), ("FcpV2", "get_types", [], "list:tnode", False),
           ("FcpV2", "get_matching_impls", ["string"], "list:simpl", False), ("FcpV2", "get_struct", ["string"], "option:sstruct", False),
           ("FcpV2", "get_enum", ["string"], "option:senum", False)],
    "impl": [("Impl", "get_signal", ["string"], "option:sigblock", False)],
    "encoding": [("PackedEncoderContext", "with_unroll_arrays", ["bool"], "pctx", "tracks")],
}


def find_method(tree, cls, name):
    for n in tree.body:
        if isinstance(n, ast.ClassDef) and n.name == cls:
            fs = [m for m in n.body if isinstance(m, ast.FunctionDef) and m.name == name]
            if len(fs) == 1:
                return fs[0]
    raise Untranslatable(f"{cls}.{name} not found")


def translate_repo(repo):
    import os
    rd = lambda *p: ast.parse(open(os.path.join(repo, *p)).read())
    trees = {"enum": rd("src", "fcp", "specs", "enum.py"), "v2": rd("src", "fcp", "specs", "v2.py"), "impl": rd("src", "fcp", "specs", "impl.py"),
             "encoding": rd("src", "fcp", "encoding.py")}
    out = ["(* GENERATED by harness/py2coq_specs.py from the look-up methods of src/fcp/specs/*.py and PackedEncoderContext on every run; do not edit. *)",
           "From Coq Require Import String ZArith List Bool.",
           "From FcpV Require Import Schema.Types Layout.Packed Verifier.Checks Py.BufferLib Py.DispatchLib Verifier.ChecksLib Specs.SpecsLib.",
           "Import ListNotations.", "Open Scope Z_scope.", ""]
    for key, methods in METHODS.items():
        for cls, name, params, ret, mut in methods:
            fn = find_method(trees[key], cls, name)
            if fn.decorator_list:
                raise Untranslatable(f"decorators of {cls}.{name}")
            out.append(Method(cls, fn, params, ret, mut is True, mut == "tracks").translate())
    return "\n".join(out)


if __name__ == "__main__":
    import sys
    print(translate_repo(sys.argv[1]))
