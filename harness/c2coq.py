"""Translator from the C that fcp_can_c generates for can_send_<dev>_msgs_scheduled() to Gallina (coq/gen/SchedGen.v).

clang parses the generated file (-Xclang -ast-dump=json); the function's AST is translated statement by statement with
C's integer semantics made explicit from the types clang annotates: unsigned (uint32_t) arithmetic is reduced mod 2^32, an
IntegralCast to an unsigned type is `mod 2^32`, int literals and their negation stay in Z (they are small), comparisons and
&& are booleans.  The function's state is its two statics (last_call_t, last_send_t[N]); its observable effect is the
sequence of send_can_func(&frame) calls, recorded as the index of the message whose can_encode_msg_<name> produced the frame.

Fail-closed: any node outside this subset raises Untranslatable.
"""
import json
import subprocess


class Untranslatable(Exception):
    pass


UNSIGNED32 = ("uint32_t", "unsigned int")
INT = ("int",)


def qual(n):
    return n.get("type", {}).get("qualType", "")


class Sched:
    def __init__(self, fn, names):
        self.fn = fn
        self.names = names          # message names (snake case) in template order: index = identity of a message
        self.frames = {}            # local CanFrame variable -> message index

    def expr(self, n):
        """Returns a Gallina term of type Z (integers) or bool (comparisons, &&)."""
        k = n["kind"]
        if k == "ParenExpr":
            return self.expr(n["inner"][0])
        if k == "IntegerLiteral":
            return n["value"]
        if k == "ImplicitCastExpr":
            ck = n["castKind"]
            if ck == "LValueToRValue" or ck == "NoOp":
                return self.expr(n["inner"][0])
            if ck == "IntegralCast":
                x = self.expr(n["inner"][0])
                if qual(n) in UNSIGNED32:
                    return f"(({x}) mod W)"
                raise Untranslatable(f"cast to {qual(n)}")
            raise Untranslatable(f"cast {ck}")
        if k == "CStyleCastExpr":
            raise Untranslatable(f"explicit cast to {qual(n)}")
        if k == "UnaryOperator" and n["opcode"] == "-" and qual(n) in INT:
            return f"(- ({self.expr(n['inner'][0])}))"
        if k == "DeclRefExpr":
            name = n["referencedDecl"]["name"]
            if name == "time":
                return "time"
            if name == "last_call_t":
                return "(last_call s)"
            raise Untranslatable(f"variable {name}")
        if k == "ArraySubscriptExpr":
            return f"(nth {self.slot(n)} (last_send s) 0)"
        if k == "BinaryOperator":
            op = n["opcode"]
            a, b = n["inner"]
            if op in ("-", "+"):
                if qual(n) not in UNSIGNED32:
                    raise Untranslatable(f"{op} at type {qual(n)}")
                return f"((({self.expr(a)}) {op} ({self.expr(b)})) mod W)"
            if op in ("==", "!=", ">=", "<=", ">", "<"):
                # both operands have the same type after the usual arithmetic conversions (clang inserted the casts)
                if qual(a) != qual(b) and not (qual(a) in UNSIGNED32 and qual(b) in UNSIGNED32):
                    raise Untranslatable(f"comparison of {qual(a)} with {qual(b)}")
                x, y = self.expr(a), self.expr(b)
                return {"==": f"(({x}) =? ({y}))", "!=": f"(negb (({x}) =? ({y})))", ">=": f"(({y}) <=? ({x}))", "<=": f"(({x}) <=? ({y}))",
                        ">": f"(({y}) <? ({x}))", "<": f"(({x}) <? ({y}))"}[op]
            if op == "&&":
                return f"({self.expr(a)} && {self.expr(b)})"
            if op == "||":
                return f"({self.expr(a)} || {self.expr(b)})"
        raise Untranslatable(f"expression {k} {n.get('opcode', '')}")

    def slot(self, n):
        base, idx = n["inner"]
        while base["kind"] == "ImplicitCastExpr":
            base = base["inner"][0]
        if base["kind"] != "DeclRefExpr" or base["referencedDecl"]["name"] != "last_send_t" or idx["kind"] != "IntegerLiteral":
            raise Untranslatable("array access other than last_send_t[<literal>]")
        return idx["value"]

    def stmts(self, body, prev):
        """Forward translation: every statement transforms the state pair (s, out) that the previous one left; [prev] is the
        Gallina term of that pair.  `if (c) return;` makes the rest of the block conditional."""
        for st in body:                      # declarations of frames are seen before their uses
            if st["kind"] == "DeclStmt":
                self.declare(st)
        for n, st in enumerate(body):
            if st["kind"] == "IfStmt" and st["inner"][1]["kind"] == "ReturnStmt" and len(st["inner"]) == 2:
                rest = self.stmts(body[n + 1:], "(s, out)")
                return f"(let '(s, out) := {prev} in if {self.expr(st['inner'][0])} then (s, out) else {rest})"
            prev = self.stmt(st, prev)
        return prev

    def declare(self, st):
        v = st["inner"][0]
        if v["kind"] == "VarDecl" and qual(v) == "CanFrame" and v.get("inner"):
            call = v["inner"][0]
            if call["kind"] == "CallExpr":
                f = call["inner"][0]
                while f["kind"] == "ImplicitCastExpr":
                    f = f["inner"][0]
                fname = f["referencedDecl"]["name"]
                if fname.startswith("can_encode_msg_") and fname[len("can_encode_msg_"):] in self.names:
                    self.frames[v["name"]] = self.names.index(fname[len("can_encode_msg_"):])
                    return
        raise Untranslatable("declaration " + v.get("name", "?"))

    def stmt(self, st, prev):
        kind = st["kind"]
        if kind == "IfStmt":
            inner = st["inner"]
            cond, then = inner[0], inner[1]
            if len(inner) > 2:
                raise Untranslatable("else branch")
            body = then["inner"] if then["kind"] == "CompoundStmt" else [then]
            return f"(let '(s, out) := {prev} in if {self.expr(cond)} then {self.stmts(body, '(s, out)')} else (s, out))"
        if kind == "DeclStmt":
            return prev                      # registered by declare()
        if kind == "CallExpr":
            f = st["inner"][0]
            while f["kind"] == "ImplicitCastExpr":
                f = f["inner"][0]
            if f["kind"] == "DeclRefExpr" and f["referencedDecl"]["name"] == "send_can_func":
                a = st["inner"][1]
                while a["kind"] == "ImplicitCastExpr":
                    a = a["inner"][0]
                if a["kind"] == "UnaryOperator" and a["opcode"] == "&" and a["inner"][0]["kind"] == "DeclRefExpr":
                    var = a["inner"][0]["referencedDecl"]["name"]
                    if var in self.frames:
                        return f"(let '(s, out) := {prev} in (s, (out ++ [{self.frames[var]}%nat])%list))"
            raise Untranslatable("call")
        if kind == "BinaryOperator" and st["opcode"] == "=":
            lhs, rhs = st["inner"]
            if lhs["kind"] == "DeclRefExpr" and lhs["referencedDecl"]["name"] == "last_call_t":
                return f"(let '(s, out) := {prev} in (set_last_call s ({self.expr(rhs)}), out))"
            if lhs["kind"] == "ArraySubscriptExpr":
                return f"(let '(s, out) := {prev} in (set_last_send s {self.slot(lhs)} ({self.expr(rhs)}), out))"
            raise Untranslatable("assignment")
        if kind == "CompoundAssignOperator":
            lhs, rhs = st["inner"]
            op = st["opcode"][0]
            if lhs["kind"] == "ArraySubscriptExpr" and op in "+-" and qual(st) in UNSIGNED32:
                sl = self.slot(lhs)
                return f"(let '(s, out) := {prev} in (set_last_send s {sl} (((nth {sl} (last_send s) 0) {op} ({self.expr(rhs)})) mod W), out))"
            raise Untranslatable("compound assignment")
        raise Untranslatable(f"statement {kind}")

    def translate(self, ident):
        body = [c for c in self.fn["inner"] if c["kind"] == "CompoundStmt"][0]["inner"]
        # the two statics, zero-initialised
        n = None
        rest = []
        for st in body:
            if st["kind"] == "DeclStmt" and st["inner"][0]["kind"] == "VarDecl" and st["inner"][0].get("storageClass") == "static":
                v = st["inner"][0]
                if v["name"] == "last_call_t" and qual(v) == "uint32_t":
                    continue
                if v["name"] == "last_send_t" and qual(v).startswith("uint32_t["):
                    n = int(qual(v)[len("uint32_t["):-1])
                    continue
                raise Untranslatable("static " + v["name"])
            rest.append(st)
        if n is None:
            raise Untranslatable("no last_send_t")
        term = self.stmts(rest, "(s, @nil nat)")
        return n, f"Definition {ident} (s : sstate) (time : Z) : sstate * list nat :=\n  {term}.\n"


def scheduler_ast(cfile, include_dirs):
    r = subprocess.run(["clang", "-Xclang", "-ast-dump=json", "-fsyntax-only"] + [f"-I{d}" for d in include_dirs] + [cfile],
                       capture_output=True, text=True, timeout=120)
    if r.returncode != 0:
        raise Untranslatable("clang: " + r.stderr[-300:])
    ast = json.loads(r.stdout)
    fns = [n for n in ast["inner"] if n.get("kind") == "FunctionDecl" and n.get("name", "").endswith("_msgs_scheduled")
           and any(c.get("kind") == "CompoundStmt" for c in n.get("inner", []))]
    if len(fns) != 1:
        raise Untranslatable(f"{len(fns)} scheduler definitions")
    return fns[0]


def translate_scheduler(cfile, include_dirs, names, ident):
    return Sched(scheduler_ast(cfile, include_dirs), names).translate(ident)


if __name__ == "__main__":
    import sys
    print(translate_scheduler(sys.argv[1], [sys.argv[2]], sys.argv[3].split(","), "gen_step")[1])
