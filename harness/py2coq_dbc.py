"""Translator for plugins/fcp_dbc/fcp_dbc/dbc_writer.py:_make_signals -> Gallina (coq/gen/PyDbc.v).  Fail-closed.

_make_signals(encoding, type) turns the packed layout of one binding into the signals handed to cantools and the message length.
The translation keeps its statements:

    signals = []; dlc = 0                                   the loop state
    mux_signals = [E for piece in encoding if E is not None]  filter_some (map ...)
    msg_bitlength = encoding[-1].bitstart + encoding[-1].bitlength     py_last (IndexError on an empty layout)
    if msg_bitlength > 64: raise ValueError(...)
    for piece in encoding: <assignments>; signals.append(CanSignal(...)); dlc = ceil((...) / 8)      fold_left over (signals, dlc)
    return (signals, dlc)

Expressions: piece.<attribute>, piece.name.replace("::", "_") (the structured path joined with "_": Dbc.DbcModel.dbc_name),
piece.extended_data.get("<key>") (typed by key: mux_signal a string, mux_count an integer, as the model reads them), + on integers,
== / != against string literals, `is None` / `is not None`, conditional expressions, `x in <list>`, list(range(0, n)),
piece.type.is_signed(), isinstance(piece.type, (FloatType, DoubleType)), BaseConversion.factory(is_float=...), ceil(<int> / 8).
CanSignal(...) becomes the record Dbc.DbcModel.dsignal; minimum, maximum and comment must be the constants 0, 0, None.
"""
import ast
import os

from py2coq import Untranslatable
from py2coq_driver import strip_doc, find_def, cstr

ATTR = {"name": ("pname", "string"), "bitstart": ("pstart", "Z"), "bitlength": ("plen", "Z"), "endianess": ("pend", "string"),
        "type": ("pty", "sty"), "unit": ("punit", "ostring")}
EXT = {"mux_signal": ("ext_str", "ostring"), "mux_count": ("ext_int", "oZ")}


class Expr:
    def __init__(self, env):
        self.env = dict(env)

    def expr(self, e):
        """-> (Gallina term, static type)   types: Z string bool sty piece ostring oZ olistZ list:string"""
        if isinstance(e, ast.Constant):
            if isinstance(e.value, bool):
                return ("true" if e.value else "false"), "bool"
            if isinstance(e.value, int):
                return f"({e.value})%Z", "Z"
            if isinstance(e.value, str):
                return cstr(e.value), "string"
            if e.value is None:
                return "None", "none"
        if isinstance(e, ast.Name) and e.id in self.env:
            return e.id, self.env[e.id]
        if isinstance(e, ast.Attribute):
            b, t = self.expr(e.value)
            if t == "piece" and e.attr in ATTR:
                return f"({ATTR[e.attr][0]} {b})", ATTR[e.attr][1]
        if isinstance(e, ast.BinOp) and isinstance(e.op, ast.Add):
            (a, ta), (b, tb) = self.expr(e.left), self.expr(e.right)
            if ta == tb == "Z":
                return f"({a} + {b})%Z", "Z"
        if isinstance(e, ast.Compare) and len(e.ops) == 1:
            op, l, r = e.ops[0], e.left, e.comparators[0]
            if isinstance(op, (ast.Eq, ast.NotEq)):
                (a, ta), (b, tb) = self.expr(l), self.expr(r)
                if ta == tb == "string":
                    t = f"(String.eqb {a} {b})"
                    return (t if isinstance(op, ast.Eq) else f"(negb {t})"), "bool"
            if isinstance(op, (ast.Is, ast.IsNot)) and isinstance(r, ast.Constant) and r.value is None:
                a, ta = self.expr(l)
                if ta in ("ostring", "oZ", "olistZ"):
                    t = f"(is_none {a})"
                    return (t if isinstance(op, ast.Is) else f"(negb {t})"), "bool"
            if isinstance(op, ast.In):
                (a, ta), (b, tb) = self.expr(l), self.expr(r)
                if ta == "string" and tb == "list:string":
                    return f"(existsb (String.eqb {a}) {b})", "bool"
            if isinstance(op, ast.Gt):
                (a, ta), (b, tb) = self.expr(l), self.expr(r)
                if ta == tb == "Z":
                    return f"({b} <? {a})%Z", "bool"
        if isinstance(e, ast.IfExp):
            c, tc = self.expr(e.test)
            if tc != "bool":
                raise Untranslatable(f"condition {ast.unparse(e.test)}")
            # `f(x) if x is not None else None` on an optional x
            t = e.test
            if isinstance(t, ast.Compare) and len(t.ops) == 1 and isinstance(t.ops[0], ast.IsNot) and isinstance(t.left, ast.Name) \
                    and self.env.get(t.left.id) == "oZ" and isinstance(e.orelse, ast.Constant) and e.orelse.value is None:
                saved = dict(self.env)
                self.env[t.left.id] = "Z"
                a, ta = self.expr(e.body)
                self.env = saved
                if ta == "listZ":
                    return f"(option_map (fun {t.left.id} => {a}) {t.left.id})", "olistZ"
            (a, ta), (b, tb) = self.expr(e.body), self.expr(e.orelse)
            if ta == tb:
                return f"(if {c} then {a} else {b})", ta
        if isinstance(e, ast.Call):
            f = ast.unparse(e.func)
            if isinstance(e.func, ast.Attribute) and e.func.attr == "replace" and [ast.unparse(a) for a in e.args] == ["'::'", "'_'"] and not e.keywords:
                b = e.func.value
                if isinstance(b, ast.Attribute) and b.attr == "name":
                    p, tp = self.expr(b.value)
                    if tp == "piece":
                        return f"(dbc_name {p})", "string"
            if isinstance(e.func, ast.Attribute) and e.func.attr == "get" and isinstance(e.func.value, ast.Attribute) and e.func.value.attr == "extended_data" \
                    and len(e.args) == 1 and isinstance(e.args[0], ast.Constant) and e.args[0].value in EXT and not e.keywords:
                p, tp = self.expr(e.func.value.value)
                if tp == "piece":
                    g, t = EXT[e.args[0].value]
                    return f"({g} {p} {cstr(e.args[0].value)})", t
            if isinstance(e.func, ast.Attribute) and e.func.attr == "is_signed" and not e.args and not e.keywords:
                b, t = self.expr(e.func.value)
                if t == "sty":
                    return f"(is_signed_ty {b})", "bool"
            if f == "isinstance" and len(e.args) == 2 and ast.unparse(e.args[1]) == "(FloatType, DoubleType)":
                b, t = self.expr(e.args[0])
                if t == "sty":
                    return f"(is_float_ty {b})", "bool"
            if f == "BaseConversion.factory" and not e.args and [k.arg for k in e.keywords] == ["is_float"]:
                b, t = self.expr(e.keywords[0].value)
                if t == "bool":
                    return b, "conversion"
            if f == "list" and len(e.args) == 1 and isinstance(e.args[0], ast.Call) and ast.unparse(e.args[0].func) == "range" and len(e.args[0].args) == 2 \
                    and isinstance(e.args[0].args[0], ast.Constant) and e.args[0].args[0].value == 0:
                b, t = self.expr(e.args[0].args[1])
                if t == "Z":
                    return f"(zrange {b})", "listZ"
            if f == "ceil" and len(e.args) == 1 and isinstance(e.args[0], ast.BinOp) and isinstance(e.args[0].op, ast.Div) \
                    and isinstance(e.args[0].right, ast.Constant) and e.args[0].right.value == 8:
                b, t = self.expr(e.args[0].left)
                if t == "Z":
                    return f"(ceil8 {b})", "Z"
        raise Untranslatable(f"expression {ast.unparse(e)}")


def signal_record(ex, call):
    if ast.unparse(call.func) != "CanSignal" or len(call.args) != 3:
        raise Untranslatable("CanSignal(...)")
    kw = {k.arg: k.value for k in call.keywords}
    if sorted(kw) != sorted(["byte_order", "is_signed", "conversion", "minimum", "maximum", "unit", "comment", "is_multiplexer", "multiplexer_ids", "multiplexer_signal"]):
        raise Untranslatable(f"CanSignal keywords {sorted(kw)}")
    for k, v in (("minimum", 0), ("maximum", 0), ("comment", None)):
        if not (isinstance(kw[k], ast.Constant) and kw[k].value == v and type(kw[k].value) is type(v)):
            raise Untranslatable(f"CanSignal {k}")

    def typed(e, want):
        t, ty = ex.expr(e)
        if ty != want:
            raise Untranslatable(f"{ast.unparse(e)} : {ty}, expected {want}")
        return t
    order = typed(kw["byte_order"], "string")
    return ("{| gname := " + typed(call.args[0], "string") + "; gstart := " + typed(call.args[1], "Z") + "; glen := " + typed(call.args[2], "Z")
            + f"; gbig := String.eqb {order} \"big_endian\"%string; gsigned := " + typed(kw["is_signed"], "bool") + "; gfloat := " + typed(kw["conversion"], "conversion")
            + "; gunit := " + typed(kw["unit"], "ostring") + "; gismux := " + typed(kw["is_multiplexer"], "bool") + "; gmuxids := " + typed(kw["multiplexer_ids"], "olistZ")
            + "; gmuxsig := " + typed(kw["multiplexer_signal"], "ostring") + " |}")


def translate_make_signals(fn):
    args = [a.arg for a in fn.args.args]
    if len(args) != 2 or fn.decorator_list:
        raise Untranslatable("signature of _make_signals")
    enc = args[0]
    body = strip_doc(fn.body)
    if len(body) != 7:
        raise Untranslatable("_make_signals: statements")
    s_sig, s_dlc, s_mux, s_len, s_guard, s_for, s_ret = body
    if ast.unparse(s_sig) != "signals = []" or ast.unparse(s_dlc) != "dlc = 0":
        raise Untranslatable("_make_signals: loop state")
    # mux_signals = [E for piece in encoding if E is not None]
    v = s_mux.value if isinstance(s_mux, ast.Assign) and len(s_mux.targets) == 1 and isinstance(s_mux.targets[0], ast.Name) else None
    if not (isinstance(v, ast.ListComp) and len(v.generators) == 1 and ast.unparse(v.generators[0].iter) == enc and isinstance(v.generators[0].target, ast.Name)
            and len(v.generators[0].ifs) == 1):
        raise Untranslatable(f"_make_signals: {ast.unparse(s_mux)}")
    x = v.generators[0].target.id
    cond = v.generators[0].ifs[0]
    if not (isinstance(cond, ast.Compare) and len(cond.ops) == 1 and isinstance(cond.ops[0], ast.IsNot) and ast.unparse(cond.left) == ast.unparse(v.elt)
            and isinstance(cond.comparators[0], ast.Constant) and cond.comparators[0].value is None):
        raise Untranslatable(f"_make_signals: filter {ast.unparse(cond)}")
    elt, t = Expr({x: "piece"}).expr(v.elt)
    if t != "ostring":
        raise Untranslatable("mux_signals elements")
    muxv = s_mux.targets[0].id
    out = [f"  let {muxv} := filter_some (map (fun {x} => {elt}) {enc}) in"]
    # msg_bitlength = encoding[-1].bitstart + encoding[-1].bitlength
    if not (isinstance(s_len, ast.Assign) and len(s_len.targets) == 1 and isinstance(s_len.targets[0], ast.Name)):
        raise Untranslatable(f"_make_signals: {ast.unparse(s_len)}")
    lenv = s_len.targets[0].id

    class Last(ast.NodeTransformer):
        def visit_Subscript(self, node):
            if ast.unparse(node) == f"{enc}[-1]":
                return ast.Name(id="last__", ctx=ast.Load())
            return self.generic_visit(node)
    le, lt = Expr({"last__": "piece"}).expr(Last().visit(s_len.value))
    if lt != "Z":
        raise Untranslatable("msg_bitlength")
    out.append(f"  pbind (py_last {enc}) (fun last__ =>\n  let {lenv} := {le} in")
    # the guard
    if not (isinstance(s_guard, ast.If) and not s_guard.orelse and len(s_guard.body) == 1 and isinstance(s_guard.body[0], ast.Raise)
            and isinstance(s_guard.body[0].exc, ast.Call) and ast.unparse(s_guard.body[0].exc.func) == "ValueError"):
        raise Untranslatable(f"_make_signals: {ast.unparse(s_guard)}")
    g, gt = Expr({lenv: "Z"}).expr(s_guard.test)
    if gt != "bool":
        raise Untranslatable("guard")
    out.append(f"  if {g} then PRaise PyValueError else")
    # the loop
    if not (isinstance(s_for, ast.For) and not s_for.orelse and isinstance(s_for.target, ast.Name) and ast.unparse(s_for.iter) == enc):
        raise Untranslatable(f"_make_signals: {ast.unparse(s_for)}")
    p = s_for.target.id
    ex = Expr({p: "piece", muxv: "list:string", lenv: "Z"})
    lets, appended, dlc_set = [], None, None
    for st in s_for.body:
        if isinstance(st, ast.Assign) and len(st.targets) == 1 and isinstance(st.targets[0], ast.Name) and st.targets[0].id not in ("signals", "dlc") \
                and appended is None:
            t_, ty = ex.expr(st.value)
            ex.env[st.targets[0].id] = ty
            lets.append(f"let {st.targets[0].id} := {t_} in")
        elif isinstance(st, ast.Expr) and isinstance(st.value, ast.Call) and ast.unparse(st.value.func) == "signals.append" and len(st.value.args) == 1 \
                and appended is None:
            appended = signal_record(ex, st.value.args[0])
        elif isinstance(st, ast.Assign) and ast.unparse(st.targets[0]) == "dlc" and appended is not None and dlc_set is None:
            dlc_set, ty = ex.expr(st.value)
            if ty != "Z":
                raise Untranslatable("dlc")
        else:
            raise Untranslatable(f"_make_signals loop: {ast.unparse(st)}")
    if appended is None or dlc_set is None:
        raise Untranslatable("_make_signals loop: no append / no dlc")
    out.append(f"  let '(signals, dlc) := fold_left (fun (acc : list dsignal * Z) {p} => let '(signals, dlc) := acc in\n      "
               + " ".join(lets) + f"\n      (signals ++ [{appended}], {dlc_set})) {enc} ([], 0%Z) in")
    if ast.unparse(s_ret) != "return (signals, dlc)":
        raise Untranslatable(f"_make_signals: {ast.unparse(s_ret)}")
    out.append("  POk (signals, dlc)).")
    return f"Definition py_make_signals ({enc} : list piece) : pyres (list dsignal * Z) :=\n" + "\n".join(out) + "\n"


def translate_write_dbc(fn):
    """write_dbc(fcp), statement by statement (every statement must be the expected kind, in this order)."""
    from py2coq_driver import decorators
    if decorators(fn) != ["catch"] or [a.arg for a in fn.args.args] != ["fcp"]:
        raise Untranslatable("signature / decorators of write_dbc")
    body = strip_doc(fn.body)
    if len(body) != 5:
        raise Untranslatable("write_dbc: statements")
    s_buses, s_enc, s_for, s_dbs, s_ret = body
    U = ast.unparse
    if U(s_buses) != "buses: Dict[str, Any] = defaultdict(lambda: {'messages': list(), 'nodes': list()})":
        raise Untranslatable(f"write_dbc: {U(s_buses)}")
    if U(s_enc) != "encoder = make_encoder('packed', fcp, PackedEncoderContext().with_unroll_arrays(True))":
        raise Untranslatable(f"write_dbc: {U(s_enc)}")
    if not (isinstance(s_for, ast.For) and not s_for.orelse and isinstance(s_for.target, ast.Name) and U(s_for.iter) == "fcp.get_matching_impls('can')"):
        raise Untranslatable(f"write_dbc: {U(s_for)}")
    im = s_for.target.id
    env = {}                 # local name -> kind
    lines = []
    closers = 0
    stmts = list(s_for.body)
    i = 0
    while i < len(stmts):
        st = stmts[i]
        src = U(st)
        if isinstance(st, ast.Assign) and len(st.targets) == 1 and isinstance(st.targets[0], ast.Name):
            n, v = st.targets[0].id, U(st.value)
            if v == f"{im}.get_field('bus', 'default').unwrap()":
                env[n] = "bus"; lines.append(f"let {n} := bus_of {im} in")
            elif v == f"encoder.generate({im})":
                env[n] = "encoding"
                lines.append(f"match generate true fcp encoder {im} with (encoder, None) => DRaise | (encoder, Some {n}) =>"); closers += 1
            elif v == f"{im}.fields.get('id')":
                env[n] = "oid"; lines.append(f"let {n} := impl_int {im} \"id\"%string in")
            elif v == f"{im}.fields.get('device')":
                env[n] = "odevice"; lines.append(f"let {n} := impl_str {im} \"device\"%string in")
            else:
                raise Untranslatable(f"write_dbc loop: {src}")
        elif isinstance(st, ast.Assign) and len(st.targets) == 1 and isinstance(st.targets[0], ast.Tuple) and [U(e) for e in st.targets[0].elts] == ["signals", "dlc"] \
                and isinstance(st.value, ast.Call) and U(st.value.func) == "_make_signals" and len(st.value.args) == 2 \
                and env.get(U(st.value.args[0])) == "encoding" and U(st.value.args[1]) == f"{im}.type":
            lines.append(f"dbind (dlift (py_make_signals {U(st.value.args[0])})) (fun sd => let '(signals, dlc) := sd in"); closers += 1
            env["signals"], env["dlc"] = "signals", "dlc"
        elif isinstance(st, ast.If) and not st.orelse and len(st.body) == 1 and isinstance(st.test, ast.Compare) and isinstance(st.test.left, ast.Name) \
                and env.get(st.test.left.id) == "oid" and U(st.test) == f"{st.test.left.id} is None" \
                and isinstance(st.body[0], ast.Return) and isinstance(st.body[0].value, ast.Call) and U(st.body[0].value.func) == "Err":
            x = st.test.left.id
            lines.append(f"match {x} with None => DErr | Some {x} =>"); closers += 1
            env[x] = "id"
        elif isinstance(st, ast.Expr) and isinstance(st.value, ast.Call) and isinstance(st.value.func, ast.Attribute) and st.value.func.attr == "append" \
                and isinstance(st.value.func.value, ast.Subscript) and U(st.value.func.value.slice) == "'messages'" \
                and isinstance(st.value.func.value.value, ast.Subscript) and U(st.value.func.value.value.value) == "buses" \
                and env.get(U(st.value.func.value.value.slice)) == "bus" and len(st.value.args) == 1:
            m = st.value.args[0]
            if not (isinstance(m, ast.Call) and U(m.func) == "CanMessage" and not m.args and [k.arg for k in m.keywords] == ["frame_id", "name", "length", "signals", "senders"]):
                raise Untranslatable(f"write_dbc loop: {U(m)}")
            kw = {k.arg: k.value for k in m.keywords}
            if not (env.get(U(kw["frame_id"])) == "id" and U(kw["name"]) == f"{im}.name" and U(kw["length"]) == "dlc" and U(kw["signals"]) == "signals"
                    and U(kw["senders"]) == "[]"):
                raise Untranslatable(f"write_dbc loop: CanMessage arguments {U(m)}")
            b = U(st.value.func.value.value.slice)
            lines.append(f"let buses := bus_append_message buses {b} {{| mid := {U(kw['frame_id'])}; mname := iname {im}; mdlc := dlc; msignals := signals |}} in")
        elif isinstance(st, ast.If) and not st.orelse and len(st.body) == 1 and isinstance(st.test, ast.BoolOp) and isinstance(st.test.op, ast.And) and len(st.test.values) == 2:
            a, b2 = st.test.values
            d = a.left.id if isinstance(a, ast.Compare) and isinstance(a.left, ast.Name) else None
            if not (env.get(d) == "odevice" and U(a) == f"{d} is not None" and isinstance(b2, ast.Compare) and len(b2.ops) == 1 and isinstance(b2.ops[0], ast.NotIn)
                    and U(b2.left) == d and isinstance(b2.comparators[0], ast.Subscript) and U(b2.comparators[0].slice) == "'nodes'"
                    and isinstance(b2.comparators[0].value, ast.Subscript) and U(b2.comparators[0].value.value) == "buses" and env.get(U(b2.comparators[0].value.slice)) == "bus"):
                raise Untranslatable(f"write_dbc loop: {src}")
            bn = U(b2.comparators[0].value.slice)
            if U(st.body[0]) != f"buses[{bn}]['nodes'].append({d})":
                raise Untranslatable(f"write_dbc loop: {U(st.body[0])}")
            lines.append(f"let buses := match {d} with None => buses | Some {d} => if negb (existsb (String.eqb {d}) (bus_nodes buses {bn})) then bus_append_node buses {bn} {d} else buses end in")
        else:
            raise Untranslatable(f"write_dbc loop: {src}")
        i += 1
    want_dbs = "dbs = [(bus, CanDatabase(messages=buses[bus]['messages'], nodes=[CanNode(name=node) for node in buses[bus]['nodes']])) for bus in buses]"
    if U(s_dbs) != want_dbs:
        raise Untranslatable(f"write_dbc: {U(s_dbs)}")
    if U(s_ret) != "return Ok([(bus, str(db.as_dbc_string(sort_signals='default'))) for bus, db in dbs])":
        raise Untranslatable(f"write_dbc: {U(s_ret)}")
    body_txt = "\n      ".join(lines) + "\n      DOk (buses, encoder)" + " end" * 0
    # close the matches / binds opened in the loop body, innermost first
    closing = ""
    for ln in reversed(lines):
        if ln.startswith("match "):
            closing += " end"
        elif ln.startswith("dbind "):
            closing += ")"
    return ("(* write_dbc(fcp): the schema and its bindings; the result is what is handed to cantools per bus - the messages and the node names, in\n"
            "   order - (the rendering as_dbc_string is cantools') *)\n"
            "Definition py_write_dbc (fcp : schema) (impls : list simpl) : dres (list (string * (list dmessage * list string))) :=\n"
            "  let buses := [] in\n"
            "  let encoder := encoder_init in\n"
            f"  dbind (dfor (filter (fun i => String.eqb (iprotocol i) \"can\"%string) impls) (buses, encoder) (fun st {im} => let '(buses, encoder) := st in\n      "
            + "\n      ".join(lines) + "\n      DOk (buses, encoder)" + closing + "))\n"
            "  (fun st => DOk (fst st)).\n")


def translate_repo(repo):
    src = open(os.path.join(repo, "plugins", "fcp_dbc", "fcp_dbc", "dbc_writer.py")).read()
    tree = ast.parse(src)
    return "\n".join(["(* GENERATED by harness/py2coq_dbc.py from plugins/fcp_dbc/fcp_dbc/dbc_writer.py (_make_signals, write_dbc) on every run; do not edit. *)",
                      "From Coq Require Import String ZArith List Bool.",
                      "From FcpV Require Import Schema.Types Layout.Packed Verifier.Checks Py.BufferLib Dbc.DbcModel Dbc.DbcLib.",
                      "Import ListNotations.", "",
                      translate_make_signals(find_def(tree.body, "_make_signals")),
                      translate_write_dbc(find_def(tree.body, "write_dbc"))])


if __name__ == "__main__":
    import sys
    print(translate_repo(sys.argv[1]))
