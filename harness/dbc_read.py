"""An own, small reader of the BO_/SG_/SG_MUL_VAL_/SIG_VALTYPE_ lines of a DBC text."""
import re

SG = re.compile(r'^ SG_ (\S+)(?: (M|m\d+M?))? : (\d+)\|(\d+)@([01])([+-]) \(([^,]+),([^)]+)\) \[[^\]]*\] "([^"]*)"')
BO = re.compile(r"^BO_ (\d+) (\S+): (\d+) ")
MUL = re.compile(r"^SG_MUL_VAL_ (\d+) (\S+) (\S+) ([^;]+);")
VT = re.compile(r"^SIG_VALTYPE_ (\d+) (\S+) : (\d);")


def read(text):
    msgs = {}
    cur = None
    for line in text.replace("\r\n", "\n").split("\n"):
        m = BO.match(line)
        if m:
            cur = {"id": int(m.group(1)) & 0x1FFFFFFF, "name": m.group(2), "dlc": int(m.group(3)), "signals": {}}
            msgs[cur["id"]] = cur
            continue
        m = SG.match(line)
        if m and cur is not None:
            name, mux, start, length, order, sign, scale, offset, unit = m.groups()
            cur["signals"][name] = {"name": name, "start": int(start), "len": int(length), "big": order == "0", "signed": sign == "-",
                                    "float": False, "unit": unit, "ismux": mux is not None and mux.endswith("M"),
                                    "muxids": None if (mux is None or mux == "M") else [int(mux.strip("mM"))]}
            continue
        m = MUL.match(line)
        if m:
            mid, sig, _, ranges = m.groups()
            ids = []
            for r in ranges.split(","):
                a, b = r.strip().split("-")
                ids += list(range(int(a), int(b) + 1))
            msgs[int(mid) & 0x1FFFFFFF]["signals"][sig]["muxids"] = ids
            continue
        m = VT.match(line)
        if m:
            mid, sig, k = m.groups()
            msgs[int(mid) & 0x1FFFFFFF]["signals"][sig]["float"] = k in ("1", "2")
    return msgs
