"""C08 — accepted schemas have no dangling or mis-kinded type references."""
import copy
import json

import common
import front_run
import printer
from props.c07 import finish


def type_slots(t, path=()):
    """All positions inside a type where a reference could sit."""
    out = [path]
    if t[0] in ("arr", "dyn", "opt"):
        out += type_slots(t[1], path + (1,))
    return out


def put(t, path, new):
    if not path:
        return new
    l = list(t)
    l[path[0]] = put(t[path[0]], path[1:], new)
    return tuple(l)


def refs_of(fcp, t):
    from fcp.specs import type as T
    if type(t) in (T.StructType, T.EnumType):
        return [t]
    if type(t) in (T.ArrayType, T.DynamicArrayType, T.OptionalType):
        return refs_of(fcp, t.underlying_type)
    return []


def run(chk):
    quick = chk.tier == "quick"
    n = 260 if quick else 6000
    broken = chk.proof_obligations(["Corr/Front.vo"])
    chk.coverage["rule"] = (
        "front-profile descriptions in which one field type, at a random nesting depth (inside arrays / dynamic arrays / optionals), is replaced by a "
        "reference that is undeclared, forward (declared later), to the enclosing struct itself, or valid (struct or enum, declared earlier, also "
        "through a module imported earlier), or that names a user type spelled like a built-in prefix (i2c_status, u8Mode, stream: the tree must hold that reference or the text must be rejected); accepted trees: FcpV2.get_type is called on every reference; rejected ones: the rendered diagnostic must "
        "name the type and the enclosing struct; all outcomes compared in Coq with the model; non-trivial = an injected reference")
    oracle = printer.float_oracle(None)
    cases, meta, fails = [], [], []
    work = common.scratch_dir("verif_c08_")
    try:
        for k in range(n):
            items = printer.gen_items(chk.rng, allow_services=False)
            files = {}
            mode = chk.rng.choice(["valid", "undeclared", "forward", "self", "via-module", "valid", "via-nested-modules", "diamond", "module-uses-outside-type", "binding-name-as-type",
                                   "builtin-prefixed-name"])
            prefixed = None
            structs = [i for i, it in enumerate(items) if it[0] == "struct"]
            expect_err = None
            if mode == "via-module":
                mod_items = printer.gen_items(chk.rng, prefix="M_", allow_services=False)
                files["lib/m.fcp"] = printer.render(printer.tokens(mod_items))
                mnames = [it[1] for it in mod_items if it[0] in ("struct", "enum")]
                pos = chk.rng.randrange(len(items) + 1)
                items.insert(pos, ("mod", ["lib", "m"]))
                later = [i for i, it in enumerate(items) if it[0] == "struct" and i > pos]
                earlier = [i for i, it in enumerate(items) if it[0] == "struct" and i < pos]
                if later and chk.rng.random() < 0.6:
                    si, name = chk.rng.choice(later), chk.rng.choice(mnames)        # imported earlier: fine
                elif earlier:
                    si, name = chk.rng.choice(earlier), chk.rng.choice(mnames)      # used before the import: error
                    expect_err = (name, items[si][1])
                else:
                    si, name = None, None
            elif mode == "binding-name-as-type":
                # the name a binding gives its struct (`impl can for S0 as S0Alt`) is not a type: a later field typed with it is an
                # undeclared reference
                aliases = [(i, it[3]) for i, it in enumerate(items) if it[0] == "impl" and it[3] is not None
                           and it[3] not in [x[1] for x in items if x[0] in ("struct", "enum")]]
                cand = [(a, n, j) for a, n in aliases for j, it in enumerate(items) if it[0] == "struct" and j > a]
                if cand:
                    _, name, si = chk.rng.choice(cand)
                    expect_err = (name, items[si][1])
                else:
                    si, name = None, None
            elif mode == "module-uses-outside-type":
                # a module refers to a type it neither declares nor imports, but which the importer declared before the mod line or a
                # sibling module imported earlier declares: a module has its own scope, so this is an error naming that type
                sib_items = printer.gen_items(chk.rng, prefix="SB_", allow_services=False)
                files["lib/sib.fcp"] = printer.render(printer.tokens(sib_items))
                outside = [it[1] for it in sib_items if it[0] in ("struct", "enum")]
                pos = chk.rng.randrange(len(items) + 1)
                outside += [it[1] for it in items[:pos] if it[0] in ("struct", "enum")]
                target = chk.rng.choice(outside)
                t = chk.rng.choice([("ref", target), ("arr", ("ref", target), 2), ("opt", ("ref", target)), ("dyn", ("opt", ("ref", target)))])
                files["lib/user.fcp"] = printer.render(printer.tokens([("struct", "USER_S", [{"name": "r", "id": 0, "type": t, "params": []}])]))
                items[pos:pos] = [("mod", ["lib", "sib"]), ("mod", ["lib", "user"])]
                expect_err = (target, "USER_S")
                si, name = None, None
            elif mode == "via-nested-modules":
                # main imports a/<base>.fcp and b/api.fcp; b/api.fcp imports b/<base>.fcp (same file name, other directory, other
                # declarations) and refers to its types; main refers to types of all three
                base = chk.rng.choice(["types", "m", "common"])
                a_items = printer.gen_items(chk.rng, prefix="MA_", allow_services=False)
                b_items = printer.gen_items(chk.rng, prefix="MB_", allow_services=False)
                bnames = [it[1] for it in b_items if it[0] in ("struct", "enum")]
                api_fields = [{"name": f"r{j}", "id": j, "type": chk.rng.choice([("ref", nm), ("arr", ("ref", nm), 2), ("opt", ("ref", nm))]), "params": []}
                              for j, nm in enumerate(chk.rng.sample(bnames, min(len(bnames), 2)))]
                api_items = [("mod", [base])] + ([("struct", "API_S", api_fields)] if api_fields else [])
                files[f"a/{base}.fcp"] = printer.render(printer.tokens(a_items))
                files[f"b/{base}.fcp"] = printer.render(printer.tokens(b_items))
                files["b/api.fcp"] = printer.render(printer.tokens(api_items))
                imports = [("mod", ["a", base]), ("mod", ["b", "api"])]
                chk.rng.shuffle(imports)
                items[0:0] = imports
                mnames = [it[1] for it in a_items + b_items if it[0] in ("struct", "enum")] + (["API_S"] if api_fields else [])
                cand = [i for i, it in enumerate(items) if it[0] == "struct"]
                si, name = (chk.rng.choice(cand), chk.rng.choice(mnames)) if cand and mnames else (None, None)
            elif mode == "diamond":
                # main imports d/left.fcp and d/right.fcp, both import d/common.fcp and refer to its types: the shared module is merged once
                # per import path.  Whatever the front end makes of the repeated declarations, a tree it accepts holds a declaration for
                # every reference
                c_items = printer.gen_items(chk.rng, prefix="DC_", allow_services=False)
                cnames = [it[1] for it in c_items if it[0] in ("struct", "enum")]
                def user(tag):
                    flds = [{"name": f"r{j}", "id": j, "type": chk.rng.choice([("ref", nm), ("arr", ("ref", nm), 2), ("opt", ("ref", nm))]), "params": []}
                            for j, nm in enumerate(chk.rng.sample(cnames, min(len(cnames), 2)))]
                    return [("mod", ["common"])] + ([("struct", f"D{tag}_S", flds)] if flds else [])
                files["d/common.fcp"] = printer.render(printer.tokens(c_items))
                files["d/left.fcp"] = printer.render(printer.tokens(user("L")))
                files["d/right.fcp"] = printer.render(printer.tokens(user("R")))
                imports = [("mod", ["d", "left"]), ("mod", ["d", "right"])]
                if chk.rng.random() < 0.3:
                    imports.append(("mod", ["d", "common"]))
                chk.rng.shuffle(imports)
                items[0:0] = imports
                mnames = list(cnames)
                cand = [i for i, it in enumerate(items) if it[0] == "struct"]
                si, name = (chk.rng.choice(cand), chk.rng.choice(mnames)) if cand and mnames else (None, None)
            elif mode == "builtin-prefixed-name" and structs:
                # a user type whose name begins like a built-in one (i2c_status, u8Mode, stream): the lexer may split it; whatever the
                # front end does with it, an ACCEPTED tree must hold a reference to that type (of the right kind) - or the type must be
                # reported; it must not silently become i2 / u8 / str
                si = chk.rng.choice(structs)
                name = chk.rng.choice(["i2c_status", "u8Mode", "stream", "f32x", "u16_t", "i64Counter", "f64_gain"])
                prefixed = (name, items[si][1], chk.rng.random() < 0.6)
                if prefixed[2]:
                    items.insert(si, ("enum", name, [("V0", 0), ("V1", 1)]) if chk.rng.random() < 0.5 else
                                 ("struct", name, [{"name": "x", "id": 0, "type": ("u", 8), "params": []}]))
                    si += 1
            elif structs:
                si = chk.rng.choice(structs)
                if mode == "undeclared":
                    name = chk.rng.choice(["Nope", "Missing_t", "S99"])
                    declared = [it[1] for it in items if it[0] in ("struct", "enum")]
                    if chk.rng.random() < 0.5:
                        # a name that differs from a declared one only in spelling style (case, underscores): still undeclared
                        import re as _re
                        base = chk.rng.choice(declared)
                        near = [base.lower(), base.upper(), base.replace("_", ""), base[0].lower() + base[1:], base[0] + "_" + base[1:],
                                _re.sub(r"(?<!^)(?=[A-Z])", "_", base).lower()]
                        near = [x for x in near if x not in declared and x and not x[0].isdigit()
                                and not _re.match(r"(str|f32|f64|[ui]\d)", x)]          # (not the built-in prefix shapes: their own mode)
                        if near:
                            name = chk.rng.choice(near)
                    expect_err = (name, items[si][1])
                elif mode == "self":
                    name = items[si][1]; expect_err = (name, items[si][1])
                elif mode == "forward":
                    later = [it[1] for it in items[si + 1:] if it[0] in ("struct", "enum")]
                    if later:
                        name = chk.rng.choice(later); expect_err = (name, items[si][1])
                    else:
                        name = None
                else:
                    earlier = [it[1] for it in items[:si] if it[0] in ("struct", "enum")]
                    name = chk.rng.choice(earlier) if earlier else None
            else:
                si, name = None, None
            if si is not None and name is not None:
                it = items[si]
                fields = copy.deepcopy(it[2])
                f = chk.rng.choice(fields)
                slot = chk.rng.choice(type_slots(f["type"])) if prefixed is None else ()
                if prefixed is not None:
                    prefixed = prefixed + (f["name"],)
                f["type"] = put(f["type"], slot, ("ref", name))
                items[si] = ("struct", it[1], fields)
                chk.hist("depth", len(slot))
            files["main.fcp"] = printer.render(printer.tokens(items, chk.rng), chk.rng)
            out = front_run.run_front(files, workdir=(work + f"/{k}") if len(files) > 1 else None)
            cases.append(front_run.case_term(files, "main.fcp", out, oracle)); meta.append(files["main.fcp"])
            chk.count(files["main.fcp"], nontrivial=name is not None, sample={"source": files["main.fcp"][:500], "mode": mode, "outcome": out[0]})
            chk.hist("mode", mode); chk.hist("outcome", out[0])
            if prefixed is not None:
                if out[0] == "raise":
                    fails.append({"kind": "exception-escaped", "source": files["main.fcp"], "files": dict(files), "detail": str(out[1])[:300]})
                elif out[0] == "ok":
                    from fcp.specs import type as T0
                    fld = next((x for st in out[1].structs if st.name == prefixed[1] for x in st.fields if x.name == prefixed[3]), None)
                    if fld is None or type(fld.type) not in (T0.StructType, T0.EnumType) or fld.type.name != prefixed[0]:
                        fails.append({"kind": "reference-to-a-user-type-silently-became-a-built-in-type", "source": files["main.fcp"], "files": dict(files),
                                      "type": prefixed[0], "declared": prefixed[2], "struct": prefixed[1], "field": prefixed[3],
                                      "field_type_in_the_tree": None if fld is None else repr(fld.type)})
            elif expect_err is not None:
                if out[0] != "err":
                    fails.append({"kind": "dangling-reference-accepted" if out[0] == "ok" else "exception-escaped", "source": files["main.fcp"], "files": dict(files),
                                  "type": expect_err[0], "struct": expect_err[1], "detail": str(out[1])[:300]})
                elif expect_err[0] not in out[1] or expect_err[1] not in out[1]:
                    fails.append({"kind": "error-does-not-name-type-and-struct", "source": files["main.fcp"], "files": dict(files), "type": expect_err[0],
                                  "struct": expect_err[1], "diagnostic": out[1]})
            elif out[0] != "ok":
                fails.append({"kind": "valid-schema-rejected", "source": files["main.fcp"], "files": dict(files), "mode": mode, "detail": str(out[1])[:400]})
            if out[0] == "ok":
                fcp = out[1]
                from fcp.specs import type as T
                from fcp.specs.struct import Struct
                from fcp.specs.enum import Enum
                seen = [e.name for e in fcp.enums]
                for s in fcp.structs:
                    for fld in s.fields:
                        for r in refs_of(fcp, fld.type):
                            tgt = fcp.get_type(r)
                            good = tgt.is_some() and ((type(r) is T.StructType and isinstance(tgt.unwrap(), Struct)) or
                                                      (type(r) is T.EnumType and isinstance(tgt.unwrap(), Enum)))
                            good = good and r.name in seen
                            if not good:
                                fails.append({"kind": "unresolved-or-miskinded-reference-in-accepted-tree", "source": files["main.fcp"], "files": dict(files),
                                              "struct": s.name, "field": fld.name, "reference": r.name})
                    seen.append(s.name)   # structs in elaboration order (imports merged in place); enums: declared anywhere
    finally:
        import shutil
        shutil.rmtree(work, ignore_errors=True)
    chk.log(f"{len(cases)} sources; implementation-side failures: {len(fails)}")
    chk.coverage["traces_validated_against_impl"] = len(cases)
    mism, dom = [], []
    if broken is None:
        try:
            mism, dom = front_run.judge_cases(cases)
        except common.CoqError as e:
            broken = f"correspondence could not be evaluated: {e}"
    chk.coverage["model_out_of_domain"] = len(dom)
    finish(chk, fails, mism, meta, broken, "Props/C08.v")
    chk.assumptions += ["as C07; the diagnostic is str(err) plus Logger.error(err); 'names X' = X occurs in that text"]


def replay(chk, rep):
    from props import c07
    return c07.replay(chk, rep)
