"""C16 — the Python decoder detects truncated input instead of fabricating values."""
import json
import time

import common
import serde_run
import to_coq
from props.c01 import report


def has_zero_array(t):
    if t[0] == "arr":
        return t[2] == 0 or has_zero_array(t[1])
    if t[0] in ("dyn", "opt"):
        return has_zero_array(t[1])
    return False


def contains_nan(x):
    if isinstance(x, float):
        return x != x
    if isinstance(x, dict):
        return any(contains_nan(v) for v in x.values())
    if isinstance(x, list):
        return any(contains_nan(v) for v in x)
    return False


def run(chk):
    from fcp.specs.type import StructType
    quick = chk.tier == "quick"
    nsch, nval = (60, 5) if quick else (700, 8)
    broken = chk.proof_obligations(["Corr/Serde.vo"])
    chk.coverage["rule"] = (
        "every byte-boundary truncation of encodings of boundary-biased values over serde-profile schemas (array sizes >= 1), "
        "plus messages ending in 1-3 optional fields after whole-byte fields cut at every byte, length prefixes overwritten with {len+1, 2^16, 2^31, 2^32-1} and single-byte corruptions; each decode outcome "
        "(value / overrun / bad ascii) is compared with the Coq model and the truncations must raise; "
        "non-trivial = truncation point strictly inside the encoding; distinct = (schema, struct, bytes)")
    cases, meta, fails = [], [], []
    slowest = 0.0
    schemas = []
    while len(schemas) < nsch:
        s = serde_run.make_schemas(chk, 1)[0]
        if any(has_zero_array(f["type"]) for st in s[0]["structs"] for f in st["fields"]):
            continue
        schemas.append(s)

    def dec(text, fcp, sterm, name, data, kind, must_raise, v=None):
        nonlocal slowest
        t0 = time.time()
        d, e = serde_run.real_decode(fcp, name, data)
        dt = time.time() - t0
        slowest = max(slowest, dt)
        if e is None and contains_nan(d):
            # a NaN payload cannot be read back bit-exactly from a Python float (signalling NaNs are quietened
            # by the f32->f64 conversion): outside the model, counted and skipped
            chk.hist("outcome", "skipped-nan")
            return
        cases.append(serde_run.dec_case(sterm, fcp, name, data, d, e))
        meta.append((text, name, v, kind, data, repr(e) if e else d))
        chk.hist("outcome", "value" if e is None else serde_run.classify(e))
        if must_raise and e is None:
            fails.append({"kind": kind, "schema": text, "struct": name, "value": v, "bytes": data, "decoded": d,
                          "why": "decode returned a value for input that is shorter than what it announces"})
        elif isinstance(e, serde_run.ImplTimeout) or dt > 2.0:
            fails.append({"kind": kind + "-unbounded-work", "schema": text, "struct": name, "value": v, "bytes": data,
                          "seconds": dt, "why": "decode did not reject the short input promptly"})
        elif must_raise and serde_run.classify(e) == "OOther":
            fails.append({"kind": kind + "-wrong-error", "schema": text, "struct": name, "value": v, "bytes": data, "error": repr(e),
                          "why": "truncated input must raise the decoder's own overrun error"})

    for desc, text, fcp, sterm in schemas:
        for _ in range(nval):
            s = chk.rng.choice(fcp.structs)
            v = to_coq.gen_struct_value(chk.rng, fcp, s.name)
            b, e1 = serde_run.real_encode(fcp, s.name, v)
            if b is None:
                fails.append({"kind": "encode-raised", "schema": text, "struct": s.name, "value": v, "error": repr(e1)})
                continue
            ks = list(range(len(b)))
            if len(ks) > 24:
                ks = sorted(set(chk.rng.sample(ks, 20) + [0, 1, len(b) - 1, len(b) - 2]))
            for k in ks:
                dec(text, fcp, sterm, s.name, b[:k], "truncation", True, v)
                chk.count((text, s.name, tuple(b[:k])), nontrivial=k > 0, sample={"schema": text, "struct": s.name, "bytes": b[:k], "of": len(b)})
            # single byte corruption: any outcome, but model and code must agree and stay bounded
            if b:
                c = list(b)
                c[chk.rng.randrange(len(c))] = chk.rng.randrange(256)
                dec(text, fcp, sterm, s.name, c, "corruption", False, v)
                chk.count((text, s.name, tuple(c)), sample=None)
    # messages whose last fields are optional (the shape a schema takes when fields are appended over time), everything before them in
    # whole bytes: cutting the encoding exactly where an optional's flag byte should start leaves a byte string that announces nothing
    # about that field, and it must be rejected like any other truncation
    for q in range(12 if quick else 150):
        nlead = chk.rng.randint(0, 3)
        lead = [chk.rng.choice(["u8", "u16", "i32", "str", "[u8, 2]", "f32", "[u16]"]) for _ in range(nlead)]
        tail = [f"Optional[{chk.rng.choice(['u8', 'u16', 'str', 'i64', '[u8]', 'f64'])}]" for _ in range(chk.rng.randint(1, 3))]
        ev_text = 'version: "3"\nstruct Ev { ' + " ".join(f"f{j} @{j}: {t}," for j, t in enumerate(lead + tail)) + " }\n"
        ev = serde_run.parse(ev_text).unwrap()
        ev_term = to_coq.schema(ev)
        for _ in range(3):
            v = to_coq.gen_struct_value(chk.rng, ev, "Ev")
            b, _e = serde_run.real_encode(ev, "Ev", v)
            if b is None:
                fails.append({"kind": "encode-raised", "schema": ev_text, "struct": "Ev", "value": v, "error": repr(_e)})
                continue
            for k in range(len(b)):
                dec(ev_text, ev, ev_term, "Ev", b[:k], "truncation", True, v)
                chk.count((ev_text, "Ev", tuple(b[:k])), nontrivial=k > 0, sample={"schema": ev_text, "struct": "Ev", "bytes": b[:k], "of": len(b)})
    # length prefixes announcing more than there is: first field (lowest id) is a string / dynamic array
    huge_text = 'version: "3"\nstruct P { s @0: str, n @1: u8, }\nstruct Q { a @0: [u16], n @1: u8, }\nstruct R { n @0: u3, a @1: [Optional[u8]], }\n'
    fcp = serde_run.parse(huge_text).unwrap()
    sterm = to_coq.schema(fcp)
    for _ in range(40 if quick else 400):
        name = chk.rng.choice(["P", "Q"])
        v = to_coq.gen_struct_value(chk.rng, fcp, name)
        b, _ = serde_run.real_encode(fcp, name, v)
        n = len(v["s"]) if name == "P" else len(v["a"])
        for cnt in (n + 1, 2 ** 16, 2 ** 31, 2 ** 32 - 1):
            c = list(cnt.to_bytes(4, "little")) + b[4:]
            dec(huge_text, fcp, sterm, name, c, "short-for-its-prefix", True, v)
            chk.count((name, tuple(c)), sample={"struct": name, "bytes": c[:12], "announced": cnt})
    chk.coverage["slowest_decode_s"] = round(slowest, 4)
    chk.log(f"{len(cases)} decodes; implementation-side failures: {len(fails)}; slowest {slowest:.3f}s")
    chk.coverage["traces_validated_against_impl"] = len(cases)
    mism, translated, broken = serde_run.run_serde_cases(chk, cases, broken)
    report(chk, fails, mism, meta, broken, "Corr.Serde.check_case (model Py.PySerde)", "Props/C16.v", translated=translated)
    chk.assumptions += [
        "elapsed time is observed (each decode must finish within 2 s), not modelled; the model's loop bound is the capped count of Corr.Serde.gdec_capped",
        "array sizes >= 1 and integer widths >= 1 (element types of positive width): a dynamic array of zero-width elements is outside the model",
    ]


def replay(chk, rep):
    print(json.dumps(rep, indent=1, default=repr)[:3000])
    if "schema" not in rep or "bytes" not in rep:
        return 1
    fcp = serde_run.parse(rep["schema"]).unwrap()
    d, e = serde_run.real_decode(fcp, rep["struct"], rep["bytes"])
    print("decode ->", d, repr(e))
    print("model  ->", common.eval_terms("Serde", ["model_of " + serde_run.dec_case(to_coq.schema(fcp), fcp, rep["struct"], rep["bytes"], d, e)]))
    return 0 if e is not None else 1
