"""C06 — the generated C CAN code packs and unpacks frames per the packed layout."""
import json
import os
import shutil
import struct
import subprocess
from concurrent.futures import ThreadPoolExecutor

import common
import gen_schema
import serde_run
import to_coq
from common import cz, clist, cpair

CTYPE = {8: "8", 16: "16", 32: "32", 64: "64"}


def c06_desc(rng, odd, big=False):
    """One flat CAN message (1..8 signals, any order of types, offsets up to 64 bits); `odd` admits widths outside 8/16/32/64;
    `big`: no odd widths, a random subset of the signals declared big-endian (signal blocks)."""
    odd = odd and not big
    # the largest enumerator decides the width: just below, at and just above powers of two, also beyond one byte
    top = rng.choice([2, 3, 5, 9, 17, 200, 255, 256, 256, 257, 300, 512, 512, 65536])
    packed = 1 if top <= 1 else top.bit_length()
    enum_w = 1 << (packed - 1).bit_length()
    # (one schema in seven names the enum with a leading i: see the finding c-enum-name-i)
    ename = rng.choice(["Mode"] * 6 + ["ignition", "idle_state", "iMode"][:1 + rng.randrange(3)][-1:])
    desc = {"enums": [{"name": ename, "vals": [("Off", 0), ("On", 1), ("Err", top)]}], "structs": [], "impls": []}
    fields, total = [], 0
    for j in range(rng.randint(1, 8)):
        r = rng.random()
        if r < 0.12:
            t, w = ("f32",), 32
        elif r < 0.17:
            t, w = ("f64",), 64
        elif r < 0.38:
            t, w = ("enum", ename), enum_w
        else:
            w = rng.choice([8, 8, 16, 32, 64]) if not (odd and rng.random() < 0.5) else rng.choice([1, 3, 4, 7, 12, 24, 33])
            t = (rng.choice(["u", "i"]), w)
        if big and t[0] in ("u", "i"):
            w = rng.choice([8, 16, 16, 32, 32, 64])
            t = (rng.choice(["u", "i", "i"]), w)
        if total + w > 64:
            continue
        fields.append({"name": f"s{j}", "id": j, "type": t}); total += w
    if not fields:
        fields = [{"name": "s0", "id": 0, "type": ("u", 8)}]
    if rng.random() < 0.3:
        rng.shuffle(fields)
    # sibling messages on the same and on another device, before and after the one the driver exercises: what is generated for Msg
    # must not depend on its position among the device's messages
    mid = rng.choice([0, 1, 2047, rng.randrange(2048)])
    sib = []
    for q in range(rng.choice([0, 0, 1, 2, 3])):
        sf = [{"name": f"o{j}", "id": j, "type": rng.choice([("u", 8), ("u", 16), ("i", 32), ("enum", ename), ("f32",)] if not ename.startswith("i") else [("u", 8), ("u", 16), ("i", 32), ("f32",)])} for j in range(rng.randint(1, 3))]
        sib.append(({"name": f"Oth{q}", "fields": sf},
                    {"protocol": "can", "type": f"Oth{q}", "name": f"Oth{q}", "signals": [],
                     "fields": [("id", (mid + 1 + q) % 2048), ("device", rng.choice(["ecu", "ecu", "dash"]))] + ([("period", rng.choice([10, 100]))] if rng.random() < 0.3 else [])}))
    cut = rng.randint(0, len(sib))
    single = big and rng.random() < 0.5
    if single:
        fields = fields[:1]
    main = ({"name": "Msg", "fields": fields},
            {"protocol": "can", "type": "Msg", "name": "Msg", "fields": [("id", mid), ("device", "ecu")],
             # (the spelling the C generator reads, as in the repository's own C test 005_big_endian; half of the time the message has
             # one signal only, see the finding c-big-endian-multi-signal)
             "signals": ([{"name": f["name"], "fields": [("endianness", "big")]} for f in fields if single or rng.random() < 0.6] if big else [])})
    for st, im in sib[:cut] + [main] + sib[cut:]:
        desc["structs"].append(st)
        desc["impls"].append(im)
    return desc


def driver_source(pieces):
    """A main() that fills CanMsgMsg from integers on stdin, encodes, prints the frame, decodes it, prints the members."""
    from fcp.specs import type as T
    rd, wr = [], []
    for p in pieces:
        n = p.name
        if type(p.type) is T.FloatType:
            rd.append(f'{{ unsigned long long x; scanf("%llu", &x); uint32_t b = (uint32_t)x; memcpy(&m.{n}, &b, 4); }}')
            wr.append(f'{{ uint32_t b; memcpy(&b, &d.{n}, 4); printf(" %llu", (unsigned long long)b); }}')
        elif type(p.type) is T.DoubleType:
            rd.append(f'{{ unsigned long long x; scanf("%llu", &x); uint64_t b = x; memcpy(&m.{n}, &b, 8); }}')
            wr.append(f'{{ uint64_t b; memcpy(&b, &d.{n}, 8); printf(" %llu", (unsigned long long)b); }}')
        elif type(p.type) is T.SignedType:
            rd.append(f'{{ long long x; scanf("%lld", &x); m.{n} = x; }}')
            wr.append(f'printf(" %lld", (long long)d.{n});')
        else:
            rd.append(f'{{ unsigned long long x; scanf("%llu", &x); m.{n} = x; }}')
            wr.append(f'printf(" %llu", (unsigned long long)d.{n});')
    return ('#include "ecu_can.h"\n#include <stdio.h>\n#include <string.h>\nint main(void) { int more = 1; while (more) { CanMsgMsg m; memset(&m, 0, sizeof m);\n'
            'int c = getchar(); if (c == EOF) break; ungetc(c, stdin);\n' + "\n".join(rd) +
            '\nCanFrame f = can_encode_msg_msg(&m); uint64_t w; memcpy(&w, f.data, 8); printf("%u %u %llu", (unsigned)f.id, (unsigned)f.dlc, (unsigned long long)w);\n'
            'CanMsgMsg d = can_decode_msg_msg(&f);\n' + "\n".join(wr) + '\nprintf("\\n"); int ch; while ((ch = getchar()) != EOF && ch != \'\\n\') {} if (ch == EOF) more = 0; } return 0; }\n')


def build_one(args):
    text, outdir = args
    from fcp_can_c import Generator
    from fcp.encoding import make_encoder, PackedEncoderContext
    fcp = serde_run.parse(text).unwrap()
    im = next(i for i in fcp.get_matching_impls("can") if i.name == "Msg")
    pieces = make_encoder("packed", fcp, PackedEncoderContext().with_unroll_arrays(True)).generate(im)
    os.makedirs(outdir, exist_ok=True)
    try:
        files = Generator().generate(fcp, {"output": outdir})
    except Exception as e:
        return fcp, im, pieces, None, ("raise", repr(e))
    for f in files:
        with open(f["path"], "w") as fh:
            fh.write(str(f["contents"]))
    with open(os.path.join(outdir, "driver.c"), "w") as fh:
        fh.write(driver_source(pieces))
    exe = os.path.join(outdir, "drv")
    r = subprocess.run(["gcc", "-O1", "-fno-strict-aliasing", "-w", "-o", exe, "driver.c", "ecu_can.c", "can_signal_parser.c", "-lm"],
                       cwd=outdir, capture_output=True, text=True, timeout=120)
    if r.returncode != 0:
        return fcp, im, pieces, None, ("nocompile", r.stderr[-600:])
    return fcp, im, pieces, exe, None


enum_values = {}


def gen_member(rng, p):
    from fcp.specs import type as T
    if type(p.type) is T.FloatType:
        b = rng.choice([0x3FC00000, 0xBF800000, 0, 0x7F7FFFFF, rng.getrandbits(32)])
        return b if (b >> 23) & 0xFF != 0xFF else b & 0x807FFFFF | 0x3F000000      # no NaN / infinity: the float unit may quieten payloads
    if type(p.type) is T.DoubleType:
        b = rng.choice([0x3FF8000000000000, 0, 1 << 63, rng.getrandbits(64)])
        return b if (b >> 52) & 0x7FF != 0x7FF else b & 0x800FFFFFFFFFFFFF | 0x3FE0000000000000
    if type(p.type) is T.SignedType:
        n = p.type.get_length()
        return rng.choice([-(1 << (n - 1)), -1, 0, 1, (1 << (n - 1)) - 1, rng.randint(-(1 << (n - 1)), (1 << (n - 1)) - 1)])
    if type(p.type) is T.EnumType:
        # the enumerators themselves (the largest one decides the width), and now and then any pattern of the field's width
        top = (1 << p.bitlength) - 1
        return rng.choice([0, 1, 2] + list(enum_values.get(p.type.name, [])) * 2 + [rng.randint(0, top)])
    n = p.type.get_length()
    return rng.choice([0, 1, (1 << n) - 1, rng.randrange(1 << n)])


def is_big(p):
    """The signal option the C generator reads (own reading of the signal block, not the generator's)."""
    return p.extended_data.get("endianness") == "big"


def reference_word(pieces, vals):
    w = 0
    for p, v in zip(pieces, vals):
        x = v & ((1 << p.bitlength) - 1)
        if is_big(p) and p.bitlength % 8 == 0:                         # a whole-byte leaf: its bytes in the opposite order
            x = int.from_bytes(x.to_bytes(p.bitlength // 8, "big"), "little")
        w |= x << p.bitstart
    return w


def run(chk):
    from fcp.specs import type as T
    quick = chk.tier == "quick"
    nsch, nval = (48, 30) if quick else (1200, 80)
    broken = chk.proof_obligations(["Corr/CanC.vo"])
    chk.coverage["rule"] = (
        "one flat CAN message per schema (with up to three sibling messages on the same or another device before and after it, frame ids incl. 0 and 2047): 1-8 signals in any order of types (8/16/32/64-bit integers, f32, f64, an enum whose largest enumerator lies around a power of two up to 65536, exercised with its own enumerators; every fifth schema: signals of standard widths of which a random subset is declared big-endian (endianness: big), half of these messages with one signal only; in a third of the schemas "
        "also widths outside 8/16/32/64), offsets up to 64 bits; the real generator's C is compiled with gcc -O1 -fno-strict-aliasing against a "
        "generated driver that fills the message struct, calls can_encode_msg and can_decode_msg; frame (id, dlc, data) and decoded members are "
        "compared in Coq with the model; non-trivial = >= 2 signals; distinct = (schema, values)")
    work = common.scratch_dir("verif_c06_")
    cases, meta, fails = [], [], []
    try:
        jobs = []
        for k in range(nsch):
            desc = c06_desc(chk.rng, odd=(k % 3 == 2), big=(k % 5 == 4))
            jobs.append((gen_schema.render(desc), f"{work}/m{k}"))
        built = [build_one(j) for j in jobs]     # the generator is not thread safe; gcc is quick
        chk.coverage["programs"] = sum(1 for b in built if b[3])
        for (text, outdir), (fcp, im, pieces, exe, err) in zip(jobs, built):
            ref = serde_run.parse(text).unwrap()      # the model is given the schema as written, not the object the generator held
            sterm, iterm = to_coq.schema(ref), to_coq.impl(next(i for i in ref.get_matching_impls("can") if i.name == "Msg"))
            odd_u = any(type(p.type) is T.UnsignedType and p.type.get_length() not in (8, 16, 32, 64) for p in pieces)
            odd_i = any(type(p.type) is T.SignedType and p.type.get_length() not in (8, 16, 32, 64) for p in pieces)
            if exe is None:
                obs = "OGenRaise" if err[0] == "raise" else "ONoCompile"
                cases.append(cpair(sterm, iterm, "[]", obs)); meta.append((text, None))
                chk.count((text, obs), nontrivial=len(pieces) >= 2, sample={"schema": text, "outcome": obs})
                chk.hist("outcome", obs)
                enum_i = any(type(p.type) is T.EnumType and p.type.name.startswith("i") for p in pieces)
                cls = "c-enum-name-i" if (err[0] == "raise" and enum_i and "KeyError('i')" in err[1]) else "c-signed-odd-width" if (err[0] == "raise" and odd_i) else ("c-unsigned-odd-width" if (err[0] == "nocompile" and odd_u) else None)
                if cls and chk.find_known(cls):
                    chk.known_finding(cls, {"c-enum-name-i": "an enum whose name begins with the letter i counts as a signed type (is_signed looks at the first letter of the type name) and makes the C generator raise KeyError('i')",
                                            "c-signed-odd-width": "a signed field whose width is not 8/16/32/64 makes the C generator raise KeyError('i')",
                                            "c-unsigned-odd-width": "an unsigned field whose width is not 8/16/32/64 is emitted with the non-existent C type u<N>: the generated code does not compile"}[cls])
                else:
                    fails.append({"kind": "generated-c-" + ("generator-raised" if err[0] == "raise" else "does-not-compile"), "schema": text, "error": err[1][-300:]})
                continue
            chk.hist("outcome", "runs")
            enum_values.clear()
            enum_values.update({e.name: [x.value for x in e.enumeration] for e in ref.enums})
            lines, allvals = [], []
            for _ in range(nval):
                vals = [gen_member(chk.rng, p) for p in pieces]
                allvals.append(vals)
                lines.append(" ".join(str(v) for v in vals))
            r = subprocess.run([exe], input="\n".join(lines) + "\n", capture_output=True, text=True, timeout=60)
            outs = [l for l in r.stdout.split("\n") if l]
            if len(outs) != len(allvals):
                raise RuntimeError(f"driver answered {len(outs)} lines for {len(allvals)} inputs: {r.stderr[-200:]}")
            total = pieces[-1].bitstart + pieces[-1].bitlength
            for vals, line in zip(allvals, outs):
                nums = [int(x) for x in line.split()]
                fid, dlc, word, dec = nums[0], nums[1], nums[2], nums[3:]
                # the decode path computes 1.0 * x + 0.0, which turns -0.0 into +0.0: the same value (IEEE equality), another bit
                # pattern. Decoded zeros are compared as values, i.e. given the sign of the zero that was sent.
                for q, (p, v) in enumerate(zip(pieces, vals)):
                    zeros = (0, 1 << 31) if type(p.type) is T.FloatType else ((0, 1 << 63) if type(p.type) is T.DoubleType else ())
                    if q < len(dec) and v in zeros and dec[q] in zeros:
                        dec[q] = v
                # (big-endian signals are modelled as the C runtime treats them - CanC/CModel.v c_swap, swap after the shift - so the model
                # is compared on every message; what the property demands of them is the predicate below)
                cases.append(cpair(sterm, iterm, clist(cz(v) for v in vals), f"(ORun {cz(fid)} {cz(dlc)} {cz(word)} {clist(cz(v) for v in dec)})"))
                meta.append((text, vals))
                if any(is_big(p) for p in pieces):
                    chk.hist("messages_with_big_endian_signals", 1)
                chk.count((text, tuple(vals)), nontrivial=len(pieces) >= 2, sample={"schema": text, "values": vals, "frame": [fid, dlc, word], "decoded": dec})
                # the property's predicate on the implementation
                f32_off = any(type(p.type) is T.FloatType and p.bitstart != 0 for p in pieces)
                # (with a big-endian signal the bytes past the DLC may hold the sign extension of a swapped negative value: they are not data
                # bytes of the frame, so the comparison is over the DLC's bytes; without one the whole 64-bit word is compared, as in the model)
                dmask = (1 << (8 * -(-total // 8))) - 1 if any(is_big(p) for p in pieces) else (1 << 64) - 1
                ok = (fid == im.fields["id"] and dlc == -(-total // 8) and word & dmask == reference_word(pieces, vals) and dec == vals)
                big_multi = len(pieces) > 1 and any(is_big(p) for p in pieces)
                if not ok:
                    if big_multi and chk.find_known("c-big-endian-multi-signal"):
                        chk.known_finding("c-big-endian-multi-signal", "a big-endian signal in a message of several signals: the encoder byte-swaps the 64-bit bitfield after "
                                          "set_bitfield has shifted it into place (lost at a non-zero offset), and a negative signed one is sign-extended over the signals after it")
                    elif f32_off and chk.find_known("c-f32-offset"):
                        chk.known_finding("c-f32-offset", "an f32 signal at a non-zero bit offset is shifted inside a 32-bit word by can_encode_signal_from_float and loses its high bits")
                    else:
                        fails.append({"kind": "c-frame-or-decode-differs-from-layout-packing", "schema": text, "values": vals, "frame": [fid, dlc, word],
                                      "expected_word": reference_word(pieces, vals), "decoded": dec})
    finally:
        shutil.rmtree(work, ignore_errors=True)
    chk.log(f"{len(cases)} cases over {chk.coverage.get('programs')} compiled messages; implementation-side failures: {len(fails)}")
    chk.coverage["traces_validated_against_impl"] = len(cases)
    mism = []
    if broken is None:
        try:
            mism = common.run_cases("CanC", cases, shard=200)
        except common.CoqError as e:
            broken = f"correspondence could not be evaluated: {e}"
    fails.sort(key=lambda f: len(json.dumps(f, default=repr)))
    for f in fails[:3]:
        chk.violation(f)
    if not fails:
        for i in mism[:3]:
            chk.violation({"kind": "model-vs-implementation", "correspondence": "Corr.CanC.check_case (model CanC.CModel)", "schema": meta[i][0], "values": meta[i][1]},
                          no_failing_input=True)
        if not mism and broken is not None:
            chk.violation({"kind": "proof-obligation", "broken": broken, "theorem": "Props/C06.v"}, no_failing_input=True)
    chk.assumptions += ["gcc -O1 -fno-strict-aliasing, little-endian host; the type punning through uint64_t* and the float unit (1.0f * x + -0.0f taken as the identity on the values used) are not modelled beyond their observed effect",
                        "floats travel as bit patterns; NaN payloads are not generated"]


def replay(chk, rep):
    print(json.dumps(rep, indent=1, default=repr)[:3000])
    return 1
