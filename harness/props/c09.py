"""C09 — the verifier's verdict equals the well-formedness specification."""
import itertools
import json

import common
import to_coq
from common import cpair


def build(spec):
    """spec -> FcpV2 built directly (so that trees the grammar cannot spell are covered too)."""
    from fcp.specs.v2 import FcpV2
    from fcp.specs.struct import Struct
    from fcp.specs.struct_field import StructField
    from fcp.specs.enum import Enum, Enumeration
    from fcp.specs.impl import Impl
    from fcp.specs.service import Service
    from fcp.specs.device import Device
    from fcp.specs import type as T

    def ty(t):
        if t[0] == "u":
            return T.UnsignedType(f"u{t[1]}")
        if t[0] == "str":
            return T.StringType()
        if t[0] == "enum":
            return T.EnumType(t[1])
        if t[0] == "struct":
            return T.StructType(t[1])
        if t[0] == "arr":
            return T.ArrayType(ty(t[1]), t[2])
        raise ValueError(t)
    return FcpV2(
        structs=[Struct(name=n, fields=[StructField(fn, i, ty(t)) for i, (fn, t) in enumerate(fs)]) for n, fs in spec["structs"]],
        enums=[Enum(n, [Enumeration(en, ev) for en, ev in vals]) for n, vals in spec["enums"]],
        impls=[Impl(n, p, t, ({} if i is None else {"id": i}), []) for n, p, t, i in spec["impls"]],
        services=[Service(n, k, []) for k, n in enumerate(spec["services"])],
        devices=[Device(n, ({} if sv is None else {"services": sv})) for n, sv in spec["devices"]],
    )


def observe(fcp, plugin):
    from fcp.verifier import make_general_verifier
    v = make_general_verifier()
    if plugin == "Dbc":
        import fcp_dbc
        fcp_dbc.Generator().register_checks(v)
    elif plugin == "CanC":
        import fcp_can_c
        fcp_can_c.Generator().register_checks(v)
    try:
        r = v.verify(fcp)
        return "OOk" if r.is_ok() else "OErr"
    except Exception:
        return "ORaise"


def nodup(l):
    return len(set(l)) == len(l)


def spec_verdict(spec, plugin):
    """The property's sentence, written independently of the code (used to find failing inputs).
    Returns True/False, or None where the C rule cannot size a message (known finding c-size-raises:
    the exception pre-empts whatever the later categories would have said)."""
    pre = all(nodup([fn for fn, _ in fs]) and len(fs) > 0 for _, fs in spec["structs"])
    pre &= all(nodup([a for a, _ in vals]) and nodup([b for _, b in vals]) for _, vals in spec["enums"])
    pre &= nodup([(n, p) for n, p, _, _ in spec["impls"]])
    names = [n for n, _ in spec["structs"]]
    if plugin in ("Dbc", "CanC"):
        pre &= all(t in names for _, _, t, _ in spec["impls"])
    ok = pre
    ok &= nodup([n for n, _ in spec["structs"]] + [n for n, _ in spec["enums"]])
    ok &= all(sv is None or all(s in spec["services"] for s in sv) for _, sv in spec["devices"])
    if plugin == "Dbc":
        ids = [i for _, p, _, i in spec["impls"] if p == "can" and i is not None]
        ok &= nodup(ids)
    if plugin == "CanC" and pre:
        def size(t):
            if t[0] == "u":
                return t[1]
            if t[0] == "arr":
                s = size(t[1])
                return None if s is None else s * t[2]
            return None
        first = {}
        for n, fs in spec["structs"]:
            first.setdefault(n, fs)
        for _, _, t, _ in spec["impls"]:
            sizes = [size(ft) for _, ft in first[t]]
            if any(s is None for s in sizes):
                return None
            if sum(sizes) > 64:
                return False          # the size rule answers before the later categories
    return bool(ok)


# widths chosen so that sums land on both sides of, and right next to, the 64-bit limit of the C size rule (64, 65, 71, 72 ...)
TYPES = [("u", 8), ("u", 40), ("str",), ("enum", "E"), ("struct", "A"), ("arr", ("u", 8), 3), ("arr", ("u", 16), 5),
         ("u", 1), ("u", 64), ("u", 24), ("u", 7), ("u", 8), ("u", 40)]


def random_spec(rng):
    names = ["A", "B", "E"]
    structs = [(rng.choice(names[:2]), [(rng.choice(["x", "y"]), rng.choice(TYPES)) for _ in range(rng.choice([0, 1, 1, 2, 2, 3]))])
               for _ in range(rng.choice([0, 1, 1, 2, 2, 3]))]
    enums = [(rng.choice(["E", "A", "F"]), [(rng.choice(["P", "Q", "R"]), rng.choice([0, 1, 2])) for _ in range(rng.randint(1, 3))])
             for _ in range(rng.choice([0, 1, 1, 2]))]
    impls = [(rng.choice(names[:2]), rng.choice(["default", "can", "can"]), rng.choice(["A", "B", "B", "Z"] if rng.random() < 0.2 else ["A", "B"]),
              rng.choice([None, 1, 2, 3, 4])) for _ in range(rng.choice([0, 1, 2, 2, 3]))]
    services = [rng.choice(["s", "t"]) for _ in range(rng.choice([0, 1, 2]))]
    devices = [(rng.choice(["d", "e"]), rng.choice([None, [], ["s"], ["t"], ["s", "t"]])) for _ in range(rng.choice([0, 0, 1, 2]))]
    # the very same declaration twice (a module merged along two import paths, a tree assembled by a tool): equal in every attribute,
    # still two declarations of one name
    if structs and rng.random() < 0.08:
        k = rng.randrange(len(structs))
        structs.insert(rng.randint(0, len(structs)), (structs[k][0], list(structs[k][1])))
    if enums and rng.random() < 0.08:
        k = rng.randrange(len(enums))
        enums.insert(rng.randint(0, len(enums)), (enums[k][0], list(enums[k][1])))
    return {"structs": structs, "enums": enums, "impls": impls, "services": services, "devices": devices}


def boundary_spec(rng):
    """An otherwise well-formed tree in which only the C size rule can decide: one CAN-bound struct whose distinct fields add up to a
    total right at the 64-bit limit (56 .. 73), split at random."""
    total = rng.choice([56, 63, 64, 64, 65, 65, 66, 67, 70, 71, 71, 72, 73])
    parts, left = [], total
    for k in range(rng.randint(0, 3)):
        if left <= 1:
            break
        w = rng.randint(1, min(64, left - 1))
        parts.append(w); left -= w
    while left > 64:
        parts.append(64); left -= 64
    if left:
        parts.append(left)
    rng.shuffle(parts)
    fields = [(f"f{i}", ("u", w)) for i, w in enumerate(parts)]
    structs = [("A", fields)] + ([("B", [("x", ("u", 8))])] if rng.random() < 0.5 else [])
    impls = [("A", "can", "A", rng.choice([None, 1, 7]))] + ([("B", "can", "B", 2)] if len(structs) > 1 and rng.random() < 0.5 else [])
    return {"structs": structs, "enums": [], "impls": impls, "services": [], "devices": []}


def small_scope():
    """Exhaustive: <=2 structs x <=2 fields, <=1 enum x <=2 enumerators, <=2 impls, names from 2-letter alphabets."""
    field_sets = [[], [("x", ("u", 8))], [("x", ("u", 8)), ("x", ("u", 8))], [("x", ("u", 40)), ("y", ("u", 40))], [("x", ("enum", "E"))]]
    structs_opts = [[]] + [[("A", f)] for f in field_sets] + [[("A", f), (n, g)] for f in field_sets[1:4] for n in ("A", "B") for g in field_sets[1:4]]
    enum_opts = [[], [("E", [("P", 0)])], [("E", [("P", 0), ("P", 1)])], [("E", [("P", 0), ("Q", 0)])], [("A", [("P", 0)])]]
    impl_one = [(n, p, t, i) for n in ("A", "B") for p in ("default", "can") for t in ("A", "Z") for i in (None, 1)]
    impl_opts = [[]] + [[a] for a in impl_one] + [[a, b] for a in impl_one[::3] for b in impl_one[::2]]
    dev_opts = [([], []), (["s"], [("d", ["s"])]), ([], [("d", ["s"])]), (["s"], [("d", None)])]
    for st, en, im, (sv, dv) in itertools.product(structs_opts, enum_opts, impl_opts, dev_opts):
        yield {"structs": st, "enums": en, "impls": im, "services": sv, "devices": dv}


def permuted(rng, spec):
    s = {k: list(v) for k, v in spec.items()}
    for k in s:
        rng.shuffle(s[k])
    return s


def run(chk):
    quick = chk.tier == "quick"
    broken = chk.proof_obligations(["Corr/Verifier.vo"])
    chk.coverage["rule"] = (
        "trees built directly as FcpV2 objects from small alphabets (to force collisions): random trees (one in twelve holds the very same struct or enum declaration twice), otherwise well-formed trees whose one CAN-bound struct totals 56..73 bits (only the size rule decides), and in the thorough tier an "
        "exhaustive small scope (<=2 structs x <=2 fields, <=1 enum, <=2 impls, <=1 device); each x {no plug-in, dbc, can_c} and a random "
        "permutation of every declaration list; non-trivial = at least two declarations; distinct = (tree, plug-in)")
    specs = [random_spec(chk.rng) for _ in range(1200 if quick else 12000)] + [boundary_spec(chk.rng) for _ in range(120 if quick else 1500)]
    if not quick:
        specs += list(small_scope())
        chk.coverage["exhaustive_small_scope_trees"] = len(specs) - 13500
    cases, meta, fails = [], [], []
    for spec in specs:
        try:
            fcp = build(spec)
        except Exception as e:
            raise RuntimeError(f"cannot build tree {spec}: {e!r}")
        tterm = to_coq.ftree(fcp)
        perm = permuted(chk.rng, spec)
        pfcp = build(perm)
        for plugin in ("NoPlugin", "Dbc", "CanC"):
            o = observe(fcp, plugin)
            cases.append(cpair(plugin, tterm, o)); meta.append((spec, plugin, o))
            chk.count((json.dumps(spec, sort_keys=True), plugin),
                      nontrivial=len(spec["structs"]) + len(spec["enums"]) + len(spec["impls"]) >= 2,
                      sample={"tree": spec, "plugin": plugin, "verdict": o})
            chk.hist("verdict:" + plugin, o)
            want = spec_verdict(spec, plugin)
            if want is None:
                if o == "ORaise" and chk.find_known("c-size-raises"):
                    chk.known_finding("c-size-raises", "the C plug-in's check_impl_size raises ValueError for a struct with an enum, nested-struct or variable-size field instead of returning a verdict")
                elif o != "OErr":
                    fails.append({"kind": "c-size", "tree": spec, "plugin": plugin, "observed": o})
            elif (o == "OOk") != want or o == "ORaise":
                fails.append({"kind": "verdict-differs-from-specification", "tree": spec, "plugin": plugin, "observed": o, "specification_says_ok": want})
            po = observe(pfcp, plugin)
            if (po == "OOk") != (o == "OOk"):
                fails.append({"kind": "verdict-depends-on-order", "tree": spec, "permuted": perm, "plugin": plugin, "observed": o, "permuted_observed": po})
            if chk.rng.random() < 0.25 and (spec["structs"] or spec["enums"]):
                # the tree as it grows: the same object verified once before its last type is added (as a schema under construction or
                # a module being merged is), then again once it is complete: the verdict is that of the complete tree
                gfcp = build(spec)
                which = gfcp.enums if (spec["enums"] and (not spec["structs"] or chk.rng.random() < 0.5)) else gfcp.structs
                last = which.pop()
                observe(gfcp, plugin)
                which.append(last)
                go = observe(gfcp, plugin)
                chk.hist("grown", go == o)
                if go != o:
                    fails.append({"kind": "verdict-depends-on-an-earlier-verification-of-the-same-object", "tree": spec, "plugin": plugin,
                                  "verified_first_without": "the last enum" if which is gfcp.enums else "the last struct",
                                  "observed_on_a_fresh_object": o, "observed_after_growing": go})
    chk.log(f"{len(cases)} verdicts; implementation-side failures: {len(fails)}")
    chk.coverage["traces_validated_against_impl"] = len(cases)
    mism = []
    if broken is None:
        try:
            mism = common.run_cases("Verifier", cases, shard=400)
        except common.CoqError as e:
            broken = f"correspondence could not be evaluated: {e}"
    fails.sort(key=lambda f: len(json.dumps(f, default=repr)))
    for f in fails[:3]:
        chk.violation(f)
    if not fails:
        for i in mism[:3]:
            chk.violation({"kind": "model-vs-implementation", "correspondence": "Corr.Verifier.check_case (model Verifier.Checks)",
                           "tree": meta[i][0], "plugin": meta[i][1], "observed": meta[i][2]}, no_failing_input=True)
        if not mism and broken is not None:
            chk.violation({"kind": "proof-obligation", "broken": broken, "theorem": "Props/C09.v"}, no_failing_input=True)
    chk.assumptions += ["trees are built directly with the spec classes (no parser); the verdict is observed as Ok / Err / exception, not which message",
                        "the C rule is modelled as the code computes it (sum of get_length() of the struct's own fields, every binding); its deviation from the property's wording is the known finding c-size-raises"]


def replay(chk, rep):
    print(json.dumps(rep, indent=1, default=repr)[:3000])
    spec = rep["tree"]
    spec = {k: [tuple(x) if isinstance(x, list) else x for x in v] for k, v in spec.items()}
    print("not replayable from JSON without tuple restoration; verdicts:", rep.get("observed"))
    return 1
