"""C03 — the generated C++ static codec compiles and speaks the canonical wire format."""
import own_lookup
import copy
import json
import shutil
from concurrent.futures import ThreadPoolExecutor

import common
import cxx_run
import gen_schema
import ref_wire
import serde_run
import to_coq
from common import cz, cstr, clist, cpair


def cpp_desc(rng, nstructs):
    desc = gen_schema.gen_desc(rng, "serde", nstructs=nstructs, max_fields=5, depth=2)
    for e in desc["enums"]:                      # enumerators that fit the std::uint8_t carrier (see known finding enum-uint8)
        seen, vals = set(), []
        for n, v in e["vals"]:
            v %= 256
            if v not in seen:
                seen.add(v); vals.append((n, v))
        e["vals"] = vals
    # a statically sized struct of several enums whose packed width is no power of two (3, 5, 6, 7 bits) between sub-byte integers: the
    # sizes of such structs are where a layout helper with other rounding rules would differ from the wire format
    top = rng.choice([4, 5, 7, 17, 33, 100])
    desc["enums"].append({"name": "EOdd", "vals": [("A", 0), ("B", 1), ("Z", top)]})
    fs = [{"name": f"e{j}", "id": j, "type": ("enum", "EOdd")} for j in range(rng.randint(2, 4))]
    fs.insert(rng.randrange(len(fs) + 1), {"name": "pad", "id": 9, "type": ("u", rng.randint(1, 7))})
    desc["structs"].append({"name": "SOdd", "fields": fs})
    if rng.random() < 0.6:
        gen_schema.add_services(rng, desc)          # services make the generator derive rpc types from the schema it is given
    return desc


def clean_value(rng, fcp, name):
    """An in-range value the JSON embedding can carry: finite floats, printable strings."""
    for _ in range(50):
        v = to_coq.gen_struct_value(rng, fcp, name)
        if not cxx_run.has_nonfinite(v):
            return sanitize(v)
    return None


def sanitize(v):
    if isinstance(v, str):
        return "".join(c if 32 <= ord(c) <= 126 else "x" for c in v)
    if isinstance(v, dict):
        return {k: sanitize(x) for k, x in v.items()}
    if isinstance(v, list):
        return [sanitize(x) for x in v]
    return v


def run(chk):
    from fcp.specs.type import StructType
    quick = chk.tier == "quick"
    nsch, nstructs, nval = (3, 10, 26) if quick else (36, 12, 80)
    broken = chk.proof_obligations(["Corr/Cpp.vo"])
    chk.coverage["rule"] = (
        "schemas of ~10 structs from the serde profile (every constructor, widths 1..64, ids out of declaration order, enumerators below 256; plus one statically sized struct of 2-4 enums of 3/5/6/7 bits and a sub-byte integer) are "
        "given to the real C++ generator twice (same parsed object; more than half declare services), the second output - which must be the first again - is compiled as C++17 with a generic stdin/stdout driver (a compile error is a failing input), "
        "and for boundary-biased values EncodeJson is compared in Coq with the model (= Wire.v) and DecodeJson of canonical bytes with the value; "
        "for schemas with services the derived rpc envelope structs (<Struct>Input / <Struct>Output) are driven the same way against the derived schema; one schema per run is also built as a declaration-permuted twin (C15); non-trivial = value with >= 2 leaves")
    work = common.scratch_dir("verif_c03_")
    cases, meta, fails = [], [], []
    try:
        jobs = []
        for k in range(nsch):
            desc = cpp_desc(chk.rng, nstructs)
            jobs.append((f"s{k}", desc, None))
        tw = copy.deepcopy(jobs[0][1])
        for s in tw["structs"]:
            chk.rng.shuffle(s["fields"])
        jobs.append(("twin", tw, "s0"))
        kf_desc = {"enums": [{"name": "Big", "vals": [("A", 0), ("B", 300)]}], "structs": [{"name": "K", "fields": [{"name": "e", "id": 0, "type": ("enum", "Big")}]}], "impls": []}
        jobs.append(("kf", kf_desc, None))
        prepared = []
        for tag, desc, twin_of in jobs:
            text = gen_schema.render(desc)
            fcp = serde_run.parse(text).unwrap()
            outdir = f"{work}/{tag}"
            try:
                cxx_run.generate_cpp(fcp, outdir)
                if cxx_run.last_regeneration_diff:
                    fails.append({"kind": "second-generation-from-the-same-parsed-schema-differs", "schema": text,
                                  "files_that_differ": cxx_run.last_regeneration_diff[:6]})
                prepared.append((tag, text, fcp, outdir, twin_of, None))
            except Exception as e:
                prepared.append((tag, text, fcp, outdir, twin_of, e))

        def do_build(p):
            if p[5] is not None:
                return None, f"generator raised {p[5]!r}"
            return cxx_run.build(p[3])
        with ThreadPoolExecutor(max_workers=8) as ex:
            built = list(ex.map(do_build, prepared))
        chk.coverage["programs"] = sum(1 for b in built if b[0])
        results = {}
        for (tag, text, fcp, outdir, twin_of, _), (exe, err) in zip(prepared, built):
            if exe is None:
                first = [l for l in (err or "").split("\n") if "error" in l][:2]
                fails.append({"kind": "generated-c++-does-not-compile", "schema": text, "error": first or err[-400:]})
                continue
            drv = cxx_run.Driver(exe)
            if tag == "kf":
                # known finding enum-uint8: an enumerator above 255 on a 9-bit enum
                ans = drv.ask('E K {"e": 300}')
                drv.close()
                if ans == "OK 2c00" and chk.find_known("enum-uint8"):
                    chk.known_finding("enum-uint8", "an enumerator above 255 is truncated by the std::uint8_t carrier of the generated enum class (300 is written as 44 on 9 bits)")
                elif ans != "OK 2c01":
                    fails.append({"kind": "c++-enum-above-255", "schema": text, "value": {"e": 300}, "answer": ans})
                continue
            sterm = to_coq.schema(fcp)
            rng = chk.rng if twin_of is None else None
            try:
                for s in fcp.structs:
                    serde_run.type_hist(chk, fcp, StructType(s.name))
                values = results.get(twin_of, {}).get("values") if twin_of else None
                if values is None:
                    values = []
                    for _ in range(nval):
                        s = chk.rng.choice(fcp.structs)
                        v = clean_value(chk.rng, fcp, s.name)
                        if v is not None:
                            values.append((s.name, v))
                outs = []
                for name, v in values:
                    ans = drv.ask_or_crash(f"E {name} {cxx_run.to_json(v)}")
                    b = list(bytes.fromhex(ans[3:])) if ans.startswith("OK ") else None
                    outs.append(b)
                    canonical = list(ref_wire.wire_bytes(fcp, name, v))
                    cases.append(cpair(sterm, cstr(name), f"(CEnc {to_coq.struct_value(fcp, name, v)} " +
                                       ("None" if b is None else f"(Some {clist(cz(x) for x in b)})") + ")"))
                    meta.append((text, name, v, "encode", ans[:200]))
                    if b != canonical:
                        fails.append({"kind": "c++-encode-not-canonical", "schema": text, "struct": name, "value": v, "encoded": b,
                                      "canonical": canonical, "answer": ans[:200]})
                    ans2 = drv.ask_or_crash(f"D {name} {bytes(canonical).hex()}")
                    try:
                        d = json.loads(ans2[3:]) if ans2.startswith("OK ") else None
                    except ValueError:           # the decoder returned something the JSON printer could not render as JSON
                        d = None
                    try:
                        dterm = "None" if d is None else f"(Some {to_coq.struct_value(fcp, name, coerce(fcp, StructType(name), d))})"
                    except (TypeError, KeyError):
                        dterm = "None"
                    cases.append(cpair(sterm, cstr(name), f"(CDec {clist(cz(x) for x in canonical)} {dterm})"))
                    meta.append((text, name, v, "decode", ans2[:200]))
                    if d is None or not to_coq.values_equal(fcp, StructType(name), coerce(fcp, StructType(name), d), v):
                        fails.append({"kind": "c++-decode-of-canonical", "schema": text, "struct": name, "value": v, "decoded": d, "answer": ans2[:200]})
                    chk.count((text, name, json.dumps(v, sort_keys=True)), nontrivial=len(json.dumps(v)) > 12,
                              sample={"struct": name, "value": v, "bytes": b})
                # the rpc envelopes: for a schema with services the generator adds <Struct>Input / <Struct>Output structs (service id and
                # method id as 8-bit enums, then the payload).  They are structs of the generated header like any other: the schema they
                # are judged against is the derived one (fcp_cpp.rpc.generate_rpc of a copy), read by the harness's own rules.
                if fcp.services and twin_of is None:
                    from fcp_cpp.rpc import generate_rpc
                    try:
                        dsch = generate_rpc(copy.deepcopy(fcp))
                    except Exception:
                        dsch = None
                    base = {s.name for s in fcp.structs}
                    for s in ([] if dsch is None else dsch.structs):
                        if s.name in base:
                            continue
                        v, ok = {}, True
                        for fl in s.fields:
                            tn = type(fl.type).__name__
                            if tn == "EnumType":
                                en = [e for e in dsch.enums if e.name == fl.type.name]
                                v[fl.name] = chk.rng.choice([x.value for x in en[0].enumeration]) if en and en[0].enumeration else 0
                            elif tn == "StructType" and fl.type.name in base:
                                pv = clean_value(chk.rng, fcp, fl.type.name)
                                ok = ok and pv is not None
                                v[fl.name] = pv
                            else:
                                ok = False
                        if not ok:
                            continue
                        chk.hist("rpc_envelopes", 1)
                        ans = drv.ask_or_crash(f"E {s.name} {cxx_run.to_json(v)}")
                        b = list(bytes.fromhex(ans[3:])) if ans.startswith("OK ") else None
                        canonical = list(ref_wire.wire_bytes(dsch, s.name, v))
                        dterm = to_coq.schema(dsch)
                        cases.append(cpair(dterm, cstr(s.name), f"(CEnc {to_coq.struct_value(dsch, s.name, v)} " +
                                           ("None" if b is None else f"(Some {clist(cz(x) for x in b)})") + ")"))
                        meta.append((text, s.name, v, "encode", ans[:200]))
                        if b != canonical:
                            fails.append({"kind": "c++-encode-not-canonical", "schema": text, "struct": s.name + " (rpc envelope)", "value": v, "encoded": b,
                                          "canonical": canonical, "answer": ans[:200]})
                        ans2 = drv.ask_or_crash(f"D {s.name} {bytes(canonical).hex()}")
                        try:
                            d = json.loads(ans2[3:]) if ans2.startswith("OK ") else None
                            d = None if d is None else {k: x for k, x in d.items() if not k.startswith("__")}
                        except (ValueError, AttributeError):
                            d = None
                        if d is None or not to_coq.values_equal(dsch, StructType(s.name), coerce(dsch, StructType(s.name), d), v):
                            fails.append({"kind": "c++-decode-of-canonical", "schema": text, "struct": s.name + " (rpc envelope)", "value": v, "decoded": d,
                                          "answer": ans2[:200]})
                        chk.count((text, s.name, json.dumps(v, sort_keys=True)), nontrivial=True, sample={"struct": s.name, "value": v, "bytes": b})
                results[tag] = {"values": values, "outs": outs}
                if twin_of and twin_of in results and results[twin_of]["outs"] != outs:
                    i = next(i for i, (a, b) in enumerate(zip(results[twin_of]["outs"], outs)) if a != b)
                    fails.append({"kind": "c++-bytes-depend-on-declaration-order", "schema": prepared[0][1], "twin": text,
                                  "struct": values[i][0], "value": values[i][1], "bytes": results[twin_of]["outs"][i], "twin_bytes": outs[i]})
            finally:
                drv.close()
    finally:
        shutil.rmtree(work, ignore_errors=True)
    chk.log(f"{len(cases)} cases over {chk.coverage.get('programs')} compiled schemas; implementation-side failures: {len(fails)}")
    chk.coverage["traces_validated_against_impl"] = len(cases)
    mism = []
    if broken is None:
        try:
            mism = common.run_cases("Cpp", cases, shard=120)
        except common.CoqError as e:
            broken = f"correspondence could not be evaluated: {e}"
    fails.sort(key=lambda f: len(json.dumps(f, default=repr)))
    for f in fails[:3]:
        chk.violation(f)
    if not fails:
        for i in mism[:3]:
            chk.violation({"kind": "model-vs-implementation", "correspondence": "Corr.Cpp.check_case (model Cpp.CppStatic)", "schema": meta[i][0],
                           "struct": meta[i][1], "value": meta[i][2], "op": meta[i][3], "answer": meta[i][4]}, no_failing_input=True)
        if not mism and broken is not None:
            chk.violation({"kind": "proof-obligation", "broken": broken, "theorem": "Props/C03.v"}, no_failing_input=True)
    chk.assumptions += ["g++ -std=c++17 -O0 and the C++ abstract machine as modelled (uint64 arithmetic mod 2^64, static_cast to intN, arithmetic right shift of negative values)",
                        "values travel as JSON through nlohmann::json (finite floats, printable ASCII strings); enumerators fit the uint8_t carrier (known finding enum-uint8 otherwise)",
                        "'compiles as C++17' is decided by the build step, not by a theorem"]


def coerce(fcp, t, v):
    """Total version: a decoded document of the wrong shape is handed on as it is (and then compares unequal)."""
    try:
        return _coerce(fcp, t, v)
    except Exception:
        return v


def _coerce(fcp, t, v):
    """JSON -> the Python value shape of the codec (floats that JSON printed as integers, etc.)."""
    from fcp.specs import type as T
    if type(t) in (T.FloatType, T.DoubleType):
        return float(v)
    if type(t) in (T.ArrayType, T.DynamicArrayType):
        return None if v is None else [coerce(fcp, t.underlying_type, x) for x in v]     # a null where a list belongs is not an empty list
    if type(t) is T.OptionalType:
        return None if v is None else coerce(fcp, t.underlying_type, v)
    if type(t) is T.StructType:
        s = own_lookup.struct(fcp, t.name)
        return {f.name: coerce(fcp, f.type, v[f.name]) for f in s.fields}
    return v


def replay(chk, rep):
    print(json.dumps(rep, indent=1, default=repr)[:3000])
    return 1
