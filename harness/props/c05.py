"""C05 — the generated DBC describes exactly the packed layout of every CAN binding."""
import json

import common
import dbc_read
import gen_schema
import serde_run
import to_coq
from common import cz, cstr, clist, cpair, cbool


def gen_can_desc(rng):
    """CAN schemas: any mix of widths, signed, enums, floats, nesting, arrays; big-endian only on
    byte-aligned whole-byte leaves; well-formed multiplexing; several buses."""
    desc = {"enums": [], "structs": [], "impls": []}
    # enum names as people write them: capitalised, lower case, and lower case beginning with the letters the built-in type names
    # begin with (i.., u.., f..): what a leaf IS must come from its type, not from how its type's name is spelled
    enum_names = rng.sample(["E0", "Mode", "ignition", "idle_state", "fault", "flags", "unit_sel", "state"], 2)
    for i in range(rng.randint(0, 2)):
        desc["enums"].append(gen_schema.gen_enum(rng, enum_names[i]))
        desc["enums"][-1]["vals"] = [(n, v % 200) for n, v in desc["enums"][-1]["vals"]]
        seen = set(); vals = []
        for n, v in desc["enums"][-1]["vals"]:
            if v not in seen:
                seen.add(v); vals.append((n, v))
        desc["enums"][-1]["vals"] = vals
    enums = [e["name"] for e in desc["enums"]]
    used = set()
    # bus names as people write them: plain, and with a dot (can.1 / can.2: each bus has a file of its own)
    buses = rng.choice([["bus1", "bus2"], ["bus1", "bus2"], ["can.1", "can.2"], ["powertrain.fd", "powertrain.hs", "bus1"]])
    for i in range(rng.randint(1, 4)):
        style = rng.choice(["mixed", "bytes", "mux", "mixed"])
        fields, budget = [], rng.choice([64, 64, 64, 80])
        earlier = [s["name"] for s in desc["structs"] if s.get("small")]
        total = 0
        nf = rng.randint(1, 5)
        for j in range(nf):
            if style == "bytes":
                t = rng.choice([("u", 8), ("u", 16), ("i", 16), ("u", 32), ("i", 8), ("i", 32), ("u", 24)])
            elif style == "mux":
                t = ("u", rng.choice([4, 8, 12])) if j else ("u", 8)
                if j and earlier and rng.random() < 0.3:
                    t = ("struct", rng.choice(earlier))      # a nested struct whose own leaf may be called like the multiplexer
            else:
                r = rng.random()
                if r < 0.1 and earlier:
                    t = ("struct", rng.choice(earlier))
                elif r < 0.2:
                    t = ("arr", ("u", rng.randint(1, 9)), rng.randint(1, 3))
                elif r < 0.3:
                    t = rng.choice([("f32",), ("f64",)])
                elif r < 0.4 and enums:
                    t = ("enum", rng.choice(enums))
                elif r < 0.7:
                    t = ("i", rng.choice([3, 8, 12, 16, 20, 32, 7]))
                else:
                    t = ("u", gen_schema.gen_width(rng) % 33 or 5)
            w = {"u": lambda: t[1], "i": lambda: t[1], "f32": lambda: 32, "f64": lambda: 64, "enum": lambda: 8,
                 "arr": lambda: t[1][1] * t[2], "struct": lambda: 48}[t[0]]()
            if total + w > budget and fields:
                continue
            total += w
            fields.append({"name": ("mx" if (style == "mux" and j == 0) or (style == "bytes" and j == 0 and nf <= 2 and rng.random() < 0.5) else f"f{j}"), "id": j, "type": t,
                           "params": ({"unit": rng.choice(["V", "A", "rpm"])} if rng.random() < 0.3 else {})})
        if rng.random() < 0.3:
            rng.shuffle(fields)
        st = {"name": f"S{i}", "fields": fields, "small": style == "bytes" and nf <= 2}
        desc["structs"].append(st)
        if rng.random() < 0.85:
            fid = rng.choice([x for x in range(0, 2048) if x not in used]); used.add(fid)
            ifs = [("id", fid)]
            if rng.random() < 0.5:
                ifs.append(("bus", rng.choice(buses)))
            if rng.random() < 0.4:
                ifs.append(("device", rng.choice(["ecu", "bms"])))
            sigs = []
            if style == "bytes":
                for f in fields:
                    if rng.random() < 0.5:
                        sigs.append({"name": f["name"], "fields": [("endianess", "big")]})
            if style == "mux":
                k = rng.randint(1, 6)
                for f in fields[1:] if fields[0]["name"] == "mx" else [f for f in fields if f["name"] != "mx"]:
                    if rng.random() < 0.7:
                        sigs.append({"name": f["name"], "fields": [("mux_count", k), ("mux_signal", "mx")]})
            desc["impls"].append({"protocol": "can", "type": st["name"], "name": st["name"], "fields": ifs, "signals": sigs})
            if rng.random() < 0.4:
                # the same struct bound again (another name, id, possibly another bus) with different per-signal options
                fid2 = rng.choice([x for x in range(0, 2048) if x not in used]); used.add(fid2)
                ifs2 = [("id", fid2)] + ([("bus", rng.choice(buses))] if rng.random() < 0.5 else [])
                sigs2 = []
                if style == "bytes":
                    sigs2 = [{"name": f["name"], "fields": [("endianess", "big")]} for f in fields if rng.random() < 0.5]
                elif style == "mux":
                    k2 = rng.randint(1, 6)
                    sigs2 = [{"name": f["name"], "fields": [("mux_count", k2), ("mux_signal", "mx")]} for f in fields if f["name"] != "mx" and rng.random() < 0.5]
                desc["impls"].append({"protocol": "can", "type": st["name"], "name": st["name"] + "B", "fields": ifs2, "signals": sigs2})
    return desc


def observe(fcp):
    from fcp_dbc import Generator
    try:
        return Generator().generate(fcp, {"output": "out"}), None
    except Exception as e:
        return None, e


def sig_term(s):
    mi = "None" if s["muxids"] is None else f"(Some {clist(cz(i) for i in s['muxids'])})"
    return cpair(cstr(s["name"]), cz(s["start"]), cz(s["len"]), cbool(s["big"]), cbool(s["signed"]), cbool(s["float"]),
                 cstr(s["unit"]), cbool(s["ismux"]), mi)


def pack_frame(pieces, values):
    """Reference packer (search side): little-endian leaves bit by bit, big-endian whole-byte leaves byte-reversed."""
    bits = [0] * 64
    for p, v in zip(pieces, values):
        w = v & ((1 << p.bitlength) - 1)
        if p.endianess == "big":
            nb = p.bitlength // 8
            w = int.from_bytes(w.to_bytes(nb, "big"), "little")
        for i in range(p.bitlength):
            bits[p.bitstart + i] = (w >> i) & 1
    return [sum(bits[8 * k + i] << i for i in range(8)) for k in range(8)]


def run(chk):
    import cantools
    from fcp.encoding import make_encoder, PackedEncoderContext
    from fcp.specs import type as T
    quick = chk.tier == "quick"
    n = 220 if quick else 4000
    broken = chk.proof_obligations(["Corr/Dbc.vo"])
    chk.coverage["rule"] = (
        "CAN schemas (widths 1..32, signed, enums, floats, nested structs, arrays, big-endian whole-byte signals, multiplexed signals, several "
        "buses, some over 64 bits) parsed by the real front end; the text of every generated bus file is read by an own BO_/SG_ reader and by "
        "cantools, both must agree, and the record set is compared in Coq with DbcModel; frames packed from boundary/random values are decoded "
        "through cantools and compared in Coq with DbcSem; non-trivial = generation succeeded with >= 2 signals")
    cases, meta, fails = [], [], []
    for _ in range(n):
        desc = gen_can_desc(chk.rng)
        text = gen_schema.render(desc)
        fcp = serde_run.parse(text).unwrap()
        # the declared per-signal options, read off a parse of their own (the generator is handed another object, so that nothing it
        # does to its input can reach this side)
        declared = {im.name: {sb.name: dict(sb.fields) for sb in im.signals} for im in serde_run.parse(text).unwrap().get_matching_impls("can")}
        res, err = observe(fcp)
        # generating again from the same object must give the same files (nothing may be consumed or left behind by a generation)
        res2, err2 = observe(fcp)
        if (res is None) != (res2 is None) or (res is not None and [(r["bus"], r["contents"]) for r in res] != [(r["bus"], r["contents"]) for r in res2]):
            fails.append({"kind": "second-generation-from-the-same-object-differs", "schema": text,
                          "first": None if res is None else [r["bus"] for r in res], "second": None if res2 is None else [r["bus"] for r in res2],
                          "errors": [repr(err), repr(err2)]})
        frames = []
        after = {im.name: {sb.name: dict(sb.fields) for sb in im.signals} for im in fcp.get_matching_impls("can")}
        if after != declared:
            fails.append({"kind": "dbc-generation-changed-the-schema-it-was-given", "schema": text,
                          "signal_blocks_before": declared, "signal_blocks_after": after})
        if res is None:
            obs = "None"
            chk.hist("generation", "raises:" + type(err).__name__)
        else:
            chk.hist("generation", "ok")
            paths = [str(r["path"]) for r in res]
            if len(set(paths)) != len(paths):
                fails.append({"kind": "two-buses-are-written-to-one-file", "schema": text, "buses": [r["bus"] for r in res], "paths": paths})
            buses = []
            enc = make_encoder("packed", fcp, PackedEncoderContext().with_unroll_arrays(True))
            for r in res:
                own = dbc_read.read(r["contents"])
                db = cantools.database.load_string(r["contents"], "dbc")
                # the two readers must agree with each other
                for m in db.messages:
                    o = own.get(m.frame_id)
                    if o is None or o["name"] != m.name or o["dlc"] != m.length or set(o["signals"]) != {s.name for s in m.signals}:
                        fails.append({"kind": "readers-disagree", "schema": text, "bus": r["bus"], "message": m.name})
                        continue
                    for s in m.signals:
                        q = o["signals"][s.name]
                        if (q["start"], q["len"], q["big"], q["signed"], q["float"]) != (s.start, s.length, s.byte_order == "big_endian", s.is_signed, bool(s.is_float)):
                            fails.append({"kind": "readers-disagree", "schema": text, "bus": r["bus"], "message": m.name, "signal": s.name})
                msgs = clist(cpair(cz(m["id"]), cstr(m["name"]), cz(m["dlc"]), clist(sig_term(s) for s in m["signals"].values())) for m in own.values())
                buses.append(cpair(cstr(r["bus"]), msgs))
                # implementation-side predicate: the DBC describes the layout of each binding on this bus
                for im in fcp.get_matching_impls("can"):
                    if (im.fields.get("bus") or "default") != r["bus"]:
                        continue
                    pieces = enc.generate(im)
                    m = own.get(im.fields["id"])
                    if m is None or m["name"] != im.name or m["dlc"] != -(-(pieces[-1].bitstart + pieces[-1].bitlength) // 8) or len(m["signals"]) != len(pieces):
                        fails.append({"kind": "message-differs-from-layout", "schema": text, "impl": im.name, "message": m})
                        continue
                    muxed = False
                    for p in pieces:
                        s = m["signals"].get(p.name.replace("::", "_"))
                        want_float = type(p.type) in (T.FloatType, T.DoubleType)
                        want_start = p.bitstart if p.endianess == "little" else p.bitstart + 7
                        if s is None or (s["start"], s["len"], s["big"], s["signed"], s["unit"]) != (
                                want_start, p.bitlength, p.endianess == "big", type(p.type) is T.SignedType, p.unit or ""):
                            fails.append({"kind": "signal-differs-from-leaf", "schema": text, "impl": im.name, "leaf": p.name, "signal": s})
                        elif s["float"] != want_float:
                            if chk.find_known("dbc-float"):
                                chk.known_finding("dbc-float", "f32/f64 leaves are not marked as float in the DBC (no SIG_VALTYPE_)")
                            else:
                                fails.append({"kind": "float-not-marked", "schema": text, "impl": im.name, "leaf": p.name, "signal": s})
                        if s is not None:
                            opts = declared.get(im.name, {}).get(p.name.split("::")[-1], {})
                            want_ids = list(range(opts["mux_count"])) if opts.get("mux_count") is not None else None
                            if s["muxids"] != want_ids:
                                fails.append({"kind": "multiplexing-differs-from-signal-block", "schema": text, "impl": im.name, "leaf": p.name,
                                              "declared": opts, "dbc_multiplexer_ids": s["muxids"]})
                            # the multiplexer is the leaf that a signal block of this binding names as its mux_signal, and no other
                            # (signal blocks that apply to a leaf: one written on a struct-typed field configures no signal)
                            want_mux = p.name in {declared.get(im.name, {}).get(q.name.split("::")[-1], {}).get("mux_signal") for q in pieces}
                            if s["ismux"] != want_mux:
                                fails.append({"kind": "multiplexer-marking-differs-from-signal-blocks", "schema": text, "impl": im.name, "leaf": p.name,
                                              "dbc_is_multiplexer": s["ismux"], "named_as_mux_signal": want_mux})
                        muxed |= s is not None and (s["ismux"] or s["muxids"] is not None)
                    if muxed or any(type(p.type) in (T.FloatType, T.DoubleType) for p in pieces):
                        continue
                    # a frame packed per the layout decodes through the DBC to the original values
                    for _ in range(3):
                        vals = []
                        for p in pieces:
                            lo, hi = (-(1 << (p.bitlength - 1)), (1 << (p.bitlength - 1)) - 1) if type(p.type) is T.SignedType else (0, (1 << p.bitlength) - 1)
                            vals.append(chk.rng.choice([lo, hi, 0, chk.rng.randint(lo, hi)]))
                        data = pack_frame(pieces, vals)
                        dec = db.get_message_by_frame_id(im.fields["id"]).decode(bytes(data[:m["dlc"]]), decode_choices=False, scaling=False)
                        got = [int(dec[p.name.replace("::", "_")]) for p in pieces]
                        if got != vals:
                            fails.append({"kind": "frame-does-not-decode-to-values", "schema": text, "impl": im.name, "values": vals, "decoded": got, "frame": data})
                        frames.append(cpair(cstr(r["bus"]), cz(im.fields["id"]), clist(cz(b) for b in data),
                                            clist(cpair(cstr(k), cz(int(v))) for k, v in dec.items())))
            obs = f"(Some {clist(buses)})"
        ref = serde_run.parse(text).unwrap()          # the model is given the schema as written, not the object the generator held
        cases.append(cpair(to_coq.schema(ref), clist(to_coq.impl(i) for i in ref.impls), obs, clist(frames)))
        meta.append(text)
        nsig = 0 if res is None else sum(c["contents"].count(" SG_ ") for c in res)
        chk.count(text, nontrivial=nsig >= 2, sample={"schema": text, "files": None if res is None else [r["bus"] for r in res], "frames": len(frames)})
    chk.log(f"{len(cases)} schemas; implementation-side failures: {len(fails)}")
    chk.coverage["traces_validated_against_impl"] = len(cases)
    mism = []
    if broken is None:
        try:
            mism = common.run_cases("Dbc", cases, shard=60)
        except common.CoqError as e:
            broken = f"correspondence could not be evaluated: {e}"
    fails.sort(key=lambda f: len(json.dumps(f, default=repr)))
    for f in fails[:3]:
        chk.violation(f)
    if not fails:
        for i in mism[:3]:
            chk.violation({"kind": "model-vs-implementation", "correspondence": "Corr.Dbc.check_case (models Dbc.DbcModel, Dbc.DbcSem)", "schema": meta[i]},
                          no_failing_input=True)
        if not mism and broken is not None:
            chk.violation({"kind": "proof-obligation", "broken": broken, "theorem": "Props/C05.v"}, no_failing_input=True)
    chk.assumptions += ["cantools renders and re-reads the DBC text; its rendering is read back (own reader + cantools), not modelled",
                        "big-endian signals are generated only on byte-aligned whole-byte leaves (the property's domain); multiplexing only in the one-multiplexer form",
                        "frames with float or multiplexed signals are not decoded (floats: only the marking is compared)"]


def replay(chk, rep):
    print(json.dumps(rep, indent=1, default=repr)[:3000])
    if "schema" in rep:
        fcp = serde_run.parse(rep["schema"]).unwrap()
        res, err = observe(fcp)
        print(repr(err) if res is None else [(r["bus"], [l for l in r["contents"].split("\r\n") if l.startswith(("BO_", " SG_", "SG_MUL", "SIG_VALTYPE"))]) for r in res])
    return 1
