"""C01 — Python codec round-trip."""
import own_lookup
import json

import common
import serde_run
import to_coq


def replace_signed_min(fcp, t, v):
    """What the known finding predicts: every signed minimum comes back as +2^(n-1)."""
    from fcp.specs import type as T
    if type(t) is T.SignedType:
        n = t.get_length()
        return 2 ** (n - 1) if v == -(2 ** (n - 1)) else v
    if type(t) in (T.ArrayType, T.DynamicArrayType):
        return [replace_signed_min(fcp, t.underlying_type, x) for x in v]
    if type(t) is T.OptionalType:
        return None if v is None else replace_signed_min(fcp, t.underlying_type, v)
    if type(t) is T.StructType:
        s = own_lookup.struct(fcp, t.name)
        return {f.name: replace_signed_min(fcp, f.type, v[f.name]) for f in s.fields}
    return v


def run(chk, want=("enc", "dec")):
    from fcp.specs.type import StructType
    quick = chk.tier == "quick"
    nsch, nval = (70, 22) if quick else (1200, 34)
    broken = chk.proof_obligations(["Corr/Serde.vo"])
    chk.coverage["rule"] = (
        "schemas from the serde profile (every constructor, depth<=3, widths 1..64, forced sub-byte fields, arrays of sub-byte elements with up to 33 elements, ids shuffled), "
        "rendered to FCP text and parsed by the real front end; boundary-biased in-range values; "
        "each case = encode + decode of its output, both compared with the Coq model; "
        "non-trivial = value has >= 2 leaves; distinct = (schema text, struct, value)")
    schemas = serde_run.make_schemas(chk, nsch)
    cases, meta = [], []
    fails = []
    for desc, text, fcp, sterm in schemas:
        for s in fcp.structs:
            serde_run.type_hist(chk, fcp, StructType(s.name))
        for _ in range(nval):
            s = chk.rng.choice(fcp.structs)
            v = to_coq.gen_struct_value(chk.rng, fcp, s.name, big=not quick)
            b, e1 = serde_run.real_encode(fcp, s.name, v)
            cases.append(serde_run.enc_case(sterm, fcp, s.name, v, b)); meta.append((text, s.name, v, "enc", b, repr(e1)))
            d, e2 = (None, None)
            if b is not None:
                d, e2 = serde_run.real_decode(fcp, s.name, b)
                cases.append(serde_run.dec_case(sterm, fcp, s.name, b, d, e2)); meta.append((text, s.name, v, "dec", b, repr(e2) if e2 else d))
            key = (text, s.name, json.dumps(v, sort_keys=True, default=repr))
            chk.count(key, nontrivial=len(json.dumps(v, default=repr)) > 12,
                      sample={"schema": text, "struct": s.name, "value": v, "bytes": b})
            # the property's own predicate on the implementation
            t = StructType(s.name)
            ok = b is not None and e2 is None and to_coq.values_equal(fcp, t, d, v)
            if not ok:
                if b is not None and e2 is None and to_coq.contains_signed_min(fcp, t, v) and \
                        to_coq.values_equal(fcp, t, d, replace_signed_min(fcp, t, v)) and chk.find_known("signed-min"):
                    chk.known_finding("signed-min", "a signed field holding -2^(N-1) decodes as +2^(N-1) (serde.py:_decode_builtin_signed)")
                    chk.hist("known", "signed-min")
                else:
                    fails.append({"kind": "roundtrip", "schema": text, "struct": s.name, "value": v, "encoded": b,
                                  "decoded": d if e2 is None else None, "error": repr(e1 or e2) if (e1 or e2) else None})
    chk.log(f"{len(cases)} cases from {len(schemas)} schemas; implementation-side failures: {len(fails)}")
    chk.coverage["traces_validated_against_impl"] = len(cases)
    mism, translated, broken = serde_run.run_serde_cases(chk, cases, broken)
    report(chk, fails, mism, meta, broken, "Corr.Serde.check_case (model Py.PySerde)", "Props/C01.v", translated=translated)
    chk.assumptions += [
        "_Buffer is modelled as the bit string written so far (push_word appends, read_word consumes); struct.pack/unpack as the identity on IEEE-754 bit patterns (little-endian host)",
        "values are embedded type-directed by harness/to_coq.py; dicts are reordered to wire order by Corr.Serde.canon",
        "the front end (real parser) produced the schemas; resolution of names is the model's (Schema.Types.resolve)",
    ]


def report(chk, fails, mism, meta, broken, corr_name, props_file, translated=()):
    fails.sort(key=lambda f: len(json.dumps(f, default=repr)))
    for f in fails[:3]:
        chk.violation(f)
    if fails:
        return
    if translated and not mism:
        # the model agrees with the implementation, the translated source does not: the translator or its run-time library
        # misreads Python (the tie is unsound there), not the property
        for i in list(translated)[:3]:
            text, name, v, kind, b, obs = meta[i]
            chk.violation({"kind": "translated-source-vs-implementation", "correspondence": "Corr.SerdeGen.check_translated (gen/PyDispatch.v run in Coq)",
                           "schema": text, "struct": name, "value": v, "op": kind, "bytes": b, "observed": obs}, no_failing_input=True)
        return
    if mism:
        for i in mism[:3]:
            text, name, v, kind, b, obs = meta[i]
            chk.violation({"kind": "model-vs-implementation", "correspondence": corr_name, "schema": text, "struct": name,
                           "value": v, "op": kind, "bytes": b, "observed": obs}, no_failing_input=True)
    elif broken is not None:
        chk.violation({"kind": "proof-obligation", "broken": broken, "theorem": props_file}, no_failing_input=True)


def replay(chk, rep):
    from fcp.specs.type import StructType
    print(json.dumps(rep, indent=1, default=repr)[:3000])
    if "schema" not in rep:
        return 1
    fcp = serde_run.parse(rep["schema"]).unwrap()
    v = rep["value"]
    b, e1 = serde_run.real_encode(fcp, rep["struct"], v)
    print("encode ->", b, e1)
    if b is not None:
        d, e2 = serde_run.real_decode(fcp, rep["struct"], b)
        print("decode ->", d, e2)
        st = to_coq.schema(fcp)
        print("model  ->", common.eval_terms("Serde", ["model_of " + serde_run.enc_case(st, fcp, rep["struct"], v, b),
                                                       "model_of " + serde_run.dec_case(st, fcp, rep["struct"], b, d, e2)]))
        return 0 if (e2 is None and to_coq.values_equal(fcp, StructType(rep["struct"]), d, v)) else 1
    return 1
