"""C12 — reflection is a lossless, faithful description of the schema."""
import json

import common
import gen_schema
import serde_run
import to_coq
from common import cz, clist, cpair


def independent_listing(fcp):
    """What the property says the record must list, read directly off the tree (search side)."""
    def chain(t):
        from fcp.specs import type as T
        if type(t) is T.ArrayType:
            return [("Array", t.size)] + chain(t.underlying_type)
        if type(t) is T.DynamicArrayType:
            return [("DynamicArray", 1)] + chain(t.underlying_type)
        if type(t) is T.OptionalType:
            return [("Optional", 1)] + chain(t.underlying_type)
        return [(getattr(t, "name", "str"), 1)]
    return {
        "structs": [(s.name, [(f.name, f.field_id, chain(f.type), f.unit, f.min_value, f.max_value) for f in s.fields]) for s in fcp.structs],
        "enums": [(e.name, [(x.name, x.value) for x in e.enumeration]) for e in fcp.enums],
        "impls": [(i.name, i.protocol, i.type, [(k, str(v)) for k, v in i.fields.items()],
                   [(g.name, [(k, str(v)) for k, v in g.fields.items()]) for g in i.signals]) for i in fcp.impls],
        "services": [(s.name, s.id, [(m.name, m.id, m.input, m.output) for m in s.methods]) for s in fcp.services],
    }


def listing_of_record(r):
    return {
        "structs": [(s["name"], [(f["name"], f["field_id"], [(t["name"], t["size"]) for t in f["type"]], f["unit"], f["min_value"], f["max_value"])
                                 for f in s["fields"]]) for s in r["structs"]],
        "enums": [(e["name"], [(x["name"], x["value"]) for x in e["enumeration"]]) for e in r["enums"]],
        "impls": [(i["name"], i["protocol"], i["type"], [(d["name"], d["value"]) for d in i["fields"]],
                   [(g["name"], [(d["name"], d["value"]) for d in g["fields"]]) for g in i["signals"]]) for i in r["impls"]],
        "services": [(s["name"], s["id"], [(m["name"], m["id"], m["input"], m["output"]) for m in s["methods"]]) for s in r["services"]],
    }


def run(chk):
    from fcp.reflection import get_reflection_schema
    from fcp.specs.type import StructType
    quick = chk.tier == "quick"
    n = 120 if quick else 2500
    broken = chk.proof_obligations(["Corr/Reflect.vo"])
    chk.coverage["rule"] = (
        "schemas with every node kind (structs with units/ranges and any type nesting, enums, CAN impls with extension fields and signal blocks, "
        "services with methods, devices) parsed by the real front end; fcp.reflection() is embedded against the regenerated reflection schema, "
        "encoded and decoded with the real codec; Coq compares record, bytes and decoded record with the model and checks the record is in range; "
        "non-trivial = at least one impl with a signal block or one service; distinct = schema text")
    refl = get_reflection_schema().unwrap()
    cases, meta, fails = [], [], []
    nsplit = 0
    for _ in range(n):
        # enumerator values beyond i32 (known finding enum-value-i32) in about one schema in six only, so that most records are compared in full
        desc = gen_schema.gen_desc(chk.rng, "serde", max_fields=4, depth=2, max_enum_bits=40 if chk.rng.random() < 0.25 else 30)
        gen_schema.add_units_ranges(chk.rng, desc)
        gen_schema.add_can_impls(chk.rng, desc)
        gen_schema.add_services(chk.rng, desc)
        text = gen_schema.render(desc)
        fcp = serde_run.parse(text).unwrap()
        why = None
        try:
            rec = fcp.reflection()
            if fcp.reflection() != rec:
                fails.append({"kind": "reflection", "schema": text, "why": "a second fcp.reflection() of the same object differs from the first"})
        except Exception as e:
            rec, why = None, f"fcp.reflection() raised {e!r}"
        enc = dec = None
        if rec is not None:
            enc, e1 = serde_run.real_encode(refl, "Fcp", rec)
            if enc is None:
                why = f"encoding the record raised {e1!r}"
            else:
                dec, e2 = serde_run.real_decode(refl, "Fcp", enc)
                if dec is None:
                    why = f"decoding the record raised {e2!r}"
                elif not to_coq.values_equal(refl, StructType("Fcp"), dec, rec):
                    why = "decode(encode(record)) differs from the record"
            if why is None and listing_of_record(rec) != independent_listing(fcp):
                why = "the record does not list the schema's declarations with the declared values"
            # the units as written in the source text (the generator's descriptor, not the parsed objects)
            if why is None:
                want_units = {(s["name"], fl["name"]): fl.get("params", {}).get("unit") for s in desc["structs"] for fl in s["fields"]}
                got_units = {(s["name"], fl["name"]): fl["unit"] for s in rec["structs"] for fl in s["fields"]}
                if any(got_units.get(k) != v for k, v in want_units.items()):
                    k = next(k for k, v in want_units.items() if got_units.get(k) != v)
                    why = f"the record lists unit {got_units.get(k)!r} for {k[0]}.{k[1]}, the source declares {want_units[k]!r}"
            if why is None and dec is not None:
                # lossless: what comes back from the bytes still lists the declared values exactly (Python equality, not the
                # reflection schema's own field types - a narrower field type there would otherwise hide its own rounding)
                try:
                    same = listing_of_record(dec) == independent_listing(fcp)
                except Exception:
                    same = False
                if not same and not any(not (-2 ** 31 <= x.value < 2 ** 31) for e in fcp.enums for x in e.enumeration):
                    why = "the decoded record does not list the schema's declarations with the declared values (the encoding is lossy)"
        if why is None and desc.get("services") and nsplit < (12 if quick else 200):
            # the same schema with its services (and devices) kept in a module of their own: the record of the split schema lists what
            # the single-file schema declares
            nsplit += 1
            import front_run, shutil
            main = dict(desc, services=[], devices=[])
            mod = {"enums": [], "structs": [], "impls": [], "services": desc["services"], "devices": desc.get("devices", [])}
            files = {"main.fcp": gen_schema.render(main) + "\nmod rpc.services;\n", "rpc/services.fcp": gen_schema.render(mod)}
            wd = common.scratch_dir("verif_c12_")
            try:
                out = front_run.run_front(files, workdir=wd)
            finally:
                shutil.rmtree(wd, ignore_errors=True)
            chk.hist("split", out[0])
            if out[0] != "ok":
                why = f"the schema with its services in a module is not accepted: {str(out[1])[:200]}"
            else:
                try:
                    if listing_of_record(out[1].reflection()) != independent_listing(fcp):
                        why = "the record of the schema split into main file + module (services, devices) does not list what the single-file schema declares"
                except Exception as e:
                    why = f"reflection of the split schema raised {e!r}"
            if why:
                fails.append({"kind": "reflection", "schema": text, "files": files, "why": why})
                continue
        big_enum = any(not (-2 ** 31 <= x.value < 2 ** 31) for e in fcp.enums for x in e.enumeration)
        if big_enum and chk.find_known("enum-value-i32"):
            # known finding: the only admissible failure is a record that differs exactly at the wrapped enumerator values
            if why == "decode(encode(record)) differs from the record":
                fixed = json.loads(json.dumps(dec))
                for e_dec, e_src in zip(fixed["enums"], rec["enums"]):
                    for x_dec, x_src in zip(e_dec["enumeration"], e_src["enumeration"]):
                        if not (-2 ** 31 <= x_src["value"] < 2 ** 31) and (x_dec["value"] - x_src["value"]) % 2 ** 32 == 0:
                            x_dec["value"] = x_src["value"]
                if to_coq.values_equal(refl, StructType("Fcp"), fixed, rec):
                    chk.known_finding("enum-value-i32", "an enumerator value outside i32 does not survive the reflection round trip (reflection.fcp: Enumeration.value is i32)")
                    chk.hist("known", "enum-value-i32")
                    continue
            elif why is None:
                continue
        if why:
            fails.append({"kind": "reflection", "schema": text, "why": why})
            continue
        case = cpair(to_coq.rtree(fcp), to_coq.struct_value(refl, "Fcp", rec),
                     f"(Some {clist(cz(b) for b in enc)})", f"(Some {to_coq.struct_value(refl, 'Fcp', dec)})")
        cases.append(case); meta.append(text)
        nt = any(i.signals for i in fcp.impls) or bool(fcp.services)
        chk.count(text, nontrivial=nt, sample={"schema": text, "record_bytes": len(enc)})
        chk.hist("signal_blocks", sum(len(i.signals) for i in fcp.impls)); chk.hist("services", len(fcp.services))
    chk.log(f"{len(cases)} records; implementation-side failures: {len(fails)}")
    chk.coverage["traces_validated_against_impl"] = len(cases)
    mism = []
    if broken is None:
        try:
            mism = common.run_cases("Reflect", cases, shard=25)
        except common.CoqError as e:
            broken = f"correspondence could not be evaluated: {e}"
    fails.sort(key=lambda f: len(json.dumps(f, default=repr)))
    for f in fails[:3]:
        chk.violation(f)
    if not fails:
        for i in mism[:3]:
            chk.violation({"kind": "model-vs-implementation", "correspondence": "Corr.Reflect.check_case (model Reflect.Reflection)", "schema": meta[i]},
                          no_failing_input=True)
        if not mism and broken is not None:
            chk.violation({"kind": "proof-obligation", "broken": broken, "theorem": "Props/C12.v"}, no_failing_input=True)
    chk.assumptions += ["str(value) of extension values is taken from Python (opaque strings in the tree term)",
                        "field/service/method ids are non-negative and below 2^32, enum values and source positions fit i32 (checked per case by has_type in Coq; negative ids do not fit the reflection schema's u32)"]


def replay(chk, rep):
    print(json.dumps(rep, indent=1, default=repr)[:3000])
    return 1
