"""C15 — field ids, not declaration order, fix the wire order in every back end."""
import copy
import json
import shutil

import common
from props import c04
import gen_schema
import serde_run
import to_coq
from common import clist, cpair, cbool
from props.c04 import run_history


def twin(rng, desc):
    d = copy.deepcopy(desc)
    for s in d["structs"]:
        rng.shuffle(s["fields"])
    return d


def dbc_files(fcp):
    from fcp_dbc import Generator
    try:
        return [(r["bus"], r["contents"]) for r in Generator().generate(fcp, {"output": "out"})], None
    except Exception as e:
        return None, e


def c_files(fcp, outdir):
    from fcp_can_c import Generator
    try:
        return sorted((r["path"].split("/")[-1], r["contents"]) for r in Generator().generate(fcp, {"output": outdir})), None
    except Exception as e:
        return None, e


def cpp_twins(chk, fails, nsch, nval):
    """The generated C++ codec on twins (compiled with g++): both twins must write the Python codec's bytes and read them back."""
    import cxx_run
    import ref_wire
    from props import c03
    from fcp.specs.type import StructType
    from concurrent.futures import ThreadPoolExecutor
    work = common.scratch_dir("verif_c15cpp_")
    try:
        prepared = []
        for k in range(nsch):
            desc = c03.cpp_desc(chk.rng, 4)
            tw = twin(chk.rng, desc)
            for tag, d in ((f"a{k}", desc), (f"b{k}", tw)):
                text = gen_schema.render(d)
                fcp = serde_run.parse(text).unwrap()
                outdir = f"{work}/{tag}"
                try:
                    cxx_run.generate_cpp(fcp, outdir)
                    prepared.append((k, text, fcp, outdir))
                except Exception as e:
                    fails.append({"kind": "c++-generator-raised", "schema": text, "error": repr(e)})
        with ThreadPoolExecutor(max_workers=8) as ex:
            built = list(ex.map(lambda p: cxx_run.build(p[3]), prepared))
        values = {}
        for (k, text, fcp, outdir), (exe, err) in zip(prepared, built):
            if exe is None:
                fails.append({"kind": "generated-c++-does-not-compile", "schema": text, "error": [l for l in (err or "").split("\n") if "error" in l][:2]})
                continue
            drv = cxx_run.Driver(exe)
            try:
                if k not in values:
                    vs = []
                    for _ in range(nval):
                        s = chk.rng.choice(fcp.structs)
                        v = c03.clean_value(chk.rng, fcp, s.name)
                        if v is not None:
                            vs.append((s.name, v))
                    values[k] = vs
                for name, v in values[k]:
                    canonical = list(ref_wire.wire_bytes(fcp, name, v))
                    ans = drv.ask_or_crash(f"E {name} {cxx_run.to_json(v)}")
                    b = list(bytes.fromhex(ans[3:])) if ans.startswith("OK ") else None
                    ans2 = drv.ask_or_crash(f"D {name} {bytes(canonical).hex()}")
                    try:
                        d = json.loads(ans2[3:]) if ans2.startswith("OK ") else None
                    except ValueError:
                        d = None
                    chk.count((text, name, json.dumps(v, sort_keys=True), "c++"), nontrivial=True, sample=None)
                    chk.hist("c++ twin", "case")
                    if b != canonical:
                        fails.append({"kind": "c++-codec-encode", "schema": text, "struct": name, "value": v, "bytes": b, "canonical": canonical})
                    if d is None or not to_coq.values_equal(fcp, StructType(name), c03.coerce(fcp, StructType(name), d), v):
                        fails.append({"kind": "c++-codec-decode", "schema": text, "struct": name, "value": v, "canonical": canonical, "decoded": d, "answer": ans2[:200]})
            finally:
                drv.close()
    finally:
        shutil.rmtree(work, ignore_errors=True)


def run(chk):
    from fcp.specs.type import StructType
    quick = chk.tier == "quick"
    nser, nlay = (60, 120) if quick else (1500, 3000)
    broken = chk.proof_obligations(["Corr/Serde.vo", "Corr/Layout.vo"])
    chk.coverage["rule"] = (
        "each generated schema is run next to a twin whose structs declare the same fields (same ids) in a shuffled order: "
        "Python codec bytes (serde profile), generated C++ codec (compiled, both directions), packed layout for both unroll settings, DBC text and generated C sources (fixed profile "
        "with CAN impls) must be identical, and both twins must agree with the Coq model; non-trivial = the twin's declaration order differs")
    ser_cases, lay_cases, meta_s, meta_l, fails = [], [], [], [], []
    for _ in range(nser):
        desc = gen_schema.gen_desc(chk.rng, "serde")
        tw = twin(chk.rng, desc)
        ta, tb = gen_schema.render(desc), gen_schema.render(tw)
        fa, fb = serde_run.parse(ta).unwrap(), serde_run.parse(tb).unwrap()
        sa, sb = to_coq.schema(fa), to_coq.schema(fb)
        for _ in range(6):
            s = chk.rng.choice(fa.structs)
            v = to_coq.gen_struct_value(chk.rng, fa, s.name)
            ba, ea = serde_run.real_encode(fa, s.name, v)
            bb, eb = serde_run.real_encode(fb, s.name, v)
            ser_cases.append(serde_run.enc_case(sa, fa, s.name, v, ba)); meta_s.append((ta, s.name, v))
            ser_cases.append(serde_run.enc_case(sb, fb, s.name, v, bb)); meta_s.append((tb, s.name, v))
            chk.count((ta, tb, s.name, json.dumps(v, sort_keys=True, default=repr)), nontrivial=ta != tb,
                      sample={"schema": ta, "twin": tb, "struct": s.name, "value": v, "bytes": ba})
            if ba != bb:
                fails.append({"kind": "python-codec", "schema": ta, "twin": tb, "struct": s.name, "value": v, "bytes": ba, "twin_bytes": bb})
    work = common.scratch_dir("verif_c15_")
    try:
        for _ in range(nlay):
            desc = gen_schema.gen_desc(chk.rng, "fixed", max_fields=5, depth=2)
            gen_schema.add_can_impls(chk.rng, desc)
            tw = twin(chk.rng, desc)
            ta, tb = gen_schema.render(desc), gen_schema.render(tw)
            fa, fb = serde_run.parse(ta).unwrap(), serde_run.parse(tb).unwrap()
            sa, sb = to_coq.schema(fa), to_coq.schema(fb)
            for unroll in (False, True):
                ra, rb = run_history(fa, unroll, fa.impls), run_history(fb, unroll, fb.impls)
                for f, st, r, t in ((fa, sa, ra, ta), (fb, sb, rb, tb)):
                    obs = clist("None" if x is None else f"(Some {clist(to_coq.opiece(p) for p in x)})" for x, _ in r)
                    lay_cases.append(cpair(st, cbool(unroll), clist(to_coq.impl(im) for im in serde_run.parse(t).unwrap().impls), obs)); meta_l.append((t, unroll))
                va = [None if x is None else [(p.name, p.bitstart, p.bitlength, p.endianess) for p in x] for x, _ in ra]
                vb = [None if x is None else [(p.name, p.bitstart, p.bitlength, p.endianess) for p in x] for x, _ in rb]
                chk.count((ta, tb, unroll), nontrivial=ta != tb, sample=None)
                if va != vb:
                    fails.append({"kind": "packed-layout", "schema": ta, "twin": tb, "unroll": unroll, "layout": va, "twin_layout": vb})
                # "ascending field id" itself, not only "the same for both declaration orders": the leaves of every layout are the
                # hierarchical names read off the schema as written, fields in ascending id (the reference walk of C04)
                ref_a = serde_run.parse(ta).unwrap()
                for im, (x, _) in zip(ref_a.impls, ra):
                    if x is None:
                        continue
                    try:
                        want = c04.expected_names(ref_a, im.type, unroll)
                    except Exception:
                        continue
                    if [p.name for p in x] != want:
                        fails.append({"kind": "packed-layout-not-in-ascending-field-id", "schema": ta, "unroll": unroll, "impl": im.name + "/" + im.protocol,
                                      "leaves": [p.name for p in x][:16], "ascending_id_order": want[:16]})
            da, ea = dbc_files(fa)
            db, eb = dbc_files(fb)
            if da != db or (ea is None) != (eb is None):
                fails.append({"kind": "dbc", "schema": ta, "twin": tb, "error": repr(ea), "twin_error": repr(eb)})
            ca, ea = c_files(fa, work + "/a")
            cb, eb = c_files(fb, work + "/a")
            if ca != cb or (ea is None) != (eb is None):
                fails.append({"kind": "generated-c", "schema": ta, "twin": tb, "error": repr(ea), "twin_error": repr(eb)})
            chk.hist("dbc", "ok" if ea is None else "raises")
    finally:
        shutil.rmtree(work, ignore_errors=True)
    cpp_twins(chk, fails, 2 if quick else 12, 12 if quick else 40)
    chk.log(f"{len(ser_cases)} codec cases, {len(lay_cases)} layout cases; implementation-side failures: {len(fails)}")
    chk.coverage["traces_validated_against_impl"] = len(ser_cases) + len(lay_cases)
    mism_s, tr_s, broken = common.run_model_and_translated(chk, "Serde", "SerdeGen", ser_cases, broken)
    n_s = chk.coverage.get("cases_also_run_on_the_translated_source", 0)
    mism_l, tr_l, broken = common.run_model_and_translated(chk, "Layout", "LayoutGen", lay_cases, broken, shard=150)
    chk.coverage["cases_also_run_on_the_translated_source"] = n_s + chk.coverage.get("cases_also_run_on_the_translated_source", 0)
    fails.sort(key=lambda f: len(json.dumps(f, default=repr)))
    for f in fails[:3]:
        chk.violation(f)
    if not fails:
        for i in mism_s[:2]:
            chk.violation({"kind": "model-vs-implementation", "correspondence": "Corr.Serde.check_case", "schema": meta_s[i][0],
                           "struct": meta_s[i][1], "value": meta_s[i][2]}, no_failing_input=True)
        for i in mism_l[:2]:
            chk.violation({"kind": "model-vs-implementation", "correspondence": "Corr.Layout.check_case", "schema": meta_l[i][0],
                           "unroll": meta_l[i][1]}, no_failing_input=True)
        for i in ([] if (mism_s or mism_l) else tr_s[:2]):
            chk.violation({"kind": "translated-source-vs-implementation", "correspondence": "Corr.SerdeGen.check_translated", "schema": meta_s[i][0],
                           "struct": meta_s[i][1], "value": meta_s[i][2]}, no_failing_input=True)
        for i in ([] if (mism_s or mism_l) else tr_l[:2]):
            chk.violation({"kind": "translated-source-vs-implementation", "correspondence": "Corr.LayoutGen.check_translated", "schema": meta_l[i][0],
                           "unroll": meta_l[i][1]}, no_failing_input=True)
        if not mism_s and not mism_l and not tr_s and not tr_l and broken is not None:
            chk.violation({"kind": "proof-obligation", "broken": broken, "theorem": "Props/C15.v"}, no_failing_input=True)
    chk.assumptions += ["the generated C++ codecs are compiled and run on a few twins here (encode = canonical bytes, decode of canonical bytes = value) and at length by the C03 check",
                        "DBC text and generated C sources are compared verbatim between twins (implementation side); the Coq theorems cover the Python codec and the layout every CAN back end consumes"]


def replay(chk, rep):
    print(json.dumps(rep, indent=1, default=repr)[:4000])
    return 1
