"""C13 — the schema loaded at run time from reflection behaves like the compiled one."""
import own_lookup
import json
import shutil
from concurrent.futures import ThreadPoolExecutor

import common
import cxx_run
import gen_schema
import ref_wire
import serde_run
import to_coq
from common import cz, cstr, clist, cpair
from props.c03 import clean_value, coerce


def c13_desc(rng, nstructs, aligned):
    desc = gen_schema.gen_desc(rng, "serde", nstructs=nstructs, max_fields=4, depth=2)
    for e in desc["enums"]:
        seen, vals = set(), []
        for n, v in e["vals"]:
            v = v % 255 + 1
            if v not in seen:
                seen.add(v); vals.append((n, v))
        e["vals"] = vals
        if aligned:                       # force an 8-bit enum
            e["vals"] = [(n, v) for n, v in vals][:3] + [("Top", 200)] if all(v != 200 for _, v in vals) else vals
    if aligned:
        def fix(t):
            if t[0] in ("u", "i"):
                return (t[0], max(8, (t[1] + 7) // 8 * 8))
            if t[0] == "arr":
                return ("arr", fix(t[1]), t[2])
            if t[0] in ("dyn", "opt"):
                return (t[0], fix(t[1]))
            return t
        for s in desc["structs"]:
            for f in s["fields"]:
                f["type"] = fix(f["type"])
            s["fields"].sort(key=lambda f: f["id"])
    else:
        # every variable-size and multi-byte constructor once at a bit offset that is not a multiple of 8 (decoding of canonical
        # bytes must follow the bit cursor there), in id order so that only the offset is unusual
        lead = rng.choice([1, 3, 5, 7])
        desc["structs"].append({"name": "Odd0", "fields": [
            {"name": "a", "id": 0, "type": ("u", lead)}, {"name": "s", "id": 1, "type": ("str",)}, {"name": "b", "id": 2, "type": ("u", 8 - lead)}]})
        # dynamic arrays whose elements are narrower than a byte (more elements than bytes), last in the message and followed by a field
        nw = rng.choice([1, 2, 4, 7])
        desc["structs"].append({"name": "Odd2", "fields": [
            {"name": "seq", "id": 0, "type": ("u", 8)}, {"name": "data", "id": 1, "type": ("dyn", ("u", nw))}]})
        desc["structs"].append({"name": "Odd3", "fields": [
            {"name": "bits", "id": 0, "type": ("dyn", ("u", rng.choice([1, 3]))), }, {"name": "crc", "id": 1, "type": ("u", 16)}]})
        desc["structs"].append({"name": "Odd1", "fields": [
            {"name": "a", "id": 0, "type": ("u", lead)}, {"name": "l", "id": 1, "type": ("dyn", ("str",))},
            {"name": "o", "id": 2, "type": ("opt", ("u", 16))}, {"name": "f", "id": 3, "type": ("f32",)}, {"name": "w", "id": 4, "type": ("arr", ("u", 8), 2)}]})
    # an enum that no field has as its own type: it is only the element type of containers (in the aligned mode a whole-byte one)
    desc["enums"].append({"name": "EInner", "vals": [("Low", 1), ("Mid", 2), ("High", 200 if aligned else rng.choice([3, 5, 200]))]})
    desc["structs"].append({"name": "Inner", "fields": [
        {"name": "id", "id": 0, "type": ("u", 8)}, {"name": "o", "id": 1, "type": ("opt", ("enum", "EInner"))},
        {"name": "a", "id": 2, "type": ("arr", ("enum", "EInner"), 2)}, {"name": "d", "id": 3, "type": ("dyn", ("enum", "EInner"))}]})
    return desc


def names_json(fcp, t, v):
    """The JSON the run-time codec takes: enumerators by name."""
    from fcp.specs import type as T
    if type(t) is T.EnumType:
        e = own_lookup.enum(fcp, t.name)
        return next(x.name for x in e.enumeration if x.value == v)
    if type(t) in (T.ArrayType, T.DynamicArrayType):
        return [names_json(fcp, t.underlying_type, x) for x in v]
    if type(t) is T.OptionalType:
        return None if v is None else names_json(fcp, t.underlying_type, v)
    if type(t) is T.StructType:
        s = own_lookup.struct(fcp, t.name)
        return {f.name: names_json(fcp, f.type, v[f.name]) for f in s.fields}
    return v


def numbers(fcp, t, v):
    """Decoded JSON of the run-time codec -> numbered enumerators, Python value shape."""
    from fcp.specs import type as T
    if type(t) is T.EnumType:
        e = own_lookup.enum(fcp, t.name)
        return next(x.value for x in e.enumeration if x.name == v)
    if type(t) in (T.FloatType, T.DoubleType):
        return float(v)
    if type(t) in (T.ArrayType, T.DynamicArrayType):
        return [numbers(fcp, t.underlying_type, x) for x in (v or [])]
    if type(t) is T.OptionalType:
        return None if v is None else numbers(fcp, t.underlying_type, v)
    if type(t) is T.StructType:
        s = own_lookup.struct(fcp, t.name)
        return {f.name: numbers(fcp, f.type, v[f.name]) for f in s.fields}
    return v


def classes(fcp, t, v, top=True):
    """Which known-finding classes of the run-time codec this (type, value) falls into."""
    from fcp.specs import type as T
    out = set()
    if type(t) in (T.UnsignedType, T.SignedType):
        if t.get_length() % 8:
            out.add("dyn-byte-align")
        if type(t) is T.SignedType and v < 0:
            out.add("dyn-negative-decode")
    elif type(t) is T.EnumType:
        if ref_wire.enum_width(own_lookup.enum(fcp, t.name)) % 8:
            out.add("dyn-byte-align")
    elif type(t) in (T.ArrayType, T.DynamicArrayType):
        for x in v:
            out |= classes(fcp, t.underlying_type, x, False)
        if type(t) is T.ArrayType and not v:
            pass
    elif type(t) is T.OptionalType:
        if v is not None:
            if v == [] or v == {}:
                out.add("dyn-optional-empty")
            out |= classes(fcp, t.underlying_type, v, False)
    elif type(t) is T.StructType:
        s = own_lookup.struct(fcp, t.name)
        if [f.field_id for f in s.fields] != sorted(f.field_id for f in s.fields):
            out.add("dyn-declaration-order")
        for f in s.fields:
            out |= classes(fcp, f.type, v[f.name], False)
    return out


WHAT = {
    "dyn-byte-align": "the run-time encoder byte-aligns every scalar/element/field (each is encoded into its own Buffer and appended), so schemas with sub-byte leaves encode differently from the static codec",
    "dyn-negative-decode": "the run-time decoder returns a negative signed field as the unsigned 64-bit word (-7 -> 18446744073709551609)",
    "dyn-declaration-order": "the run-time codec walks struct fields in declaration order (the order of the reflection record), the static one in ascending field id",
    "dyn-optional-empty": "the run-time encoder writes Some([]) / Some({}) of an Optional as absent (json::empty())",
}


def run(chk):
    from fcp import serde
    from fcp.reflection import get_reflection_schema
    from fcp.specs.type import StructType
    quick = chk.tier == "quick"
    nsch, nstructs, nval = (4, 8, 30) if quick else (32, 10, 70)
    broken = chk.proof_obligations(["Corr/Dyn.vo"])
    chk.coverage["rule"] = (
        "schemas of ~8 structs (every constructor; half of them with whole-byte scalars declared in id order, half unrestricted) shipped as the "
        "reflection binary produced by the Python tool; one process hosts fcp::dynamic::DynamicSchema (after LoadBinarySchemaFromFile) and "
        "fcp::StaticSchema; EncodeJson of both and DecodeJson of canonical bytes of both are compared with each other and, in Coq, with the model of "
        "the run-time codec; differences are admitted only inside the listed known-finding classes and only with the model's exact signature")
    refl = get_reflection_schema().unwrap()
    work = common.scratch_dir("verif_c13_")
    cases, meta, fails, pending = [], [], [], []
    try:
        prepared = []
        for k in range(nsch):
            desc = c13_desc(chk.rng, nstructs, aligned=(k % 2 == 0))
            if k % 2 == 1 or not quick:
                # text beyond 7-bit ASCII somewhere in the schema (here: a binding's extension field, which travels in the reflection
                # binary ahead of most of the record): every character is one byte there, and what follows must stay aligned
                desc["impls"].append({"protocol": "uart", "type": desc["structs"][0]["name"], "name": "Note",
                                      "fields": [("note", chk.rng.choice(["temperature in \u00b0C", "\u00b5s", "\u00e9tat: pr\u00eat", "\u00b1 5 %"]))], "signals": []})
            text = gen_schema.render(desc)
            fcp = serde_run.parse(text).unwrap()
            outdir = f"{work}/s{k}"
            cxx_run.generate_cpp(fcp, outdir)
            with open(outdir + "/refl.bin", "wb") as f:
                f.write(bytes(serde.encode(refl, "Fcp", fcp.reflection())))
            prepared.append((text, fcp, outdir))
        with ThreadPoolExecutor(max_workers=8) as ex:
            built = list(ex.map(lambda p: cxx_run.build(p[2], defines=["WITH_DYNAMIC"]), prepared))
        chk.coverage["programs"] = sum(1 for b in built if b[0])
        for (text, fcp, outdir), (exe, err) in zip(prepared, built):
            if exe is None:
                fails.append({"kind": "generated-c++-does-not-compile", "schema": text, "error": [l for l in err.split("\n") if "error" in l][:2]})
                continue
            drv = cxx_run.Driver(exe, [outdir + "/refl.bin"])
            first = drv.p.stdout.readline().strip()
            if first != "LOADED":
                fails.append({"kind": "run-time-schema-does-not-load", "schema": text, "answer": first})
                drv.close()
                continue
            sterm = to_coq.schema(fcp)
            try:
                for _ in range(nval):
                    s = chk.rng.choice(fcp.structs)
                    v = clean_value(chk.rng, fcp, s.name)
                    if v is None:
                        continue
                    t = StructType(s.name)
                    cls = classes(fcp, t, v)
                    for c in cls:
                        chk.hist("class", c)
                    chk.hist("class", "none" if not cls else "some")
                    st = drv.ask(f"E {s.name} {cxx_run.to_json(v)}")
                    try:
                        dy = drv.ask(f"e {s.name} {cxx_run.to_json(names_json(fcp, t, v))}")
                    except RuntimeError as e:
                        fails.append({"kind": "run-time-encoder-crashed", "schema": text, "struct": s.name, "value": v, "error": str(e)[:200]})
                        drv = cxx_run.Driver(exe, [outdir + "/refl.bin"]); drv.p.stdout.readline()
                        continue
                    b = list(bytes.fromhex(dy[3:])) if dy.startswith("OK ") else None
                    cases.append(cpair(sterm, cstr(s.name), f"(DEnc {to_coq.struct_value(fcp, s.name, v)} " +
                                       ("None" if b is None else f"(Some {clist(cz(x) for x in b)})") + ")"))
                    meta.append((text, s.name, v, "encode"))
                    if st != dy:
                        pending.append((len(cases) - 1, cls & {"dyn-byte-align", "dyn-declaration-order", "dyn-optional-empty"},
                                        {"kind": "run-time-encode-differs-from-static", "schema": text, "struct": s.name, "value": v, "static": st[:120], "dynamic": dy[:120]}))
                    chk.count((text, s.name, json.dumps(v, sort_keys=True)), nontrivial=len(json.dumps(v)) > 12,
                              sample={"struct": s.name, "value": v, "static": st[:60], "dynamic": dy[:60], "classes": sorted(cls)})
                    if "dyn-declaration-order" in cls:
                        continue          # decoding in the wrong field order reads arbitrary enumerators (undefined behaviour in find_if)
                    canonical = list(ref_wire.wire_bytes(fcp, s.name, v))
                    sd = drv.ask(f"D {s.name} {bytes(canonical).hex()}")
                    try:
                        dd = drv.ask(f"d {s.name} {bytes(canonical).hex()}")
                    except RuntimeError as e:
                        fails.append({"kind": "run-time-decoder-crashed", "schema": text, "struct": s.name, "value": v, "error": str(e)[:200]})
                        drv = cxx_run.Driver(exe, [outdir + "/refl.bin"]); drv.p.stdout.readline()
                        continue
                    try:
                        dv = numbers(fcp, t, json.loads(dd[3:])) if dd.startswith("OK ") else None
                        dterm = "None" if dv is None else f"(Some {to_coq.struct_value(fcp, s.name, dv)})"
                    except (TypeError, KeyError, StopIteration, ValueError):
                        dv, dterm = None, "None"
                    cases.append(cpair(sterm, cstr(s.name), f"(DDec {clist(cz(x) for x in canonical)} {dterm})"))
                    meta.append((text, s.name, v, "decode"))
                    same = dv is not None and sd.startswith("OK ") and to_coq.values_equal(fcp, t, dv, coerce(fcp, t, json.loads(sd[3:])))
                    if not same:
                        pending.append((len(cases) - 1, cls & {"dyn-negative-decode"},
                                        {"kind": "run-time-decode-differs-from-static", "schema": text, "struct": s.name, "value": v, "static": sd[:120], "dynamic": dd[:120]}))
            finally:
                drv.close()
    finally:
        shutil.rmtree(work, ignore_errors=True)
    chk.log(f"{len(cases)} cases over {chk.coverage.get('programs')} compiled schemas; static/run-time differences: {len(pending)}; other failures: {len(fails)}")
    chk.coverage["traces_validated_against_impl"] = len(cases)
    mism = []
    if broken is None:
        try:
            mism = common.run_cases("Dyn", cases, shard=120)
        except common.CoqError as e:
            broken = f"correspondence could not be evaluated: {e}"
    bad = set(mism)
    for idx, cls, rep in pending:
        known = [c for c in cls if chk.find_known(c)]
        if known and idx not in bad and broken is None:
            for c in known:
                chk.known_finding(c, WHAT[c])
        else:
            rep["classes"] = sorted(cls)
            rep["model_agrees"] = idx not in bad
            fails.append(rep)
    fails.sort(key=lambda f: len(json.dumps(f, default=repr)))
    for f in fails[:3]:
        chk.violation(f)
    if not fails:
        for i in [i for i in mism if i not in {p[0] for p in pending}][:3]:
            chk.violation({"kind": "model-vs-implementation", "correspondence": "Corr.Dyn.check_case (model Cpp.CppDynamic)", "schema": meta[i][0],
                           "struct": meta[i][1], "value": meta[i][2], "op": meta[i][3]}, no_failing_input=True)
        if not mism and broken is not None:
            chk.violation({"kind": "proof-obligation", "broken": broken, "theorem": "Props/C13.v"}, no_failing_input=True)
    chk.assumptions += ["as C03; enumerators are between 1 and 255 (an enum whose only value is 0 is a separate known finding, see DESIGN)",
                        "the run-time decoder is not driven on structs declared out of id order (it would look up arbitrary enumerator values: undefined behaviour)"]


def replay(chk, rep):
    print(json.dumps(rep, indent=1, default=repr)[:3000])
    return 1
