"""C10 — code generation is gated by verification: rejected schemas write nothing."""
import copy
import json
import os
import shutil

import common
import gen_schema
import serde_run
import to_coq
from common import cz, cstr, clist, cpair

PLUGSET = {"dbc": "Dbc", "can_c": "CanC", "cpp": "NoPlugin", "nop": "NoPlugin"}
PRE = {"old.h": "stale header", "stale.c": "stale source", "keep.txt": "user file", "default.fcp": "previous dbc", "fcp.h": "previous fcp.h"}


def inject(rng, fcp):
    """Mutate a parsed tree so that one check fails (any category, any position).  Returns a label."""
    from fcp.specs.device import Device
    kinds = ["none", "none", "dup_type", "dup_field", "empty_struct", "dup_enum_name", "dup_enum_value", "dup_impl",
             "unknown_type", "dup_can_id", "bad_service", "too_big"]
    k = rng.choice(kinds)
    if k == "dup_type" and fcp.structs:
        s = copy.copy(rng.choice(fcp.structs))
        fcp.structs.insert(rng.randrange(len(fcp.structs) + 1), s)
    elif k == "dup_field" and fcp.structs:
        s = rng.choice(fcp.structs)
        s.fields.insert(rng.randrange(len(s.fields) + 1), copy.copy(rng.choice(s.fields)))
    elif k == "empty_struct" and fcp.structs:
        rng.choice(fcp.structs).fields = []
    elif k == "dup_enum_name" and fcp.enums:
        e = rng.choice(fcp.enums)
        x = copy.copy(rng.choice(e.enumeration)); x.value = 10 ** 9
        e.enumeration.insert(rng.randrange(len(e.enumeration) + 1), x)
    elif k == "dup_enum_value" and fcp.enums:
        e = rng.choice(fcp.enums)
        x = copy.copy(rng.choice(e.enumeration)); x.name = "Zz"
        e.enumeration.insert(rng.randrange(len(e.enumeration) + 1), x)
    elif k == "dup_impl" and fcp.impls:
        fcp.impls.insert(rng.randrange(len(fcp.impls) + 1), copy.copy(rng.choice(fcp.impls)))
    elif k == "unknown_type" and fcp.impls:
        i = copy.copy(rng.choice(fcp.impls)); i.type = "Nope"; i.name = "Nope"
        fcp.impls.insert(rng.randrange(len(fcp.impls) + 1), i)
    elif k == "dup_can_id":
        cans = [i for i in fcp.impls if i.protocol == "can"]
        if len(cans) >= 2:
            a, b = rng.sample(cans, 2)
            b.fields = dict(b.fields); b.fields["id"] = a.fields.get("id")
        else:
            k = "none"
    elif k == "bad_service":
        fcp.devices.insert(rng.randrange(len(fcp.devices) + 1), Device("dev", {"services": ["nope"]}))
    elif k == "too_big" and fcp.structs:
        from fcp.specs.struct_field import StructField
        from fcp.specs.type import UnsignedType
        s = rng.choice(fcp.structs)
        for j in range(2):
            s.fields.append(StructField(f"big{j}", 100 + j, UnsignedType("u64")))
    else:
        k = "none"
    return k


def snapshot(d):
    out = {}
    for root, _, files in os.walk(d):
        for fn in files:
            p = os.path.join(root, fn)
            with open(p, "rb") as f:
                out[os.path.relpath(p, d)] = (f.read(), os.stat(p).st_mtime_ns)
    return out


class Capture:
    def __init__(self, name):
        import importlib
        self.mod = importlib.import_module("fcp_" + name)
        self.cls = self.mod.Generator
        self.returned = None
        self.raised = False

    def __enter__(self):
        orig = self.cls.generate
        cap = self

        def rec(this, fcp, ctx):
            try:
                r = orig(this, fcp, ctx)
            except BaseException:
                cap.raised = True
                raise
            cap.returned = r
            return r
        self.orig = orig
        self.cls.generate = rec
        return self

    def __exit__(self, *a):
        self.cls.generate = self.orig
        return False


CATEGORY_NODES = {
    "struct": lambda f: len(f.structs),
    "field": lambda f: sum(len(s.fields) for s in f.structs),
    "enum": lambda f: len(f.enums),
    "impl": lambda f: len(f.impls),
    "signal_block": lambda f: sum(len(i.signals) for i in f.impls),
    "type": lambda f: len(f.structs) + len(f.enums),
    "device": lambda f: len(f.devices),
}


def verifier_with_house_rule(rng, fcp):
    """The general verifier plus checks registered through the public API (fcp.verifier.register): some that always pass and,
    at a random position of a random category, one that rejects the m-th node it is shown.  Returns (verifier, label, fires)."""
    from fcp.verifier import make_general_verifier, register, Verifier
    from fcp.error import error
    from fcp.result import Ok
    # in a third of the cases the caller hands the manager a verifier of its own that holds no check yet and registers its rules on that
    # object afterwards (the plug-ins register theirs as late as inside generate()): it is the caller's object that must gate generation
    late = rng.random() < 0.33
    v = Verifier() if late else make_general_verifier()
    pending = []
    if late:
        def register(verifier, category, _pending=pending):            # noqa: F811 - deferred registration, same API shape
            return lambda fn: _pending.append((category, fn)) or fn
    cat = rng.choice(sorted(CATEGORY_NODES))
    count = CATEGORY_NODES[cat](fcp)
    m = rng.randrange(count) if count else 0
    before, after = rng.randint(0, 2), rng.randint(0, 1)
    others = rng.sample(sorted(CATEGORY_NODES), rng.randint(0, 3))
    calls = []

    # every rule is a fresh closure of one factory, as a plug-in's `forbid_struct_name("Legacy")`, `forbid_struct_name("Old")` would be:
    # same module, same qualified name, different behaviour
    def rule(reject_at):
        def check(self, f, node):
            if reject_at is None:
                return Ok(())
            calls.append(1)
            return error(f"house rule: node {m} of category {cat} is not allowed") if len(calls) == reject_at + 1 else Ok(())
        return check
    for c in others:
        register(v, c)(rule(None))
    for _ in range(before):
        register(v, cat)(rule(None))
    position = len(v.checks[cat])
    register(v, cat)(rule(m))
    for _ in range(after):
        register(v, cat)(rule(None))
    def register_late():
        from fcp.verifier import register as real_register
        for c, fn in pending:
            real_register(v, c)(fn)
    if late:
        position = "late"
    return v, f"house-rule:{cat}:position{position}:node{m}", count > 0, (register_late if late else None)


def run_generate(name, fcp, out_dir, verifier=None, warmup=None, after_construction=None):
    """warmup = (generator name, scratch directory): the same manager first generates, from the same parsed schema, with a plug-in that
    registers no checks of its own (nop, cpp); what it found acceptable then must not decide the later, stricter generation."""
    from fcp.codegen import GeneratorManager
    from fcp.verifier import make_general_verifier
    import contextlib, io
    with Capture(name) as cap, contextlib.redirect_stdout(io.StringIO()):
        try:
            manager = GeneratorManager(verifier if verifier is not None else make_general_verifier())
            if after_construction is not None:
                after_construction()
            if warmup is not None:
                try:
                    manager.generate(warmup[0], None, None, fcp, warmup[1])
                except SystemExit:
                    raise
                except Exception:
                    pass
            r = manager.generate(name, None, None, fcp, out_dir)
            res = "OROk" if r.is_ok() else "ORErr"
        except SystemExit:
            raise
        except Exception:
            res = "ORExn"
    return res, cap


def run(chk):
    quick = chk.tier == "quick"
    n = 140 if quick else 2500
    broken = chk.proof_obligations(["Corr/Pipeline.vo"])
    chk.coverage["rule"] = (
        "schemas from the fixed profile with CAN impls, parsed by the real front end, then one fault injected into the tree (duplicate type/field/"
        "enumerator/impl, empty struct, unknown bound type, duplicate CAN id, missing service, oversize; first/middle/last position) or none, "
        "or - with no fault in the tree - a rejecting check registered through fcp.verifier.register in a random category at a random position "
        "among passing ones, rejecting a random node (in a third of these the verifier handed to the manager is the caller's own, still empty, and the rules are registered on it after the manager was built); "
        "GeneratorManager(make_general_verifier()).generate run for dbc, can_c, cpp, nop (in a third of the dbc/can_c runs after the same manager generated with nop or cpp from the same parsed schema) on a pre-populated output directory (user files, and stale files of up to 200 kB at the output paths); result and the "
        "directory before/after (names, contents, mtimes) observed; non-trivial = a fault was injected or files were written")
    cases, meta, fails = [], [], []
    ids = {}

    def cid(content):
        if isinstance(content, str):
            content = content.encode()
        return ids.setdefault(content, len(ids) + 1)

    work = common.scratch_dir("verif_c10_")
    try:
        for k in range(n):
            desc = gen_schema.gen_desc(chk.rng, "fixed", max_fields=4, depth=1, nstructs=chk.rng.randint(1, 3))
            gen_schema.add_can_impls(chk.rng, desc, p=0.9)
            if chk.rng.random() < 0.3:
                # two services whose names differ only in spelling style: the C++ plug-in derives the same file names for both and
                # returns those paths twice; what ends up in each file must be what was returned for it (the last one, as written)
                names = [st["name"] for st in desc["structs"]]
                a, b = chk.rng.choice([("MotorCtl", "motor_ctl"), ("motor_ctl", "MotorCtl"), ("LogSvc", "log_svc")])
                desc["services"] = [{"name": nm, "id": q, "methods": [{"name": f"m{q}", "id": 0, "input": chk.rng.choice(names), "output": chk.rng.choice(names)}]}
                                    for q, nm in enumerate((a, b))]
                desc["devices"] = []
            text = gen_schema.render(desc)
            fcp = serde_run.parse(text).unwrap()
            house = None
            if chk.rng.random() < 0.3:
                # no fault in the tree: a check registered through the public API rejects instead (any category, any position)
                if chk.rng.random() < 0.5:
                    fcp.devices.append(__import__("fcp.specs.device", fromlist=["Device"]).Device("dev0", {"id": 1}))
                house = verifier_with_house_rule(chk.rng, fcp)
                fault = house[1]
            else:
                fault = inject(chk.rng, fcp)
            name = chk.rng.choice(["dbc", "can_c", "cpp", "nop", "dbc", "can_c"])
            out = os.path.join(work, f"o{k}")
            os.makedirs(out)
            pre = dict(PRE) if chk.rng.random() < 0.8 else {}
            # what is there from an earlier generation may be longer than what is written now (a larger schema then): exactly the returned
            # contents must remain, nothing of the old file
            for fn in list(pre) + ["fcp_can.h", "can_static_schema.h", "fcp_default.h"]:
                if pre and chk.rng.random() < 0.5:
                    pre[fn] = pre.get(fn, "previous " + fn) + "\n" + "/* left over from a larger schema */\n" * chk.rng.choice([1, 400, 6000])
            for fn, c in pre.items():
                with open(os.path.join(out, fn), "w") as f:
                    f.write(c)
            before = snapshot(out)
            try:
                tterm = to_coq.ftree(fcp)
            except TypeError as e:
                raise RuntimeError(f"tree outside the model: {e}")
            warm = None
            if house is None and name in ("dbc", "can_c") and chk.rng.random() < 0.3:      # (the house rules count their calls: one verification each)
                warm = (chk.rng.choice(["nop", "cpp"]), os.path.join(work, f"w{k}"))
                os.makedirs(warm[1])
                chk.hist("warmup", warm[0])
            res, cap = run_generate(name, fcp, out, house[0] if house else None, warmup=warm, after_construction=house[3] if house else None)
            if warm is not None:
                shutil.rmtree(warm[1], ignore_errors=True)
            after = snapshot(out)
            # what the plug-in returned (or would have returned / raised)
            if cap.returned is not None:
                files = [(os.path.relpath(str(r["path"]), out), str(r["contents"])) for r in cap.returned if r.get("type") == "file"]
                pout = "(PFiles %s)" % clist(cpair(cstr(fn), cz(cid(c))) for fn, c in files)
            else:
                files = None
                pout = "PRaise"
            fsb = clist(cpair(cstr(fn), cz(cid(c))) for fn, (c, _) in sorted(before.items()))
            fsa = clist(cpair(cstr(fn), cz(cid(c))) for fn, (c, _) in sorted(after.items()))
            if house is None:            # the model knows the shipped checks only; house rules are judged by the predicates below
                cases.append(cpair(PLUGSET[name], tterm, pout, fsb, res, fsa))
                meta.append((text, fault, name, res))
            chk.count((text, fault, name), nontrivial=(fault != "none" or files),
                      sample={"schema": text, "fault": fault, "generator": name, "result": res,
                              "written": None if files is None else [f for f, _ in files][:6]})
            chk.hist("fault", fault.split(":node")[0]); chk.hist("generator", name); chk.hist("result", res)
            if house is not None and house[2] and res == "OROk":
                fails.append({"kind": "rejected-by-a-registered-check-but-generated", "schema": text, "fault": fault, "generator": name,
                              "how": "checks registered with fcp.verifier.register on make_general_verifier(): see fault = house-rule:<category>:position<k>:node<m>"})
            # the property's own predicate on the implementation
            if res in ("ORErr", "ORExn") and before != after:
                changed = sorted(set(before) ^ set(after) | {f for f in before if f in after and before[f] != after[f]})
                fails.append({"kind": "rejected-but-directory-changed", "schema": text, "fault": fault, "generator": name, "result": res, "changed": changed})
            if res == "OROk":
                want = {f: c for f, (c, _) in before.items() if not (name == "can_c" and (f.endswith(".h") or f.endswith(".c")))}
                for fn, c in files or []:
                    want[fn] = c.encode()
                got = {f: c for f, (c, _) in after.items()}
                if want != got:
                    fails.append({"kind": "accepted-but-directory-differs-from-returned-files", "schema": text, "fault": fault, "generator": name,
                                  "missing": sorted(set(want) - set(got)), "extra": sorted(set(got) - set(want)),
                                  "different": sorted(f for f in want if f in got and want[f] != got[f])})
            if res == "OROk" and house is None and fault not in ("none", "dup_can_id", "too_big", "unknown_type") :
                fails.append({"kind": "rejected-schema-was-generated", "schema": text, "fault": fault, "generator": name})
            shutil.rmtree(out, ignore_errors=True)
    finally:
        shutil.rmtree(work, ignore_errors=True)
    chk.log(f"{len(cases)} generate runs; implementation-side failures: {len(fails)}")
    chk.coverage["traces_validated_against_impl"] = len(cases)
    mism = []
    if broken is None:
        try:
            mism = common.run_cases("Pipeline", cases, shard=60)
        except common.CoqError as e:
            broken = f"correspondence could not be evaluated: {e}"
    fails.sort(key=lambda f: len(json.dumps(f, default=repr)))
    for f in fails[:3]:
        chk.violation(f)
    if not fails:
        for i in mism[:3]:
            chk.violation({"kind": "model-vs-implementation", "correspondence": "Corr.Pipeline.check_case (models Codegen.Pipeline + Verifier.Checks)",
                           "schema": meta[i][0], "fault": meta[i][1], "generator": meta[i][2], "observed": meta[i][3]}, no_failing_input=True)
        if not mism and broken is not None:
            chk.violation({"kind": "proof-obligation", "broken": broken, "theorem": "Props/C10.v"}, no_failing_input=True)
    chk.assumptions += ["the model's file system never fails (permissions, ENOSPC are out of the model); plug-in discovery (pkgutil/importlib) is not modelled",
                        "file contents are opaque ids; what the plug-in returned is captured by wrapping Generator.generate inside the harness process"]


def replay(chk, rep):
    print(json.dumps(rep, indent=1, default=repr)[:3000])
    return 1
