"""C04 — the packed CAN layout tiles the message."""
import own_lookup
import json

import common
import gen_schema
import serde_run
import to_coq
from common import clist, cpair, cbool


def run_history(fcp, unroll, impls):
    from fcp.encoding import make_encoder, PackedEncoderContext
    # one base context, from which the context for this encoder and - afterwards - one with the opposite setting (for a second
    # encoder that is never used) are derived, as a program that needs both layouts does: a derived context is its own object
    base = PackedEncoderContext()
    enc = make_encoder("packed", fcp, base.with_unroll_arrays(unroll))
    make_encoder("packed", fcp, base.with_unroll_arrays(not unroll))
    out = []
    for im in impls:
        try:
            out.append((list(enc.generate(im)), None))
        except Exception as e:
            out.append((None, e))
    return out


def wire_width(fcp, t):
    from fcp.specs import type as T
    import ref_wire
    if type(t) in (T.UnsignedType, T.SignedType):
        return int(t.name[1:])
    if type(t) is T.FloatType:
        return 32
    if type(t) is T.DoubleType:
        return 64
    if type(t) is T.EnumType:
        return ref_wire.enum_width(own_lookup.enum(fcp, t.name))
    if type(t) is T.ArrayType:
        return t.size * wire_width(fcp, t.underlying_type)
    raise TypeError(t)


def known_defect_width(fcp, t):
    """What the listed finding enum-width lays an enum leaf out on: 2^ceil(log2(packed size)) bits per enum (1 for a packed size of 1),
    arrays of them element by element.  Any other width of an enum leaf is not that finding."""
    from fcp.specs import type as T
    import ref_wire
    if type(t) is T.EnumType:
        n = ref_wire.enum_width(own_lookup.enum(fcp, t.name))
        return 1 if n <= 1 else 1 << (n - 1).bit_length()
    if type(t) is T.ArrayType:
        return t.size * known_defect_width(fcp, t.underlying_type)
    return wire_width(fcp, t)


def expected_names(fcp, sname, unroll, prefix=""):
    """The unique hierarchical leaf names the property promises, read off the schema: fields in ascending id, nested structs as
    <field>::, unrolled arrays as <field>_<i> (every dimension)."""
    from fcp.specs import type as T
    out = []

    def leaf(name, t, pre):
        if type(t) is T.StructType:
            out.extend(expected_names(fcp, t.name, unroll, pre + name + "::"))
        elif type(t) is T.ArrayType and unroll:
            for i in range(t.size):
                leaf(f"{name}_{i}", t.underlying_type, pre)
        else:
            out.append(pre + name)
    for f in sorted(own_lookup.struct(fcp, sname).fields, key=lambda f: f.field_id):
        leaf(f.name, f.type, prefix)
    return out


def check_tiling(fcp, im, pieces, unroll=None):
    """The property's own predicate on the implementation.  Returns (failure|None, known_enum_width)."""
    from fcp.specs import type as T
    cur = 0
    known = False
    names = set()
    if unroll is not None:
        try:
            want_names = expected_names(fcp, im.type, unroll)
        except Exception:
            want_names = None
        if want_names is not None and [p.name for p in pieces] != want_names:
            return f"leaf names {[p.name for p in pieces][:12]} are not the hierarchical names {want_names[:12]}", known
    for p in pieces:
        if p.name in names:
            return f"two leaves are both called {p.name}", known
        if p.bitstart != cur:
            return f"piece {p.name} starts at {p.bitstart}, previous ended at {cur}", known
        try:
            w = wire_width(fcp, p.type)
        except TypeError:
            return f"piece {p.name} has a type without wire width", known
        if p.bitlength != w:
            if contains_enum(p.type) and p.bitlength == known_defect_width(fcp, p.type):
                known = True
            else:
                return f"piece {p.name} is {p.bitlength} bits wide, its type needs {w}", known
        # options: those of the signal block named like the bare field name, nothing else
        bare = p.name.split("::")[-1]
        sb = im.get_signal(bare)
        want = sb.unwrap().fields if sb.is_some() else {}
        if p.extended_data != want:
            return f"piece {p.name} carries options {p.extended_data}, its signal block says {want}", known
        if p.endianess != (want.get("endianess") or "little"):
            return f"piece {p.name} byte order {p.endianess}", known
        cur += p.bitlength
        names.add(p.name)
    return None, known


def contains_enum(t):
    from fcp.specs import type as T
    if type(t) is T.EnumType:
        return True
    if type(t) is T.ArrayType:
        return contains_enum(t.underlying_type)
    return False


def run(chk):
    quick = chk.tier == "quick"
    nsch = 160 if quick else 3000
    broken = chk.proof_obligations(["Corr/Layout.vo"])
    chk.coverage["rule"] = (
        "schemas from the fixed profile (nesting, arrays of scalars/structs/arrays, enums with maxima around powers of two, widths 1..64, "
        "ids out of declaration order, now and then a variable-size type) with CAN impls and signal blocks, parsed by the real front end; "
        "for both unroll_arrays settings a history of up to 8 generate() calls on ONE encoder; Coq compares every returned Value list; "
        "non-trivial = some call returned >= 2 pieces; distinct = (schema text, unroll, history)")
    cases, meta, fails = [], [], []
    for _ in range(nsch):
        desc = gen_schema.gen_desc(chk.rng, "fixedx", max_fields=5, depth=2)
        gen_schema.add_can_impls(chk.rng, desc)
        text = gen_schema.render(desc)
        fcp = serde_run.parse(text).unwrap()
        ref = serde_run.parse(text).unwrap()     # expectations are read off a parse of their own, never off the object handed to the encoder
        sterm = to_coq.schema(ref)
        for unroll in (False, True):
            idx = [chk.rng.randrange(len(fcp.impls)) for _ in range(chk.rng.randint(1, 8))]
            hist, ref_hist = [fcp.impls[i] for i in idx], [ref.impls[i] for i in idx]
            hterm = clist(to_coq.impl(im) for im in ref_hist)
            res = run_history(fcp, unroll, hist)
            obs = clist("None" if r is None else f"(Some {clist(to_coq.opiece(p) for p in r)})" for r, _ in res)
            cases.append(cpair(sterm, cbool(unroll), hterm, obs))
            meta.append((text, unroll, [im.name + "/" + im.protocol for im in hist]))
            npieces = max([len(r) for r, _ in res if r is not None] + [0])
            chk.count((text, unroll, tuple(meta[-1][2])), nontrivial=npieces >= 2,
                      sample={"schema": text, "unroll": unroll, "history": meta[-1][2],
                              "first_result": None if res[0][0] is None else [(p.name, p.bitstart, p.bitlength) for p in res[0][0]]})
            chk.hist("pieces", min(npieces, 12)); chk.hist("raises", sum(1 for r, _ in res if r is None))
            for im, rim, (r, e) in zip(hist, ref_hist, res):
                if r is None:
                    continue
                why, known = check_tiling(ref, rim, r, unroll)
                if known and chk.find_known("enum-width"):
                    chk.known_finding("enum-width", "an enum leaf is laid out on 2^ceil(log2(packed size)) bits instead of its packed size (encoding.py:_get_type_length)")
                elif known:
                    why = why or "enum leaf wider than its wire width"
                if why:
                    fails.append({"kind": "layout", "schema": text, "unroll": unroll, "impl": im.name + "/" + im.protocol, "why": why,
                                  "pieces": [(p.name, p.bitstart, p.bitlength, p.endianess) for p in r]})
                # history independence on the implementation: same as a fresh encoder
                fresh = run_history(fcp, unroll, [im])[0][0]
                if fresh is None or [(p.name, p.bitstart, p.bitlength) for p in fresh] != [(p.name, p.bitstart, p.bitlength) for p in r]:
                    fails.append({"kind": "history-dependence", "schema": text, "unroll": unroll, "history": meta[-1][2],
                                  "impl": im.name + "/" + im.protocol})
    chk.log(f"{len(cases)} histories; implementation-side failures: {len(fails)}")
    chk.coverage["traces_validated_against_impl"] = len(cases)
    mism, translated, broken = common.run_model_and_translated(chk, "Layout", "LayoutGen", cases, broken, shard=150)
    fails.sort(key=lambda f: len(json.dumps(f, default=repr)))
    for f in fails[:3]:
        chk.violation(f)
    if not fails:
        for i in mism[:3]:
            chk.violation({"kind": "model-vs-implementation", "correspondence": "Corr.Layout.check_case (model Layout.Packed)",
                           "schema": meta[i][0], "unroll": meta[i][1], "history": meta[i][2]}, no_failing_input=True)
        for i in ([] if mism else translated[:3]):
            # the model agrees with the implementation, the translated source does not: the translator or its run-time library misreads Python
            chk.violation({"kind": "translated-source-vs-implementation", "correspondence": "Corr.LayoutGen.check_translated (gen/PyEncoder.v run in Coq)",
                           "schema": meta[i][0], "unroll": meta[i][1], "history": meta[i][2]}, no_failing_input=True)
        if not mism and not translated and broken is not None:
            chk.violation({"kind": "proof-obligation", "broken": broken, "theorem": "Props/C04.v"}, no_failing_input=True)
    chk.assumptions += ["name resolution (first match, declaration before use) is the model's; the float log2 in get_packed_size/_get_type_length is exact for enum maxima < 2^48 (the generated range)",
                        "impl/signal-block field values other than ints and 7-bit strings are abstracted to XOther"]


def replay(chk, rep):
    print(json.dumps(rep, indent=1, default=repr)[:3000])
    fcp = serde_run.parse(rep["schema"]).unwrap()
    for unroll in (False, True):
        for im in fcp.impls:
            r, e = run_history(fcp, unroll, [im])[0]
            print(unroll, im.name, im.protocol, None if r is None else [(p.name, p.bitstart, p.bitlength, p.endianess) for p in r], repr(e))
    return 1
