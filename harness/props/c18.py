"""C18 — the C++ CAN frame wrapper: frames carry the binding's id, bus and size."""
import json
import shutil
from concurrent.futures import ThreadPoolExecutor

import common
import cxx_run
import gen_schema
import serde_run
import to_coq
from common import cz, cstr, clist, cpair


def c18_desc(rng, n):
    """Structs named S0.. with whole-byte unsigned fields declared in id order (so that the static and the run-time payload
    codecs coincide, C13), at most 8 bytes, each bound to CAN: ids 0..2047, bus names of 1-4 characters or none."""
    desc = {"enums": [], "structs": [], "impls": []}
    used = {}
    for i in range(n):
        fields, total = [], 0
        for j in range(rng.randint(1, 4)):
            w = rng.choice([8, 8, 16, 24, 32])
            if total + w > 64:
                break
            fields.append({"name": f"f{j}", "id": j, "type": ("u", w)}); total += w
        desc["structs"].append({"name": f"S{i}", "fields": fields})
        r = rng.random()
        bus = rng.choice(["can1", "can2", "bus0", "CAN1", "Bus0"]) if r < 0.6 else (rng.choice(["a", "ab", "abc"]) if r < 0.85 else None)
        if used and (rng.random() < 0.35 or i == n - 1 and len(used) == n - 1):
            # an id shared with an earlier binding: mostly on another 4-character bus (legal: dispatch is by (id, bus)), now and then on the same
            fid = rng.choice(sorted(used))
            taken = used[fid]
            free = [b for b in ["can1", "can2", "bus0", "zzzz", "CAN1", "CAN2"] if b not in taken]   # incl. names that differ only in case
            if free and rng.random() < 0.8:
                bus = rng.choice(free)
        else:
            fid = rng.choice([0, 1, 2047]) if rng.random() < 0.25 else rng.randrange(2048)   # the ends of the 11-bit id range now and then
        if i < 2:
            fid, bus = (0, 2047)[i], rng.choice(["can1", "can2", "CAN1"])      # both ends of the id range, every schema, on a full-length bus
        used.setdefault(fid, set()).add(bus)
        fs = [("id", fid)] + ([("bus", bus)] if bus is not None else [])
        desc["impls"].append({"protocol": "can", "type": f"S{i}", "name": f"S{i}", "fields": fs, "signals": []})
    return desc


def frame_term(bus_hex, sid, dlc, data_hex):
    return cpair(clist(cz(b) for b in bytes.fromhex(bus_hex)), cz(sid), cz(dlc), clist(cz(b) for b in bytes.fromhex(data_hex)))


def parse_frame(ans):
    if not ans.startswith("OK "):
        return None
    b, sid, dlc, data = ans[3:].split()
    return b, int(sid), int(dlc), data


def run(chk):
    from fcp import serde
    from fcp.reflection import get_reflection_schema
    from fcp.specs.type import StructType
    quick = chk.tier == "quick"
    nsch, nstructs, nval = (2, 8, 40) if quick else (20, 10, 120)
    broken = chk.proof_obligations(["Corr/Can.vo"])
    chk.coverage["rule"] = (
        "schemas of ~8 CAN bindings named after their struct (ids 0..2047, some shared; bus names of 4, 1-3 characters or none) with payloads of "
        "at most 8 bytes; one C++ process hosts Can{CanStaticSchema} and Can{CanDynamicSchema loaded from the reflection binary}; Encode by name, "
        "Decode of the produced frame, and Decode of frames with non-matching (id, bus), each presented one to three times in a row after a recognised frame, are compared in Coq with the model; non-trivial = the binding "
        "has a bus; distinct = (schema, op, input)")
    refl = get_reflection_schema().unwrap()
    work = common.scratch_dir("verif_c18_")
    cases, meta, fails = [], [], []
    try:
        prepared = []
        for k in range(nsch):
            desc = c18_desc(chk.rng, nstructs)
            text = gen_schema.render(desc)
            fcp = serde_run.parse(text).unwrap()
            outdir = f"{work}/s{k}"
            cxx_run.generate_cpp(fcp, outdir)
            with open(outdir + "/refl.bin", "wb") as f:
                f.write(bytes(serde.encode(refl, "Fcp", fcp.reflection())))
            prepared.append((text, fcp, outdir, desc))
        with ThreadPoolExecutor(max_workers=8) as ex:
            built = list(ex.map(lambda p: cxx_run.build(p[2], main="can_main.cpp"), prepared))
        chk.coverage["programs"] = sum(1 for b in built if b[0])
        for (text, fcp, outdir, desc), (exe, err) in zip(prepared, built):
            if exe is None:
                fails.append({"kind": "generated-c++-does-not-compile", "schema": text, "error": [l for l in err.split("\n") if "error" in l][:2]})
                continue
            drv = cxx_run.Driver(exe, [outdir + "/refl.bin"])
            if drv.p.stdout.readline().strip() != "LOADED":
                fails.append({"kind": "run-time-schema-does-not-load", "schema": text})
                continue
            sterm = to_coq.schema(fcp)
            cans = list(fcp.get_matching_impls("can"))
            bterm = clist("{| cb_name := %s; cb_id := %s; cb_bus := %s |}" % (
                cstr(i.name), cz(i.fields["id"]), "None" if i.fields.get("bus") is None else f"(Some {cstr(i.fields['bus'])})") for i in cans)

            def dec_obs(ans, name_hint=None):
                if not ans.startswith("OK "):
                    return "None", None
                nm, js = ans[3:].split(" ", 1)
                val = json.loads(js)
                return f"(Some {cpair(cstr(nm), to_coq.struct_value(fcp, nm, val))})", (nm, val)
            try:
                for _ in range(nval):
                    im = chk.rng.choice(cans)
                    v = to_coq.gen_struct_value(chk.rng, fcp, im.type)
                    bus = im.fields.get("bus")
                    chk.hist("bus", "none" if bus is None else len(bus))
                    se = drv.ask(f"SE {im.name} {cxx_run.to_json(v)}")
                    de = drv.ask(f"DE {im.name} {cxx_run.to_json(v)}")
                    fr = parse_frame(se)
                    vt = to_coq.struct_value(fcp, im.type, v)
                    fr_cmp = fr
                    if fr is not None and bus is not None and len(bus) < 3:
                        # copy_n(4) out of a shorter std::string: the bytes after its NUL terminator are indeterminate; only
                        # name + terminator are compared with the model
                        keep = 2 * (len(bus) + 1)
                        fr_cmp = (fr[0][:keep] + "00" * (4 - len(bus) - 1), fr[1], fr[2], fr[3])
                    cases.append(cpair(sterm, bterm, f"(SEnc {cstr(im.name)} {vt} " + ("None" if fr_cmp is None else f"(Some {frame_term(*fr_cmp)})") + ")"))
                    meta.append((text, "SE", im.name, v))
                    dfr = parse_frame(de)
                    dobs = "None" if de.startswith("EXC") else ("(Some None)" if dfr is None else f"(Some (Some {frame_term(*dfr)}))")
                    cases.append(cpair(sterm, bterm, f"(DEncC {cstr(im.name)} {vt} {dobs})")); meta.append((text, "DE", im.name, v))
                    chk.count((text, "E", im.name, json.dumps(v, sort_keys=True)), nontrivial=bus is not None,
                              sample={"binding": im.name, "id": im.fields["id"], "bus": bus, "value": v, "static": se, "dynamic": de})
                    # the property's predicates on the implementation
                    payload = serde.encode(fcp, im.type, v)
                    unique = sum(1 for j in cans if j.fields["id"] == im.fields["id"] and j.fields.get("bus") == bus) == 1
                    want_bus = None if bus is None else bus.encode().ljust(4, b"\0").hex()
                    problems = []
                    if fr is None:
                        problems.append("static Encode returned nothing")
                    else:
                        if fr[1] != im.fields["id"] or fr[2] != len(payload) or bytes.fromhex(fr[3])[:len(payload)] != bytes(payload):
                            problems.append("static frame does not carry the binding's id / payload size / payload")
                        if want_bus is not None and fr[0] != want_bus:
                            problems.append("static frame bus tag is not the binding's bus")
                        sd = drv.ask(f"SD {fr[0]} {fr[1]} {fr[2]} {fr[3]}")
                        dd = drv.ask(f"DD {fr[0]} {fr[1]} {fr[2]} {fr[3]}")
                        so, sval = dec_obs(sd)
                        do, dval = dec_obs(dd)
                        cases.append(cpair(sterm, bterm, f"(SDec {frame_term(*fr)} {so})")); meta.append((text, "SD", im.name, v))
                        cases.append(cpair(sterm, bterm, f"(DDecC {frame_term(*fr)} {do})")); meta.append((text, "DD", im.name, v))
                        if unique and bus is not None:
                            if sval != (im.name, v):
                                problems.append("static Decode of the produced frame does not return (name, value)")
                            if dval != (im.name, v):
                                problems.append("run-time Decode of the produced frame does not return (name, value)")
                        if bus is not None and (dfr is None or dfr != fr):
                            problems.append("run-time Encode differs from static Encode")
                    if bus is None:
                        problems.append("binding without bus")
                    if problems:
                        cls = "can-no-bus" if bus is None else ("can-short-bus" if len(bus) < 4 else None)
                        if cls and chk.find_known(cls):
                            chk.known_finding(cls, {"can-short-bus": "a bus name shorter than 4 characters is sent NUL-padded and never matched on Decode (frame reported as unknown)",
                                                    "can-no-bus": "a CAN binding without bus is sent on bus 'None' by the static schema and throws map::at in the run-time schema"}[cls])
                        else:
                            fails.append({"kind": "can-wrapper", "schema": text, "binding": im.name, "value": v, "problems": problems,
                                          "static_encode": se, "dynamic_encode": de})
                    # a frame that matches no binding
                    sid = chk.rng.randrange(2048) if chk.rng.random() < 0.5 else chk.rng.choice(cans).fields["id"]
                    if chk.rng.random() < 0.25:
                        # identifiers beyond 11 bits whose low bits are those of a binding (the frame carries 16 bits): not that binding
                        sid = (chk.rng.choice(cans).fields["id"] + chk.rng.choice([2048, 4096, 32768])) % 65536
                    fbus = chk.rng.choice(["can1", "can2", "bus0", "zzzz", "ab", "yyyy", "CAN1", "CAN2", "BUS0", "Can1"]).encode().ljust(4, b"\0").hex()
                    matches = [j for j in cans if j.fields["id"] == sid and (j.fields.get("bus") or "").encode().ljust(4, b"\0").hex() == fbus]
                    data = "00" * 8
                    # CAN traffic repeats: the same frame is presented two or three times in a row (right after a frame that was
                    # recognised), and every presentation must be answered like the first
                    for rep_no in range(chk.rng.choice([1, 2, 3])):
                        sd = drv.ask(f"SD {fbus} {sid} 8 {data}")
                        dd = drv.ask(f"DD {fbus} {sid} 8 {data}")
                        cases.append(cpair(sterm, bterm, f"(SDec {frame_term(fbus, sid, 8, data)} {dec_obs(sd)[0]})")); meta.append((text, "SD-unknown", sid, fbus))
                        cases.append(cpair(sterm, bterm, f"(DDecC {frame_term(fbus, sid, 8, data)} {dec_obs(dd)[0]})")); meta.append((text, "DD-unknown", sid, fbus))
                        if not matches and (sd != "NONE" or dd != "NONE"):
                            fails.append({"kind": "unknown-frame-not-reported-as-unknown", "schema": text, "sid": sid, "bus": fbus, "static": sd, "dynamic": dd,
                                          "presentation": rep_no + 1, "after": "a recognised frame of binding " + im.name})
            finally:
                drv.close()
    finally:
        shutil.rmtree(work, ignore_errors=True)
    chk.log(f"{len(cases)} cases over {chk.coverage.get('programs')} compiled schemas; implementation-side failures: {len(fails)}")
    chk.coverage["traces_validated_against_impl"] = len(cases)
    mism = []
    if broken is None:
        try:
            mism = common.run_cases("Can", cases, shard=150)
        except common.CoqError as e:
            broken = f"correspondence could not be evaluated: {e}"
    fails.sort(key=lambda f: len(json.dumps(f, default=repr)))
    for f in fails[:3]:
        chk.violation(f)
    if not fails:
        for i in mism[:3]:
            chk.violation({"kind": "model-vs-implementation", "correspondence": "Corr.Can.check_case (model Cpp.CppCan)", "schema": meta[i][0],
                           "op": meta[i][1], "input": [meta[i][2], meta[i][3]]}, no_failing_input=True)
        if not mism and broken is not None:
            chk.violation({"kind": "proof-obligation", "broken": broken, "theorem": "Props/C18.v"}, no_failing_input=True)
    chk.assumptions += ["as C03/C13; payload fields are whole-byte unsigned integers declared in id order, so that both payload codecs are the canonical one (C13)",
                        "copying 4 characters out of a shorter std::string is observed to read its NUL terminator(s) (small-string buffer); the model pads with NUL",
                        "struct names have at most 4 characters (the run-time Encode copies the message name into a 4-byte array: longer names overflow it, see DESIGN)"]


def replay(chk, rep):
    print(json.dumps(rep, indent=1, default=repr)[:3000])
    return 1
