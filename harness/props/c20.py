"""C20 — module imports are transparent: a split schema equals the single-file schema."""
import json
import shutil

import common
import front_run
import printer
from props.c07 import finish


def build_split(rng, depth, prefix, rel_dir, self_name=None):
    """Returns (items with mod items, flattened items, files {rel path: items}) for one file living in rel_dir."""
    own = printer.gen_items(rng, prefix=prefix, allow_services=True)
    items, flat, files = [], [], {}
    nmods = rng.randint(0, 2) if depth > 0 else 0
    lead = []
    if depth > 0 and rng.random() < 0.25:
        # the file begins with declarations that need nothing declared before them (devices, services) and imports its first module
        # right after them, before any type of its own
        lead = [it for it in own if it[0] in ("device", "service")] or [("device", f"{prefix}lead_dev", [("id", 3)])]
        own = lead + [it for it in own if it not in lead]
        nmods = max(nmods, 1)
    positions = sorted(rng.sample(range(len(own) + 1), min(nmods, len(own) + 1)))
    if lead:
        positions = sorted(set([len(lead)] + positions[1:]))
    k = 0
    for i in range(len(own) + 1):
        while k < len(positions) and positions[k] == i:
            if self_name and rng.random() < 0.35:
                # the layout sensors.fcp + sensors/temperature.fcp: a module file next to a directory of its own name, which holds the
                # modules it imports (`mod sensors.temperature;` inside sensors.fcp)
                parts = [self_name, f"c_{prefix}{k}"]
            elif rng.random() < 0.45:
                # the same base name in different directories (types.fcp next to sub/types.fcp, a/b/types.fcp)
                parts = [[], ["sub"], ["a", "b"], ["lib"]][k % 4] + [rng.choice(["types", "common"])]
            else:
                parts = rng.choice([[f"m_{prefix}{k}"], ["sub", f"m_{prefix}{k}"], ["a", "b", f"m_{prefix}{k}"]])
            mdir = "/".join([rel_dir] + parts[:-1]) if rel_dir else "/".join(parts[:-1])
            mpath = (mdir + "/" if mdir else "") + parts[-1] + ".fcp"
            if mpath in files or any(mpath == q for q in files):
                continue
            m_items, m_flat, m_files = build_split(rng, depth - 1, f"{prefix}Q{k}_", mdir, self_name=parts[-1])
            if rng.random() < 0.2:
                # a module that declares no type at all: only devices, or only bindings / services of structs declared before the import
                # (a devices.fcp, a bindings.fcp): such a subset is as movable as any other
                known = [it[1] for it in flat if it[0] == "struct"]
                m_items = [("device", f"{prefix}Q{k}_dev", [("id", rng.randrange(9))])] if (not known or rng.random() < 0.5) else []
                if known and rng.random() < 0.6:
                    m_items.append(("impl", rng.choice(["can", "uart"]), rng.choice(known), f"{prefix}Q{k}_B", True, [("ext", "id", rng.randrange(2048))]))
                if known and (not m_items or rng.random() < 0.4):
                    m_items.append(("service", f"{prefix}Q{k}_Sv", rng.randint(0, 9), [("m0", rng.choice(known), 0, rng.choice(known))]))
                m_flat, m_files = list(m_items), {}
            if any(q in files for q in m_files) or mpath in m_files:
                continue
            # a binding that lives in another module than its struct: this module binds (unnamed, so under the struct's own
            # name, like the default binding) a struct that a module imported earlier declares
            earlier = [it[1] for it in flat if it[0] == "struct"]
            if earlier and rng.random() < 0.5:
                extra = ("impl", rng.choice(["can", "uart"]), rng.choice(earlier), None, rng.random() < 0.5, [("ext", "id", rng.randrange(2048))])
                m_items = m_items + [extra]
                m_flat = m_flat + [extra]
            files.update(m_files)
            files[mpath] = m_items
            items.append(("mod", parts))
            flat += m_flat
            k += 1
        if i < len(own):
            items.append(own[i]); flat.append(own[i])
    return items, flat, files


def run(chk):
    quick = chk.tier == "quick"
    n = 110 if quick else 1200
    broken = chk.proof_obligations(["Corr/Front.vo"])
    chk.coverage["rule"] = (
        "a tree of module files (depth <= 3, dotted paths a.b.m resolved relative to the importing file) each holding self-contained front-profile "
        "declarations (structs, enums, impls, services, devices; a fifth of the modules declare no type at all), imported at random positions, also from a directory named like the importing module file (m.fcp next to m/); the split schema is parsed from real files in a "
        "scratch directory and compared with the single-file schema obtained by inlining every module at its import point; then one error is "
        "injected (syntax error or unresolved type inside a module, or a missing module file) and the diagnostic must name the module / the file; "
        "every outcome is compared in Coq with the model; non-trivial = at least one import")
    oracle = printer.float_oracle(None)
    cases, meta, fails = [], [], []
    work = common.scratch_dir("verif_c20_")
    try:
        for k in range(n):
            items, flat, mods = build_split(chk.rng, chk.rng.randint(1, 3), "", "")
            files = {p: printer.render(printer.tokens(its)) for p, its in mods.items()}
            files["main.fcp"] = printer.render(printer.tokens(items))
            single = {"main.fcp": printer.render(printer.tokens(flat))}
            o_split = front_run.run_front(files, workdir=f"{work}/s{k}")
            o_single = front_run.run_front(single)
            cases.append(front_run.case_term(files, "main.fcp", o_split, oracle)); meta.append(json.dumps(files))
            cases.append(front_run.case_term(single, "main.fcp", o_single, oracle)); meta.append(single["main.fcp"])
            chk.count(json.dumps(files, sort_keys=True), nontrivial=len(files) > 1,
                      sample={"files": {p: t[:200] for p, t in files.items()}, "outcome": o_split[0]})
            chk.hist("files", len(files)); chk.hist("outcome", o_split[0])
            if o_split[0] != "ok" or o_single[0] != "ok":
                fails.append({"kind": "well-formed-split-or-single-schema-rejected", "files": files, "split": o_split[0], "single": o_single[0],
                              "detail": str(o_split[1] if o_split[0] != "ok" else o_single[1])[:400]})
            elif o_split[1].to_dict() != o_single[1].to_dict():
                a, b = o_split[1].to_dict(), o_single[1].to_dict()
                diff = [key for key in b if a.get(key) != b.get(key)]
                fails.append({"kind": "split-schema-differs-from-single-file-schema", "files": files, "differs_in": diff})
            # ---- injected errors
            if len(files) > 1:
                mods_only = [p for p in files if p != "main.fcp"]
                base = lambda p: p.rsplit("/", 1)[-1]
                twins = [p for p in mods_only if sum(1 for q in mods_only if base(q) == base(p)) > 1]
                # prefer a module that shares its file name with another one (diagnostics must still cite the right text)
                victim = chk.rng.choice(twins) if twins and chk.rng.random() < 0.6 else chk.rng.choice(mods_only)
                kind = chk.rng.choice(["syntax", "resolution", "missing"])
                bad = dict(files)
                if kind == "syntax":
                    t = bad[victim]
                    cut = t.rfind("}")
                    bad[victim] = t[:cut] + t[cut + 1:] + "\nstruct"
                elif kind == "resolution":
                    bad[victim] = bad[victim] + "\nstruct Broken { x @0: NoSuchType, }\n"
                else:
                    del bad[victim]
                o_bad = front_run.run_front(bad, workdir=f"{work}/b{k}")
                cases.append(front_run.case_term(bad, "main.fcp", o_bad, oracle)); meta.append(json.dumps(bad))
                chk.hist("injected", kind + ":" + o_bad[0])
                base = victim.split("/")[-1]
                if o_bad[0] != "err":
                    fails.append({"kind": "error-in-module-not-returned-as-error", "files": bad, "injected": kind, "module": victim,
                                  "outcome": o_bad[0], "detail": str(o_bad[1])[:300]})
                elif base not in o_bad[1]:
                    fails.append({"kind": "diagnostic-does-not-name-the-module", "files": bad, "injected": kind, "module": victim, "diagnostic": o_bad[1]})
    finally:
        shutil.rmtree(work, ignore_errors=True)
    chk.log(f"{len(cases)} front-end runs; implementation-side failures: {len(fails)}")
    chk.coverage["traces_validated_against_impl"] = len(cases)
    mism, dom = [], []
    if broken is None:
        try:
            mism, dom = front_run.judge_cases(cases, shard=20)
        except common.CoqError as e:
            broken = f"correspondence could not be evaluated: {e}"
    chk.coverage["model_out_of_domain"] = len(dom)
    finish(chk, fails, mism, meta, broken, "Props/C20.v")
    chk.assumptions += ["module files are real files in a scratch directory; the model's file map is keyed by the path relative to that directory (OS path normalisation is not modelled)"]


def replay(chk, rep):
    print(json.dumps(rep, indent=1, default=repr)[:4000])
    return 1
