"""C11 — the parser is total: every input yields a schema or a renderable error."""
import json
import os
import time
import re
import string

import common
import front_run
import printer
from props.c07 import finish

OUT_OF_DOMAIN = [
    'version: "3"\nstruct A { a @0.5: u8, }',                       # float id
    'version: "3"\nenum E { A = "x", }',                            # string enum value
    'version: "3"\nenum E { A = 1.5, }',
    'version: "3"\nenum E { }',                                     # empty enum
    'version: "3"\nstruct A { a @0: u8 | foo(1), }',                # unknown parameter
    'version: "3"\nstruct A { a @0: u8 | unit(), }',                # ill arity
    'version: "3"\nstruct A { a @0: u8 | range(1.0), }',
    'version: "3"\nstruct A { a @0: u8 | range(0, 1.5), }',         # int where a float is required
    'version: "3"\nstruct A { a @0: u8 | unit(5), }',
    'version: "3"\nstruct A { a @0: u8, }\nservice S @1.5 { method m(A) @0 returns A, }',
    'version: "3"\nstruct A { a @0: u8, }\nservice S @1 { method m(A) @"x" returns A, }',
    'version: "4"\nstruct A { a @0: u8, }',
    '', 'version', 'version:', 'version: "3', 'version: "3"\nstruct', 'version: "3"\nstruct A {', 'version: "3"\nstruct A { a @0: [u8, ',
    'version: "3"\n/* never closed', 'version: "3"\nmod nope;', 'version: "3"\r\nstruct A { a @0: u8, }',
]

EXOTIC_SEPARATORS = ["\r", "\x0b", "\x0c", "\x1c", "\x1d", "\x1e", "\x85", "\u2028", "\u2029"]
CITE = re.compile(r"\[([^\[\]:]+):(-?\d+)\]")


def cited_lines_exist(diagnostic, sources):
    for name, line in CITE.findall(diagnostic):
        if name.endswith(".py"):
            continue                       # the position of the error() call inside fcp itself
        src = sources.get(name)
        if src is None:
            return f"the diagnostic cites {name}, which is not a registered source"
        if not (1 <= int(line) <= len(src.split("\n"))):
            return f"the diagnostic cites line {line} of {name}, which has {len(src.split(chr(10)))} lines"
    return None


def mutate(rng, toks):
    t = list(toks)
    k = rng.choice(["delete", "duplicate", "swap", "replace"])
    i = rng.randrange(len(t))
    if k == "delete":
        del t[i]
    elif k == "duplicate":
        t.insert(i, t[i])
    elif k == "swap" and len(t) > 1:
        j = rng.randrange(len(t))
        t[i], t[j] = t[j], t[i]
    else:
        t[i] = rng.choice(["{", "}", ",", ":", "@", "struct", "enum", "impl", "for", "x", "5", "1.5", '"s"', "[", "]", "(", ")", "|", ";", "=", "u8", "Nope"])
    return k, t


def run(chk):
    quick = chk.tier == "quick"
    n = 120 if quick else 1000
    broken = chk.proof_obligations(["Corr/Front.vo"])
    chk.coverage["rule"] = (
        "(a) token-level mutations (delete / duplicate / swap / replace one token) of valid front-profile token lists and the out-of-domain literals "
        "the property lists: outcome (schema / error) compared in Coq with the model, no exception may escape, Logger.error must render and every "
        "cited line must exist; (b) random printable text and prefixes of valid texts at every cut point sampled: (also with comments holding \\r, \\f, U+2028 and the other characters str.splitlines() "
        "takes for line ends), erroneous texts laid out on one line, with tab indentation and with words of 100..5000 characters: only the implementation-side totality predicate; (c) texts that end inside a long block comment / string / run of one character, parsed in a child process under a 20 s limit (termination); non-trivial = input is not a valid schema; distinct = input text")
    oracle = printer.float_oracle(None)
    cases, meta, fails = [], [], []

    def one(text, kind, compare):
        out = front_run.run_front({"main.fcp": text})
        chk.count(text, nontrivial=out[0] != "ok", sample={"input": text[:300], "kind": kind, "outcome": out[0]})
        chk.hist("kind", kind); chk.hist("outcome:" + kind, out[0])
        if out[0] == "raise":
            fails.append({"kind": "exception-escaped", "source": text, "input_kind": kind, "exception": out[1][:300]})
        elif out[0] == "err":
            why = cited_lines_exist(out[1], {"main.fcp": text})
            if why:
                fails.append({"kind": "diagnostic-cites-a-line-that-does-not-exist", "source": text, "input_kind": kind, "why": why})
        if compare:
            try:
                cases.append(front_run.case_term({"main.fcp": text}, "main.fcp", out, oracle)); meta.append(text)
            except TypeError:
                pass      # text with characters outside the model's alphabet

    for lit in OUT_OF_DOMAIN:
        one(lit, "literal", "\r" not in lit)

    # the same out-of-domain declarations inside an imported module, at a line the (short) importing file does not have: the
    # error must still be a value that renders, and every cited line must exist in the file it is cited for
    import shutil
    work = common.scratch_dir("verif_c11_")
    try:
        nmod = 0
        for lit in OUT_OF_DOMAIN:
            if not lit.startswith('version: "3"\n') or "\r" in lit or "mod " in lit:
                continue
            decl = lit[len('version: "3"\n'):]
            for pad in (0, 7):
                for importer in ('version: "3"\nmod types;', 'version: "3"\nstruct Z { z @0: u8, }\nmod types;\nstruct Y { y @0: u16, }\n'):
                    files = {"main.fcp": importer, "types.fcp": 'version: "3"\n' + "\n" * pad + decl}
                    out = front_run.run_front(files, workdir=f"{work}/m{nmod}")
                    nmod += 1
                    key = json.dumps(files, sort_keys=True)
                    chk.count(key, nontrivial=out[0] != "ok", sample={"input": key[:300], "kind": "module-literal", "outcome": out[0]})
                    chk.hist("kind", "module-literal"); chk.hist("outcome:module-literal", out[0])
                    if out[0] == "raise":
                        fails.append({"kind": "exception-escaped", "source": key, "files": files, "input_kind": "module-literal", "exception": out[1][:300]})
                    elif out[0] == "err":
                        why = cited_lines_exist(out[1], files)
                        if why:
                            fails.append({"kind": "diagnostic-cites-a-line-that-does-not-exist", "source": key, "files": files, "input_kind": "module-literal", "why": why})
                    try:
                        cases.append(front_run.case_term(files, "main.fcp", out, oracle)); meta.append(key)
                    except TypeError:
                        pass
    finally:
        shutil.rmtree(work, ignore_errors=True)
    for _ in range(n):
        items = printer.gen_items(chk.rng)
        toks = printer.tokens(items, chk.rng)
        for _ in range(3):
            k, mt = mutate(chk.rng, toks)
            one(printer.render(mt), "mutation:" + k, True)
        text = printer.render(toks, chk.rng)
        for cut in sorted(chk.rng.sample(range(len(text)), min(len(text), 6 if quick else 12))):
            one(text[:cut], "prefix", False)
        # the same with comments that hold the characters str.splitlines() - but not the lexer - treats as line ends
        lines = text.split("\n")
        for _ in range(chk.rng.randint(1, 3)):
            sep = chk.rng.choice(EXOTIC_SEPARATORS)
            at = chk.rng.randrange(1, len(lines) + 1)
            lines.insert(at, chk.rng.choice(["// a%sb%sc", "/* a%sb */", "// %s", "/* a%s\nb%s */"]).replace("%s", sep))
        text2 = "\n".join(lines)
        for cut in sorted(chk.rng.sample(range(len(text2)), min(len(text2), 6 if quick else 12))) + [len(text2.rstrip("}\n \t,"))]:
            one(text2[:cut], "prefix-with-exotic-line-separators", False)
        # unusual physical layouts of an erroneous text: everything on one line, tab indentation, and words of 100..5000 characters
        # (a diagnostic cites the line: it must render whatever the line looks like)
        k, mt = mutate(chk.rng, toks)
        flat = printer.render(mt)
        if "//" not in flat:
            one(" ".join(flat.split()), "mutation-on-one-line", False)
        n_long = chk.rng.choice([100, 119, 120, 121, 150, 1000, 5000])
        word = "".join(chk.rng.choice("abcXYZ_09") for _ in range(n_long))
        one(chk.rng.choice(['version: "3"\nstruct S {\n\ta' + word + ' @0: ,\n}\n',
                            'version: "3"\n' + word,
                            'version: "3"\nstruct S {\n\t' + "f @0:u8,".replace("f", "f" + word) + "g @1:" + word + ",\n}\n",
                            'version: "3"\nenum E {\n\tA' + word + '=1,B' + word + '=,\n}\n',
                            'version: "3"\nstruct S { a @0: u8 | unit("' + word + '), }\n',
                            '\t' * chk.rng.choice([1, 40]) + 'version: "3"\n' + "\t" * 130 + "struct"]), "long-words-and-tabs", False)
        rnd = "".join(chk.rng.choice(string.printable[:95] + "\n\t") for _ in range(chk.rng.randint(0, 60)))
        one(rnd, "random", False)
        one('version: "3"\n' + rnd, "random-after-preamble", False)
    # one process, one path, two revisions of a module: what the first (erroneous) revision left behind must not be cited for the
    # second one - the second parse answers for the text that is there now
    work2 = common.scratch_dir("verif_c11r_")
    try:
        for q in range(8 if quick else 60):
            mod_items = printer.gen_items(chk.rng, prefix="M_", allow_services=False)
            good = printer.render(printer.tokens(mod_items))
            bad = good + "\n" * chk.rng.randint(3, 30) + chk.rng.choice(["struct Broken { x @0: NoSuchType, }\n", "struct Broken { x @0: u8, x @1: Gain, }\n"])
            importer = 'version: "3"\nmod sensors;\nstruct Z { z @0: u8, }\n'
            wd = f"{work2}/r{q}"
            first = front_run.run_front({"main.fcp": importer, "sensors.fcp": bad}, workdir=wd)
            second = front_run.run_front({"main.fcp": importer, "sensors.fcp": good}, workdir=wd)
            key = json.dumps([bad, good])
            chk.count(key, nontrivial=True, sample={"input": key[:300], "kind": "module-rewritten", "outcome": second[0]})
            chk.hist("kind", "module-rewritten"); chk.hist("outcome:module-rewritten", first[0] + "->" + second[0])
            files2 = {"main.fcp": importer, "sensors.fcp": good}
            if second[0] == "raise":
                fails.append({"kind": "exception-escaped", "source": key, "files": files2, "input_kind": "module-rewritten (second parse of the same paths in one process)",
                              "first_revision_of_sensors.fcp": bad, "exception": second[1][:300]})
            elif second[0] == "err":
                why = cited_lines_exist(second[1], files2)
                fails.append({"kind": "diagnostic-cites-a-line-that-does-not-exist" if why else "valid-text-rejected-after-an-earlier-erroneous-revision", "source": key, "files": files2,
                              "input_kind": "module-rewritten", "first_revision_of_sensors.fcp": bad, "why": why or second[1][:300]})
    finally:
        import shutil as _sh
        _sh.rmtree(work2, ignore_errors=True)
    # "parsing terminates": inputs on which a regular-expression or Earley engine could take exponential time are parsed in a child
    # process with a time limit (a stuck `re` call cannot be interrupted from inside the interpreter): a text that ends inside a long
    # block comment / string / run of one character, after a valid beginning
    import subprocess, sys
    probe = ("import sys, json; sys.path.insert(0, %r); import front_run; "
             "o = front_run.run_front({'main.fcp': sys.stdin.read()}); print(json.dumps([o[0], str(o[1])[:300]]))" % os.path.dirname(os.path.dirname(os.path.abspath(__file__))))
    limit = 20
    tails = []
    for q in range(6 if quick else 30):
        body = "".join(chk.rng.choice("abcdefghij klmnop,.;:-_/()[]{}@|\"'0123456789\n") for _ in range(chk.rng.choice([30, 45, 60, 200])))
        tails += ["/* " + body.replace("*", ""), "/* " + body.replace("*", "").replace("/", "") + " * / ", "// " + body.replace("\n", " "),
                  '"' + body.replace('"', "").replace("\n", " "), "/" * len(body), "[" * len(body), "a" * len(body) + " @", "-" * len(body)]
    heads = ['version: "3"\n', 'version: "3"\nstruct S { a @0: u8, }\n', 'version: "3"\nstruct S {\n    a @0: u8 | unit("V") ']
    slowest = 0.0
    for tl in tails:
        text = chk.rng.choice(heads) + tl
        t0 = time.time()
        try:
            r = subprocess.run([sys.executable, "-c", probe], input=text, capture_output=True, text=True, timeout=limit, env=common.child_env())
            out = json.loads(r.stdout.strip().split("\n")[-1]) if r.returncode == 0 and r.stdout.strip() else ["raise", (r.stderr or "no output")[-300:]]
        except subprocess.TimeoutExpired:
            out = ["timeout", f"no answer within {limit} s"]
        slowest = max(slowest, time.time() - t0)
        chk.count(text, nontrivial=True, sample={"input": text[:200], "kind": "unterminated-tail", "outcome": out[0]})
        chk.hist("kind", "unterminated-tail"); chk.hist("outcome:unterminated-tail", out[0])
        if out[0] == "timeout":
            fails.append({"kind": "parser-did-not-terminate", "source": text, "input_kind": "unterminated-tail", "seconds": limit})
        elif out[0] == "raise":
            fails.append({"kind": "exception-escaped", "source": text, "input_kind": "unterminated-tail", "exception": out[1]})
    chk.coverage["slowest_unterminated_tail_s"] = round(slowest, 2)
    chk.log(f"{chk.coverage['evaluations']} inputs ({len(cases)} compared with the model); implementation-side failures: {len(fails)}")
    chk.coverage["traces_validated_against_impl"] = len(cases)
    mism, dom = [], []
    if broken is None:
        try:
            mism, dom = front_run.judge_cases(cases)
        except common.CoqError as e:
            broken = f"correspondence could not be evaluated: {e}"
    chk.coverage["model_out_of_domain"] = len(dom)
    # de-duplicate by failure kind so that one cause is reported once
    seen, uniq = set(), []
    for f in sorted(fails, key=lambda f: len(f["source"])):
        key = (f["kind"], f.get("exception", "")[:40], f.get("why", "")[:30])
        if key not in seen:
            seen.add(key); uniq.append(f)
    finish(chk, uniq, mism, meta, broken, "Props/C11.v")
    chk.assumptions += ["Lark is an oracle: termination, recursion limits and memory of its Earley engine are runtime behaviour the model cannot exhibit",
                        "model agreement is only claimed on token-level mutations of printed token lists (tokens separated by white space); on random text and prefixes only totality and renderability of the implementation are checked"]


def replay(chk, rep):
    from props import c07
    return c07.replay(chk, rep)
