"""C02 — the Python codec emits and accepts exactly the canonical wire format."""
import json

import common
import ref_wire
import regen
import serde_run
import to_coq
from props.c01 import replace_signed_min, report


def run(chk):
    from fcp.specs.type import StructType
    quick = chk.tier == "quick"
    nsch, nval = (70, 22) if quick else (1200, 34)
    broken = chk.proof_obligations(["Corr/Serde.vo"])
    chk.coverage["rule"] = (
        "corpus: the project's cross-language vectors (tests/standardized) run through the Python codec; then schemas from the "
        "serde profile x boundary-biased values: encode compared with the Coq model (= Wire.v), and decode of canonical bytes "
        "built by an independent reference encoder compared with the model; non-trivial = value has >= 2 leaves")
    cases, meta, fails = [], [], []

    def one(text, fcp, sterm, name, v, expected=None):
        t = StructType(name)
        b, e1 = serde_run.real_encode(fcp, name, v)
        cases.append(serde_run.enc_case(sterm, fcp, name, v, b)); meta.append((text, name, v, "enc", b, repr(e1)))
        canonical = list(ref_wire.wire_bytes(fcp, name, v)) if expected is None else expected
        if b != canonical:
            fails.append({"kind": "encode-not-canonical", "schema": text, "struct": name, "value": v, "encoded": b,
                          "canonical": canonical, "error": repr(e1) if e1 else None})
        d, e2 = serde_run.real_decode(fcp, name, canonical)
        cases.append(serde_run.dec_case(sterm, fcp, name, canonical, d, e2)); meta.append((text, name, v, "dec", canonical, repr(e2) if e2 else d))
        if not (e2 is None and to_coq.values_equal(fcp, t, d, v)):
            if e2 is None and to_coq.contains_signed_min(fcp, t, v) and \
                    to_coq.values_equal(fcp, t, d, replace_signed_min(fcp, t, v)) and chk.find_known("signed-min"):
                chk.known_finding("signed-min", "a signed field holding -2^(N-1) decodes as +2^(N-1) (serde.py:_decode_builtin_signed)")
            else:
                fails.append({"kind": "decode-of-canonical", "schema": text, "struct": name, "value": v, "canonical": canonical,
                              "decoded": d if e2 is None else None, "error": repr(e2) if e2 else None})

    # corpus first: the project's own vectors
    nvec = 0
    for suite, tname, fcp, sname, val, enc in regen.std_vectors():
        one(f"tests/standardized:{suite}/{tname}", fcp, to_coq.schema(fcp), sname, val, expected=enc)
        nvec += 1
    chk.coverage["std_vectors_run_through_python_codec"] = nvec

    schemas = serde_run.make_schemas(chk, nsch)
    for desc, text, fcp, sterm in schemas:
        for s in fcp.structs:
            serde_run.type_hist(chk, fcp, StructType(s.name))
        for _ in range(nval):
            s = chk.rng.choice(fcp.structs)
            v = to_coq.gen_struct_value(chk.rng, fcp, s.name, big=not quick)
            one(text, fcp, sterm, s.name, v)
            chk.count((text, s.name, json.dumps(v, sort_keys=True, default=repr)),
                      nontrivial=len(json.dumps(v, default=repr)) > 12,
                      sample={"schema": text, "struct": s.name, "value": v})
    chk.log(f"{len(cases)} cases ({nvec} std vectors, {len(schemas)} schemas); implementation-side failures: {len(fails)}")
    chk.coverage["traces_validated_against_impl"] = len(cases)
    mism, translated, broken = serde_run.run_serde_cases(chk, cases, broken)
    report(chk, fails, mism, meta, broken, "Corr.Serde.check_case (model Py.PySerde = Wire.wire)", "Props/C02.v", translated=translated)
    chk.assumptions += [
        "the canonical format is Wire.v; it is anchored on every run to tests/standardized (gen/StdVectors.v, std_vectors_are_canonical) and, in C03, to the generated C++ code",
        "harness/ref_wire.py (independent reference encoder) only produces canonical inputs and finds failing inputs; Coq decides",
    ]


def replay(chk, rep):
    from props import c01
    return c01.replay(chk, rep)
