"""C14 — CAN messages that do not fit a frame are rejected, never truncated."""
import json
import os
import re
import shutil

import common
import dbc_read
import gen_schema
import serde_run
import to_coq
from common import cz, cstr, clist, cpair
from props.c05 import observe as dbc_observe, sig_term
from props.c10 import run_generate, snapshot


def gen_desc(rng):
    """One CAN-bound struct around the 64-bit limit; the excess / the variable-size field sits anywhere."""
    desc = {"enums": [{"name": "E", "vals": [("A", 0), ("B", rng.choice([1, 3, 200]))]},
                      {"name": "E5", "vals": [("A", 0), ("B", rng.choice([4, 5, 7]))]}], "structs": [], "impls": []}
    if rng.random() < 0.15:
        # the same nested struct reached more than once (two fields, or an array and a field), the total just beyond the frame: every
        # occurrence counts, and everything else is plain unsigned so that nothing but the size can stand in the way of generation
        inner_fields = [{"name": "x", "id": 0, "type": ("u", rng.choice([8, 16]))}, {"name": "y", "id": 1, "type": ("u", rng.choice([4, 8, 16]))}]
        desc["structs"].append({"name": "In", "fields": inner_fields})
        ib = sum(f["type"][1] for f in inner_fields)
        shape = rng.choice(["two-fields", "array-and-field", "three-fields"])
        occ = {"two-fields": 2, "array-and-field": 3, "three-fields": 3}[shape]
        fields = [{"name": "n0", "id": 0, "type": ("struct", "In")}]
        fields.append({"name": "n1", "id": 1, "type": ("arr", ("struct", "In"), 2) if shape == "array-and-field" else ("struct", "In")})
        if shape == "three-fields":
            fields.append({"name": "n2", "id": 2, "type": ("struct", "In")})
        total = occ * ib
        target = rng.randint(65, 64 + ib) if total < 65 else total
        j = 3
        while total < target:
            w = min(target - total, rng.choice([1, 5, 8, 16]))
            fields.append({"name": f"f{j}", "id": j, "type": ("u", w)}); total += w; j += 1
        if rng.random() < 0.5:
            rng.shuffle(fields)
        desc["structs"].append({"name": "M", "fields": fields})
        desc["impls"].append({"protocol": "can", "type": "M", "name": "M", "fields": [("id", rng.randrange(2048)), ("device", "ecu")], "signals": []})
        return desc, target, False
    if rng.random() < 0.12:
        # a multiplexed message around the limit, the multiplexer first, in the middle or last (the piece that ends the payload is then
        # the multiplexer itself): the size that counts is that of the whole payload wherever the multiplexer sits
        widths = [rng.choice([8, 16, 24, 32]) for _ in range(rng.randint(2, 4))]
        total = sum(widths)
        sel_w = rng.choice([8, 16])
        while total + sel_w < 57:
            widths.append(8); total += 8
        target = total + sel_w
        names = [f"f{j}" for j in range(len(widths))]
        fields = [{"name": nm, "id": j, "type": ("u", w)} for j, (nm, w) in enumerate(zip(names, widths))]
        pos = rng.choice([0, len(fields), len(fields), rng.randrange(len(fields) + 1)])
        fields.insert(pos, {"name": "sel", "id": 50, "type": ("u", sel_w)})
        for j, f in enumerate(fields):
            f["id"] = j
        k = rng.randint(1, 4)
        sigs = [{"name": nm, "fields": [("mux_count", k), ("mux_signal", "sel")]} for nm in rng.sample(names, rng.randint(1, len(names)))]
        desc["structs"].append({"name": "In", "fields": [{"name": "x", "id": 0, "type": ("u", 8)}]})
        desc["structs"].append({"name": "M", "fields": fields})
        desc["impls"].append({"protocol": "can", "type": "M", "name": "M", "fields": [("id", rng.randrange(2048)), ("device", "ecu")], "signals": sigs})
        return desc, target, False
    if rng.random() < 0.12:
        # several CAN bindings on two or three buses, exactly one of them oversize - on the bus seen first, in the middle or last:
        # one unfit message anywhere makes the whole generation fail
        nb = rng.choice([2, 3])
        bad = rng.randrange(nb)
        target = rng.choice([65, 66, 72, 76, 80])
        desc["structs"].append({"name": "In", "fields": [{"name": "x", "id": 0, "type": ("u", 8)}]})
        for q in range(nb):
            total = target if q == bad else rng.choice([8, 24, 40, 64])
            fields, left, j = [], total, 0
            while left > 0:
                w = min(left, rng.choice([8, 16, 32, 12]))
                fields.append({"name": f"f{j}", "id": j, "type": ("u", w)}); left -= w; j += 1
            nm = "M" if q == bad else f"N{q}"
            desc["structs"].append({"name": nm, "fields": fields})
            desc["impls"].append({"protocol": "can", "type": nm, "name": nm, "signals": [],
                                  "fields": [("id", 100 + q), ("device", "ecu"), ("bus", ["powertrain", "chassis", "body"][q])]})
        return desc, target, False
    if rng.random() < 0.12:
        # big-endian signals on fields that do not start on a byte boundary or are narrower than a byte, in a message that fits the frame
        # (or just does not): whatever the generator does with them, no emitted signal may leave its message or lie over another
        target = rng.choice([40, 48, 56, 60, 63, 64, 64, 64, 65, 68])
        fields, total, j = [], 0, 0
        while total < target:
            w = min(target - total, rng.choice([3, 4, 4, 5, 8, 8, 12, 16, 16, 24]))
            fields.append({"name": f"f{j}", "id": j, "type": (rng.choice(["u", "u", "i"]), w)}); total += w; j += 1
        sigs = [{"name": fl["name"], "fields": [("endianess", "big")]} for fl in fields if rng.random() < 0.5] or \
               [{"name": fields[-1]["name"], "fields": [("endianess", "big")]}]
        desc["structs"].append({"name": "In", "fields": [{"name": "x", "id": 0, "type": ("u", 8)}]})
        desc["structs"].append({"name": "M", "fields": fields})
        desc["impls"].append({"protocol": "can", "type": "M", "name": "M", "fields": [("id", rng.randrange(2048)), ("device", "ecu")], "signals": sigs})
        desc["_big"] = True
        return desc, target, False
    target = rng.choice([57, 60, 63, 64, 65, 66, 72, 80, 100, 128, 200, rng.randint(57, 200)])
    inner_fields = [{"name": "x", "id": 0, "type": ("u", rng.randint(1, 16))}, {"name": "y", "id": 1, "type": ("i", rng.randint(1, 16))}]
    desc["structs"].append({"name": "In", "fields": inner_fields})
    inner_bits = sum(f["type"][1] for f in inner_fields)
    fields, total = [], 0
    j = 0
    while total < target:
        left = target - total
        r = rng.random()
        if r < 0.15 and left >= inner_bits:
            t, w = ("struct", "In"), inner_bits
        elif r < 0.3 and left >= 6:
            ew = rng.randint(1, min(8, left // 2))
            n = rng.randint(1, max(1, min(4, left // ew)))
            t, w = ("arr", ("u", ew), n), ew * n
        elif r < 0.38 and left >= 32:
            t, w = ("f32",), 32
        elif r < 0.42 and left >= 64:
            t, w = ("f64",), 64
        elif r < 0.55 and left >= 8:
            t, w = ("enum", "E"), (1 if desc["enums"][0]["vals"][1][1] == 1 else (2 if desc["enums"][0]["vals"][1][1] == 3 else 8))
        elif r < 0.6 and left >= 4:
            t, w = ("enum", "E5"), 4
        else:
            w = rng.randint(1, min(64, left))
            t = (rng.choice(["u", "i"]), w)
        fields.append({"name": f"f{j}", "id": j, "type": t}); total += w; j += 1
    var = None
    if rng.random() < 0.35:
        var = rng.choice([("str",), ("dyn", ("u", 8)), ("opt", ("u", 8)), ("arr", ("str",), 2), ("arr", ("opt", ("u", 4)), 1)])
        pos = rng.randrange(len(fields) + 1)
        if rng.random() < 0.3:
            inner_fields.insert(rng.randrange(len(inner_fields) + 1), {"name": "v", "id": 7, "type": var})
            if not any(f["type"] == ("struct", "In") for f in fields):
                fields.insert(pos, {"name": "nest", "id": 90, "type": ("struct", "In")})
        else:
            fields.insert(pos, {"name": "v", "id": 91, "type": var})
    if rng.random() < 0.3:
        rng.shuffle(fields)
    desc["structs"].append({"name": "M", "fields": fields})
    desc["impls"].append({"protocol": "can", "type": "M", "name": "M", "fields": [("id", rng.randrange(2048)), ("device", "ecu")], "signals": []})
    return desc, target, var is not None


def dbc_bits(s):
    """The frame bits a DBC signal occupies (bit b of byte k is 8k + b).  Little-endian: start .. start+len-1.  Big-endian (@0): the start
    bit is the most significant one; the signal runs down to bit 0 of its byte and goes on at bit 7 of the next byte."""
    if not s["big"]:
        return set(range(s["start"], s["start"] + s["len"]))
    out, pos = set(), s["start"]
    for _ in range(s["len"]):
        out.add(pos)
        pos = pos + 15 if pos % 8 == 0 else pos - 1
    return out


def c_signals(src):
    """(message, signal, start, len) from the decode macros of a generated *_can.c."""
    return [(m.group(1), int(m.group(2)), int(m.group(3)))
            for m in re.finditer(r"#define can_decode_signal_(\w+)\(msg\) \\\s*\n\s*can_decode_signal_as_\w+\(\(msg\), (\d+), (\d+),", src)]


def run(chk):
    from fcp.encoding import make_encoder, PackedEncoderContext
    quick = chk.tier == "quick"
    n = 260 if quick else 5000
    broken = chk.proof_obligations(["Corr/Dbc.vo", "Corr/Pipeline.vo"])
    chk.coverage["rule"] = (
        "one CAN-bound struct with a total of 57..200 bits (the excess in any field, nested struct or array) and, in a third of the cases, a "
        "variable-size field at any position (also nested / inside an array), or the same nested struct reached two or three times with a total of 65..64+inner bits, or (one in eight) sub-byte / unaligned fields declared big-endian in a message of 40..68 bits; run through fcp_dbc Generator.generate and through "
        "GeneratorManager.generate('can_c') on a pre-populated directory; outcomes compared in Coq with DbcModel and Pipeline+Verifier; "
        "non-trivial = total > 56 bits; distinct = schema text")
    dcases, pcases, meta, fails = [], [], [], []
    ids = {}

    def cid(content):
        if isinstance(content, str):
            content = content.encode()
        return ids.setdefault(content, len(ids) + 1)
    work = common.scratch_dir("verif_c14_")
    try:
        for k in range(n):
            desc, target, has_var = gen_desc(chk.rng)
            text = gen_schema.render(desc)
            fcp = serde_run.parse(text).unwrap()
            total = 0
            for im in fcp.get_matching_impls("can"):          # the largest binding decides (None: one has no static layout)
                try:
                    pieces = make_encoder("packed", fcp, PackedEncoderContext().with_unroll_arrays(True)).generate(im)
                    total = None if total is None else max(total, pieces[-1].bitstart + pieces[-1].bitlength)
                except Exception:
                    pieces, total = None, None
            must_reject = has_var or total is None or total > 64
            chk.hist("total_bits", "variable" if total is None else ("<=64" if total <= 64 else ">64"))
            # ---- DBC
            res, err = dbc_observe(fcp)
            if res is None:
                obs = "None"
            else:
                buses = []
                for r in res:
                    own = dbc_read.read(r["contents"])
                    buses.append(cpair(cstr(r["bus"]), clist(cpair(cz(m["id"]), cstr(m["name"]), cz(m["dlc"]), clist(sig_term(s) for s in m["signals"].values())) for m in own.values())))
                    for m in own.values():
                        sigs = sorted(m["signals"].values(), key=lambda s: s["start"])
                        occ = [(s, dbc_bits(s)) for s in sigs]
                        for i, (a, ba) in enumerate(occ):
                            for b, bb in occ[i + 1:]:
                                if ba & bb:
                                    fails.append({"kind": "dbc-signals-overlap", "schema": text, "a": a, "b": b})
                        if any(max(dbc_bits(s), default=0) >= 8 * m["dlc"] for s in sigs) or m["dlc"] > 8:
                            fails.append({"kind": "dbc-signal-beyond-message", "schema": text, "message": m})
                obs = f"(Some {clist(buses)})"
            if must_reject and res is not None:
                fails.append({"kind": "dbc-generated-for-unfit-message", "schema": text, "total_bits": total, "variable": has_var})
            if desc.get("_big"):
                # (the DBC model knows byte-aligned big-endian signals only; whether cantools accepts the others is not modelled: these
                # schemas are judged by the predicates above - tested, not compared with the model)
                chk.hist("big_endian_unaligned_schemas", "rejected" if res is None else "generated")
                chk.count(text, nontrivial=True, sample={"schema": text, "total_bits": total, "dbc": "raises" if res is None else "files"})
                continue
            ref = serde_run.parse(text).unwrap()      # the model is given the schema as written, not the object the generators held
            dcases.append(cpair(to_coq.schema(ref), clist(to_coq.impl(i) for i in ref.impls), obs, "[]"))
            # ---- the C generation command
            out = os.path.join(work, f"o{k}")
            os.makedirs(out)
            with open(os.path.join(out, "keep.txt"), "w") as f:
                f.write("user file")
            with open(os.path.join(out, "old.h"), "w") as f:
                f.write("stale")
            before = snapshot(out)
            cres, cap = run_generate("can_c", fcp, out)
            after = snapshot(out)
            if cap.returned is not None:
                files = [(os.path.relpath(str(r["path"]), out), str(r["contents"])) for r in cap.returned if r.get("type") == "file"]
                pout = "(PFiles %s)" % clist(cpair(cstr(fn), cz(cid(c))) for fn, c in files)
            else:
                files, pout = None, "PRaise"
            fsb = clist(cpair(cstr(fn), cz(cid(c))) for fn, (c, _) in sorted(before.items()))
            fsa = clist(cpair(cstr(fn), cz(cid(c))) for fn, (c, _) in sorted(after.items()))
            pcases.append(cpair("CanC", to_coq.ftree(ref), pout, fsb, cres, fsa))
            meta.append(text)
            chk.hist("c_command", cres)
            if must_reject and (cres == "OROk" or before != after):
                fails.append({"kind": "c-command-accepted-unfit-message", "schema": text, "total_bits": total, "variable": has_var, "result": cres,
                              "directory_changed": before != after})
            if cres == "OROk":
                for fn, c in files:
                    if fn.endswith("_can.c"):
                        sigs = sorted(c_signals(c), key=lambda s: s[1])
                        for a, b in zip(sigs, sigs[1:]):
                            if a[1] + a[2] > b[1]:
                                fails.append({"kind": "c-signals-overlap", "schema": text, "a": a, "b": b})
                        if any(s[1] + s[2] > 64 for s in sigs):
                            fails.append({"kind": "c-signal-beyond-message", "schema": text, "signals": sigs})
            shutil.rmtree(out, ignore_errors=True)
            chk.count(text, nontrivial=True, sample={"schema": text, "total_bits": total, "variable_field": has_var,
                                                     "dbc": "raises" if res is None else "files", "c_command": cres})
    finally:
        shutil.rmtree(work, ignore_errors=True)
    chk.log(f"{len(dcases)} schemas; implementation-side failures: {len(fails)}")
    chk.coverage["traces_validated_against_impl"] = len(dcases) + len(pcases)
    mism_d, mism_p = [], []
    if broken is None:
        try:
            mism_d = common.run_cases("Dbc", dcases, shard=80)
            mism_p = common.run_cases("Pipeline", pcases, shard=80)
        except common.CoqError as e:
            broken = f"correspondence could not be evaluated: {e}"
    fails.sort(key=lambda f: len(json.dumps(f, default=repr)))
    for f in fails[:3]:
        chk.violation(f)
    if not fails:
        for i in mism_d[:2]:
            chk.violation({"kind": "model-vs-implementation", "correspondence": "Corr.Dbc.check_case", "schema": meta[i]}, no_failing_input=True)
        for i in mism_p[:2]:
            chk.violation({"kind": "model-vs-implementation", "correspondence": "Corr.Pipeline.check_case", "schema": meta[i]}, no_failing_input=True)
        if not mism_d and not mism_p and broken is not None:
            chk.violation({"kind": "proof-obligation", "broken": broken, "theorem": "Props/C14.v"}, no_failing_input=True)
    chk.assumptions += ["'fails with an error' is observed as: fcp_dbc Generator.generate raises / GeneratorManager.generate returns Err or raises, and the directory is unchanged",
                        "the C rule sizes a message as the sum of get_length() of its own fields (model Verifier.Checks.chk_c_size); that this equals the packed size on flat numeric structs is validated by the correspondence, not proved"]


def replay(chk, rep):
    print(json.dumps(rep, indent=1, default=repr)[:3000])
    return 1
