"""C17 — generated artifacts are a deterministic function of the schema."""
import json
import os
import re
import shutil
import subprocess
from concurrent.futures import ThreadPoolExecutor

import common
import gen_schema
import serde_run
from common import cstr, clist, cpair

STAMP = re.compile(r"^// Generated using fcp .* on .*$", re.M)
WORKER = os.path.join(common.VERIF, "harness", "workers", "gen_worker.py")


def normalise(files):
    return {k: STAMP.sub("// Generated using fcp", v) for k, v in files.items()}


def run_worker(args):
    schema, name, outdir, history, seed = args
    env = common.child_env({"PYTHONHASHSEED": str(seed)})
    r = subprocess.run([common.PY, WORKER, schema, name, outdir, history], capture_output=True, text=True, env=env, timeout=300)
    lines = [l for l in r.stdout.split("\n") if l.startswith("{")]
    if r.returncode != 0 or not lines:
        return {"__worker_failed__": (r.stderr or r.stdout)[-300:]}
    return json.loads(lines[-1])


def c17_desc(rng):
    desc = gen_schema.gen_desc(rng, "fixed", max_fields=4, depth=1, nstructs=rng.randint(1, 4))
    gen_schema.add_can_impls(rng, desc, p=0.9)
    for s in desc["structs"]:
        if rng.random() < 0.6:                     # more protocols -> more orders of get_protocols()
            desc["impls"].append({"protocol": rng.choice(["uart", "spi", "eth", "lin"]), "type": s["name"], "name": s["name"] + "X",
                                  "fields": [("x", 1)], "signals": []})
    gen_schema.add_services(rng, desc)
    return desc


def run(chk):
    quick = chk.tier == "quick"
    nsch, nseeds = (6, 6) if quick else (40, 32)
    broken = chk.proof_obligations(["Corr/Gen.vo"])
    chk.coverage["rule"] = (
        "schemas with several protocols and services; every generator (dbc, can_c, cpp, nop) is run in fresh interpreters under different "
        "PYTHONHASHSEEDs, after unrelated parse/generate calls in the same process, and twice on the same parsed schema object; the {path: contents} "
        "maps must be identical apart from the documented '// Generated using fcp ... on ...' stamp line; the C++ generator's file set is compared "
        "in Coq with the model; non-trivial = >= 2 protocols or a service; distinct = (schema, generator, configuration)")
    work = common.scratch_dir("verif_c17_")
    cases, fails, meta = [], [], []
    try:
        jobs, index = [], []
        for k in range(nsch):
            desc = c17_desc(chk.rng)
            text = gen_schema.render(desc)
            fcp = serde_run.parse(text).unwrap()
            path = f"{work}/s{k}.fcp"
            with open(path, "w") as f:
                f.write(text)
            protos = [i.protocol for i in fcp.impls]
            for name in ("dbc", "can_c", "cpp", "nop"):
                confs = [("none", s) for s in chk.rng.sample(range(1, 10000), nseeds)] + [("busy", 7), ("twice", 11), ("busy", 4242)]
                for ci, (hist, seed) in enumerate(confs):
                    jobs.append((path, name, f"{work}/o{k}_{name}_{ci}", hist, seed))
                    index.append((k, text, name, hist, seed, protos, [s.name for s in fcp.services]))
        with ThreadPoolExecutor(max_workers=common.NPROC) as ex:
            outs = list(ex.map(run_worker, jobs))
        ref = {}
        for (k, text, name, hist, seed, protos, services), out in zip(index, outs):
            chk.count((text, name, hist, seed), nontrivial=len(set(protos)) >= 2 or bool(services),
                      sample={"schema": text[:300], "generator": name, "history": hist, "hashseed": seed, "files": sorted(out)[:8]})
            chk.hist("generator", name); chk.hist("history", hist)
            if "__worker_failed__" in out:
                fails.append({"kind": "worker-failed", "schema": text, "generator": name, "detail": out["__worker_failed__"]})
                continue
            out = normalise(out)
            key = (k, name)
            if key not in ref:
                ref[key] = (out, hist, seed)
                if name == "cpp" and "__raised__" not in out:
                    cases.append(cpair(clist(cstr(p) for p in protos), clist(cstr(s) for s in services), clist(cstr(f) for f in sorted(out))))
                    meta.append(text)
            elif out != ref[key][0]:
                a = ref[key][0]
                diff = sorted(set(a) ^ set(out)) or sorted(f for f in a if a[f] != out.get(f))
                fails.append({"kind": "artifacts-differ-between-runs", "schema": text, "generator": name,
                              "first": {"history": ref[key][1], "hashseed": ref[key][2]}, "second": {"history": hist, "hashseed": seed},
                              "files_that_differ": diff[:6]})
    finally:
        shutil.rmtree(work, ignore_errors=True)
    chk.log(f"{chk.coverage['evaluations']} generator runs; implementation-side failures: {len(fails)}")
    chk.coverage["traces_validated_against_impl"] = len(cases)
    mism = []
    if broken is None:
        try:
            mism = common.run_cases("Gen", cases, shard=100)
        except common.CoqError as e:
            broken = f"correspondence could not be evaluated: {e}"
    seen, uniq = set(), []
    for f in sorted(fails, key=lambda f: len(json.dumps(f, default=repr))):
        key = (f["kind"], f.get("generator"), f.get("second", {}).get("history"))
        if key not in seen:
            seen.add(key); uniq.append(f)
    for f in uniq[:3]:
        chk.violation(f)
    if not fails:
        for i in mism[:3]:
            chk.violation({"kind": "model-vs-implementation", "correspondence": "Corr.Gen.check_case (model Gen.Determinism.cpp_file_names)", "schema": meta[i]},
                          no_failing_input=True)
        if not mism and broken is not None:
            chk.violation({"kind": "proof-obligation", "broken": broken, "theorem": "Props/C17.v"}, no_failing_input=True)
    chk.assumptions += ["partial: no Gallina function produces the verbatim template text, so for file CONTENTS the decision is the run-to-run comparison (a difference can be found, not excluded); the theorems cover the file set under protocol-order permutation, the shared encoder's history independence and the generator's call-history independence",
                        "the stamp line '// Generated using fcp <version> on <date> by <user>@<host>' is normalised away as the C++ generator documents"]


def replay(chk, rep):
    print(json.dumps(rep, indent=1, default=repr)[:3000])
    return 1
