"""C17 — generated artifacts are a deterministic function of the schema."""
import json
import os
import re
import shutil
import subprocess
from concurrent.futures import ThreadPoolExecutor

import common
import gen_schema
import serde_run
from common import cstr, clist, cpair

STAMP = re.compile(r"^// Generated using fcp .* on .*$", re.M)
WORKER = os.path.join(common.VERIF, "harness", "workers", "gen_worker.py")


def normalise(files):
    return {k: STAMP.sub("// Generated using fcp", v) for k, v in files.items()}


def run_worker(args):
    schema, name, outdir, history, seed = args
    env = common.child_env({"PYTHONHASHSEED": str(seed)})
    r = subprocess.run([common.PY, WORKER, schema, name, outdir, history], capture_output=True, text=True, env=env, timeout=300)
    lines = [l for l in r.stdout.split("\n") if l.startswith("{")]
    if r.returncode != 0 or not lines:
        return {"__worker_failed__": (r.stderr or r.stdout)[-300:]}
    return json.loads(lines[-1])


def packed_bits(desc, t):
    k = t[0]
    if k in ("u", "i"):
        return t[1]
    if k == "f32":
        return 32
    if k == "f64":
        return 64
    if k == "enum":
        e = next(e for e in desc["enums"] if e["name"] == t[1])
        bits = max(1, max(v for _, v in e["vals"]).bit_length())
        return 1 << (bits - 1).bit_length()
    if k == "arr":
        return t[2] * packed_bits(desc, t[1])
    if k == "struct":
        return sum(packed_bits(desc, f["type"]) for f in next(x for x in desc["structs"] if x["name"] == t[1])["fields"])
    raise ValueError(t)


def c17_desc(rng):
    """Schemas every generator accepts most of the time: frames of at most 64 bits; in the 'c' flavour only the widths the C generator
    has types for. (An earlier version drew arbitrary fixed-size schemas: dbc then refused 38 of 40 as 'too big', and identical refusals
    compare equal - the artifacts were hardly compared at all.)"""
    flavour = rng.choice(["c", "c", "any", "wide"])
    if flavour == "wide":
        desc = gen_schema.gen_desc(rng, "fixed", max_fields=4, depth=1, nstructs=rng.randint(1, 4))
    else:
        desc = {"enums": [], "structs": [], "impls": []}
        for i in range(rng.randint(1, 3)):
            top = rng.choice([1, 2, 3, 5, 7, 8, 15, 16, 200, 255, 256, 70000])
            vals = sorted({top} | {rng.randint(0, top) for _ in range(rng.randint(0, 3))})
            rng.shuffle(vals)
            desc["enums"].append({"name": f"E{i}", "vals": [(f"V{j}", v) for j, v in enumerate(vals)]})
        enums = [e["name"] for e in desc["enums"]]
        for i in range(rng.randint(1, 4)):
            fields, budget = [], 64
            for j in range(rng.randint(1, 5)):
                r = rng.random()
                if r < 0.3:
                    t = ("enum", rng.choice(enums))
                elif r < 0.4:
                    t = ("f32",)
                elif r < 0.5 and desc["structs"] and flavour == "any":
                    t = ("struct", rng.choice(desc["structs"])["name"])
                elif r < 0.6 and flavour == "any":
                    t = ("arr", (rng.choice("ui"), rng.randint(1, 12)), rng.randint(1, 3))
                else:
                    t = (rng.choice("ui"), rng.choice([8, 16, 32]) if flavour == "c" else rng.randint(1, 20))
                b = packed_bits(desc, t)
                if b > budget:
                    continue
                budget -= b
                fields.append({"name": f"f{j}", "id": j, "type": t})
            if not fields:
                fields = [{"name": "f0", "id": 0, "type": ("u", 8)}]
            if rng.random() < 0.4:
                rng.shuffle(fields)
            desc["structs"].append({"name": f"S{i}", "fields": fields})
    enums = [e["name"] for e in desc["enums"]]
    if flavour == "wide":
        for s in desc["structs"]:
            if enums and rng.random() < 0.5:
                rng.choice(s["fields"])["type"] = ("enum", rng.choice(enums))
    if rng.random() < 0.35:
        # long field names: nested leaves flatten to symbols of more than 32 characters (what a DBC symbol may hold), and whatever a
        # back end does to shorten them must be the same in every process
        for st in desc["structs"]:
            for f in st["fields"]:
                f["name"] = rng.choice(["supply_voltage_millivolts", "diagnostics_temperature_celsius", "front_left_corner_wheel_speed", "status"]) + "_" + f["name"]
    gen_schema.add_can_impls(rng, desc, p=0.9)
    if flavour != "wide":
        for im in desc["impls"]:
            if rng.random() < 0.7:
                im["signals"] = [sb for sb in im["signals"] if not any(k.startswith("mux") for k, _ in sb["fields"]) and sb["name"] != "nosuchfield"]
    # several distinct sender devices on one bus (their order in the artifacts must not depend on hashing), sometimes two buses
    cans = [im for im in desc["impls"] if im["protocol"] == "can"]
    pool = ["ecu", "bms", "dash", "gateway", "inverter"]
    rng.shuffle(pool)
    for q, im in enumerate(cans):
        im["fields"] = [(k, v) for k, v in im["fields"] if k not in ("device", "bus")]
        if rng.random() < 0.85:
            im["fields"].append(("device", pool[q % len(pool)]))
        if rng.random() < 0.25:
            im["fields"].append(("bus", rng.choice(["bus1", "bus2"])))
    # more protocols -> more orders of get_protocols(); in half of the schemas the protocol names come from a family that differs
    # only in spelling style (can_fd / canFd / CanFd): whatever is derived from a name must keep them apart in every order
    family = rng.choice([["uart", "spi", "eth", "lin"], ["can_fd", "canFd", "CanFd", "canfd"],
                         ["spi_bus", "spiBus", "Spi_bus", "uart"], ["Uart", "uart", "UART", "lin"]])
    variants = family[0] != "uart"
    rng.shuffle(family)
    for q, s in enumerate(desc["structs"] + (desc["structs"][:1] if variants and len(desc["structs"]) == 1 else [])):
        if variants or rng.random() < 0.6:
            desc["impls"].append({"protocol": family[q % len(family)] if variants else rng.choice(family), "type": s["name"], "name": s["name"] + "X" * (1 + q // max(1, len(desc["structs"]))),
                                  "fields": [("x", 1)], "signals": []})
    gen_schema.add_services(rng, desc)
    return desc


def same_names_other_definitions(rng, desc):
    """The schema another project might have: every enum, struct, binding and service keeps its name, the definitions differ
    (enum value ranges, field widths, frame ids)."""
    import copy
    other = copy.deepcopy(desc)
    other["enums"] = [{"name": e["name"], "vals": [(n, v) for n, v in e["vals"] if v != max(x for _, x in e["vals"])]
                       + [("Vtop", rng.choice([1, 3, 9, 17, 300, 70000]))]} for e in desc["enums"]]
    for s in other["structs"]:
        for f in s["fields"]:
            if f["type"][0] in ("u", "i") and rng.random() < 0.5:
                f["type"] = (f["type"][0], rng.choice([8, 16, 32]) if f["type"][1] in (8, 16, 32) else rng.randint(1, 20))
    for im in other["impls"]:
        im["fields"] = [(k, (v + 1) % 2048 if k == "id" else v) for k, v in im["fields"]]
    return other


def split_render(desc, modname):
    """The schema as two files: every enum and struct in a module, the bindings, services and devices (and the import) in the main file."""
    mod_text = gen_schema.render({"enums": desc["enums"], "structs": desc["structs"], "impls": []})
    rest = gen_schema.render({"enums": [], "structs": [], "impls": desc["impls"], "services": desc.get("services", []), "devices": desc.get("devices", [])})
    head, body = rest.split("\n", 1)
    return head + f"\nmod {modname};\n" + body, mod_text


def run(chk):
    quick = chk.tier == "quick"
    nsch, nseeds = (6, 6) if quick else (40, 32)
    broken = chk.proof_obligations(["Corr/Gen.vo"])
    chk.coverage["rule"] = (
        "schemas with several protocols and services; every generator (dbc, can_c, cpp, nop) is run in fresh interpreters under different "
        "PYTHONHASHSEEDs, after unrelated parse/generate calls in the same process, after parsing and generating from another schema that declares the same type names with other definitions (also with the very Generator objects that generated from that schema), twice on the same parsed schema object, after every other generator has run on that same object, and (schemas split into a main file and a module) after the same process parsed the same paths while the module file held other definitions; the {path: contents} "
        "maps must be identical apart from the documented '// Generated using fcp ... on ...' stamp line; the C++ generator's file set is compared "
        "in Coq with the model; non-trivial = >= 2 protocols or a service; distinct = (schema, generator, configuration)")
    work = common.scratch_dir("verif_c17_")
    cases, fails, meta = [], [], []
    try:
        jobs, index, prevs = [], [], {}
        for k in range(nsch):
            desc = c17_desc(chk.rng)
            text = gen_schema.render(desc)
            fcp = serde_run.parse(text).unwrap()
            # every other schema is written as a main file importing a module (so that generation from module graphs is covered,
            # and the module can be rewritten between two parses of one process)
            split = k % 2 == 1
            path = f"{work}/s{k}.fcp"
            rewrite = None
            if split:
                main_text, mod_text = split_render(desc, f"s{k}_types")
                with open(f"{work}/s{k}_types.fcp", "w") as f:
                    f.write(mod_text)
                other_mod = split_render(same_names_other_definitions(chk.rng, desc), f"s{k}_types")[1]
                rewrite = f"{work}/s{k}_types.before"
                with open(rewrite, "w") as f:
                    f.write(other_mod)
                prevs[rewrite] = other_mod
                text = main_text + "\n// --- module s%d_types.fcp ---\n" % k + mod_text
                with open(path, "w") as f:
                    f.write(main_text)
            else:
                with open(path, "w") as f:
                    f.write(text)
            # a schema with the same type names but other definitions (generated names are E0.., S0..), used as the process's earlier work
            prev = f"{work}/p{k}.fcp"
            prev_text = gen_schema.render(same_names_other_definitions(chk.rng, desc) if chk.rng.random() < 0.8 else c17_desc(chk.rng))
            prevs[prev] = prev_text
            with open(prev, "w") as f:
                f.write(prev_text)
            protos = [i.protocol for i in fcp.impls]
            for name in ("dbc", "can_c", "cpp", "nop"):
                confs = [("none", s) for s in chk.rng.sample(range(1, 10000), nseeds)] + [("busy", 7), ("twice", 11), ("busy", 4242), ("after:" + prev, 5), ("after:" + prev, 977), ("same-object-after:" + prev, 6), ("others-first", 3), ("others-first", 4711)] + ([("module-rewritten:" + rewrite, 9), ("module-rewritten:" + rewrite, 1234)] if rewrite else [])
                for ci, (hist, seed) in enumerate(confs):
                    jobs.append((path, name, f"{work}/o{k}_{name}_{ci}", hist, seed))
                    index.append((k, text, name, hist, seed, protos, [s.name for s in fcp.services]))
        with ThreadPoolExecutor(max_workers=common.NPROC) as ex:
            outs = list(ex.map(run_worker, jobs))
        ref = {}
        for (k, text, name, hist, seed, protos, services), out in zip(index, outs):
            chk.count((text, name, hist, seed), nontrivial=len(set(protos)) >= 2 or bool(services),
                      sample={"schema": text[:300], "generator": name, "history": hist, "hashseed": seed, "files": sorted(out)[:8]})
            chk.hist("generator", name); chk.hist("history", hist.split(":")[0])
            chk.hist("outcome", f"{name}:" + ("worker-failed" if "__worker_failed__" in out else "raised:" + str(out["__raised__"]) if "__raised__" in out else "files"))
            if "__worker_failed__" in out:
                fails.append({"kind": "worker-failed", "schema": text, "generator": name, "detail": out["__worker_failed__"]})
                continue
            out = normalise(out)
            key = (k, name)
            if key not in ref:
                ref[key] = (out, hist, seed)
                if name == "cpp" and "__raised__" not in out:
                    cases.append(cpair(clist(cstr(p) for p in protos), clist(cstr(s) for s in services), clist(cstr(f) for f in sorted(out))))
                    meta.append(text)
            elif out != ref[key][0]:
                a = ref[key][0]
                diff = sorted(set(a) ^ set(out)) or sorted(f for f in a if a[f] != out.get(f))
                fails.append({"kind": "artifacts-differ-between-runs", "schema": text, "generator": name,
                              "first": {"history": ref[key][1], "hashseed": ref[key][2]}, "second": {"history": hist, "hashseed": seed},
                              "files_that_differ": diff[:6]})
                for side in ("first", "second"):
                    h = fails[-1][side]["history"]
                    if h.startswith("after:") or h.startswith("same-object-after:"):
                        fails[-1][side]["history"] = h.split(":")[0]
                        fails[-1]["schema_generated_from_earlier_in_the_process"] = prevs[h.split(":", 1)[1]]
                    if h.startswith("module-rewritten:"):
                        fails[-1][side]["history"] = "module-rewritten"
                        fails[-1]["text_of_the_module_file_during_the_first_parse_of_the_process"] = prevs[h[len("module-rewritten:"):]]
    finally:
        shutil.rmtree(work, ignore_errors=True)
    chk.log(f"{chk.coverage['evaluations']} generator runs; implementation-side failures: {len(fails)}")
    chk.coverage["traces_validated_against_impl"] = len(cases)
    mism = []
    if broken is None:
        try:
            mism = common.run_cases("Gen", cases, shard=100)
        except common.CoqError as e:
            broken = f"correspondence could not be evaluated: {e}"
    seen, uniq = set(), []
    for f in sorted(fails, key=lambda f: len(json.dumps(f, default=repr))):
        key = (f["kind"], f.get("generator"), f.get("second", {}).get("history"))
        if key not in seen:
            seen.add(key); uniq.append(f)
    for f in uniq[:3]:
        chk.violation(f)
    if not fails:
        for i in mism[:3]:
            chk.violation({"kind": "model-vs-implementation", "correspondence": "Corr.Gen.check_case (model Gen.Determinism.cpp_file_names)", "schema": meta[i]},
                          no_failing_input=True)
        if not mism and broken is not None:
            chk.violation({"kind": "proof-obligation", "broken": broken, "theorem": "Props/C17.v"}, no_failing_input=True)
    chk.assumptions += ["partial: no Gallina function produces the verbatim template text, so for file CONTENTS the decision is the run-to-run comparison (a difference can be found, not excluded); the theorems cover the file set under protocol-order permutation, the shared encoder's history independence and the generator's call-history independence",
                        "the stamp line '// Generated using fcp <version> on <date> by <user>@<host>' is normalised away as the C++ generator documents"]


def replay(chk, rep):
    print(json.dumps(rep, indent=1, default=repr)[:3000])
    return 1
