"""C19 — generated C scheduler honours periods over every call history."""
import os
import shutil
import subprocess
from concurrent.futures import ThreadPoolExecutor

import common
import serde_run
import to_coq
from common import cz, cnat, clist, cpair, cstr

W = 2 ** 32

DRIVER = r"""
#include "ecu_can.h"
#include <stdio.h>
#include <string.h>
#include <stdlib.h>
static void pr(const char *tag, const CanFrame *f) {
    uint64_t d; memcpy(&d, f->data, 8);
    printf("%s %u %u %llu\n", tag, (unsigned)f->id, (unsigned)f->dlc, (unsigned long long)d);
}
static void cb(const CanFrame *f) { pr("S", f); }
int main(void) {
    CanDeviceEcu dev; unsigned long long t; unsigned seed;
    while (scanf("%llu %u", &t, &seed) == 2) {
        unsigned char *p = (unsigned char *)&dev; unsigned x = seed * 2654435761u + 12345u;
        for (size_t i = 0; i < sizeof dev; i++) { x = x * 1103515245u + 12345u; p[i] = (unsigned char)(x >> 16); }
        printf("C\n");
%ENC%
        can_send_ecu_msgs_scheduled(&dev, (uint32_t)t, cb);
    }
    return 0;
}
"""


def gen_device(rng, maxp):
    n = rng.randint(1, 4)
    msgs = []
    ids = rng.sample(range(0, 2048), n)
    for i in range(n):
        widths = []
        total = 0
        for _ in range(rng.randint(1, 4)):
            w = rng.choice([8, 8, 16, 32])
            if total + w > 64:
                break
            widths.append(w)
            total += w
        r = rng.random()
        if r < 0.2:
            period = -1
        elif r < 0.27:
            period = "omit"        # no period field at all: the writer's default (-1), never sent
        elif r < 0.32:
            period = 0             # due on every call with a new timestamp
        elif r < 0.4:
            period = 1
        else:
            period = rng.randint(1, maxp)
        if msgs and rng.random() < 0.3:
            # messages of one device often share a period: each keeps its own timing all the same
            period = rng.choice(msgs)["period"]
        msgs.append({"name": f"M{i}", "id": ids[i], "widths": widths, "period": -1 if period == "omit" else period, "omit": period == "omit"})
    # the device under test ("ecu") is one of several in about half of the schemas: the messages of other devices (and some bound to no
    # device) are declared before, between and after its own, and none of them is the ecu's to send
    if rng.random() < 0.5:
        free = [x for x in range(0, 2048) if x not in ids]
        for k in range(rng.randint(1, 3)):
            other = {"name": f"X{k}", "id": rng.choice(free), "widths": [rng.choice([8, 16, 32])],
                     "period": rng.choice([1, 2, 5, rng.randint(1, maxp)]), "omit": False, "device": rng.choice(["bms", "dash", "bms", None])}
            while other["id"] in ids or any(o["id"] == other["id"] for _, o in msgs[0].get("others", [])):
                other["id"] = rng.choice(free)
            msgs[0].setdefault("others", []).append((rng.randint(0, n), other))
    return msgs


def device_fcp(msgs):
    out = ['version: "3"\n']
    decl = [(i, m) for i, m in enumerate(msgs)]
    for pos, other in sorted(msgs[0].get("others", []), key=lambda x: -x[0]):
        k = next((j for j, (i, _) in enumerate(decl) if i is not None and i >= pos), len(decl))
        decl.insert(k, (None, other))
    for _, m in decl:
        out.append(f"struct {m['name']} {{")
        for k, w in enumerate(m["widths"]):
            out.append(f"    f{k} @{k}: u{w},")
        out.append("}")
        pline = "" if m.get("omit") else f"    period: {m['period']},\n"
        dev = m.get("device", "ecu")
        dline = "" if dev is None else f"    device: \"{dev}\",\n"
        out.append(f"impl can for {m['name']} {{\n    id: {m['id']},\n{dline}{pline}}}\n")
    return "\n".join(out)


def gen_history(rng, msgs, length):
    ps = [m["period"] for m in msgs]
    M = max([p for p in ps if p != -1] + [1])
    real = [p for p in ps if p != -1] or [7]
    T = 0
    mode = rng.random()
    if mode < 0.3:
        T = W - rng.randint(1, 3 * M)            # first gap is large but below W - M
        if T >= W - M:
            T = W - M - 1
    elif mode < 0.5:
        T = rng.randint(0, 2 * M)
    hist = []
    for k in range(length):
        if k > 0:
            p = rng.choice(real)
            d = rng.choice([0, 0, 1, p - 1, p, p + 1, 2 * p, rng.randint(0, 3 * M)])
            if rng.random() < 0.04:
                d = W - M - 1 - rng.randint(0, 2 * M)   # nearly a full wrap
            d = max(0, min(d, W - M - 1))
            T += d
        hist.append((T, rng.randint(0, 10 ** 6)))
    return hist


def ideal(ps, hist_frames):
    """10-line reference automaton over unbounded true time (the property's sentence)."""
    last_call = 0
    last = [0] * len(ps)
    out = []
    for T, frames in hist_frames:
        sends = []
        if T != last_call:
            last_call = T
            for i, P in enumerate(ps):
                if P != -1 and T - last[i] >= P:
                    sends.append((i, frames[i]))
                    last[i] = T
        out.append(sends)
    return out


def build_device(fcp_text, msgs, workdir):
    """Generate C with the real generator and compile the driver.  Returns (exe|None, error)."""
    from fcp.parser import get_fcp_from_string
    from fcp_can_c import Generator
    fcp = get_fcp_from_string(fcp_text).unwrap()
    files = Generator().generate(fcp, {"output": workdir})
    for f in files:
        with open(f["path"], "w") as fh:
            fh.write(str(f["contents"]))
    hpath = os.path.join(workdir, "ecu_can.h")
    header = open(hpath).read() if os.path.exists(hpath) else ""
    devstruct = header[:header.find("} CanDeviceEcu;")]
    devstruct = devstruct[devstruct.rfind("typedef struct"):]

    def enc_line(m):
        nm = m["name"].lower()
        if f"can_encode_msg_{nm}(" in header and f" {nm};" in devstruct:
            return f"        {{ CanFrame f = can_encode_msg_{nm}(&dev.{nm}); pr(\"E\", &f); }}\n"
        # the device's generated code does not know this message at all: its current value has no encoding there (an empty frame stands
        # for it), and the history shows that it is never transmitted
        return f"        {{ CanFrame f; memset(&f, 0, sizeof f); f.id = {m['id']}; pr(\"E\", &f); }}\n"
    enc = "".join(enc_line(m) for m in msgs)
    with open(os.path.join(workdir, "driver.c"), "w") as fh:
        fh.write(DRIVER.replace("%ENC%", enc))
    exe = os.path.join(workdir, "driver")
    r = subprocess.run(["gcc", "-O1", "-fno-strict-aliasing", "-w", "-o", exe, "driver.c", "ecu_can.c",
                        "can_signal_parser.c", "-lm"], cwd=workdir, capture_output=True, text=True, timeout=120)
    if r.returncode != 0:
        return None, r.stderr[-2000:]
    return exe, None


def translated_devices_are_the_model(chk, devs):
    """For every built device: translate the generated scheduler and let Coq check gen_step = shape_step periods by conversion.
    Returns None, or a description of the first device for which that fails."""
    import c2coq
    from concurrent.futures import ThreadPoolExecutor
    jobs = []
    for k, ((msgs, text, wd), _) in enumerate(devs):
        names = [m["name"].lower() for m in msgs]
        ps = "; ".join(f"({m['period']})" for m in msgs)
        try:
            n, defn = c2coq.translate_scheduler(os.path.join(wd, "ecu_can.c"), [wd], names, "gen_step")
        except c2coq.Untranslatable as e:
            return f"untranslatable ({e}) for\n{text}"
        if n != len(msgs):
            return f"last_send_t has {n} slots for {len(msgs)} messages in\n{text}"
        src = ("From Coq Require Import ZArith List Bool.\nFrom FcpV Require Import Sched.Sched Sched.SchedGenLib.\nImport ListNotations.\nOpen Scope Z_scope.\n"
               + defn + f"Lemma generated_is_shape : forall s time, gen_step s time = shape_step [{ps}] s time.\nProof. intros. reflexivity. Qed.\n")
        path = os.path.join(wd, "SchedGenDev.v")
        with open(path, "w") as f:
            f.write(src)
        jobs.append((path, text))

    def check(job):
        r = subprocess.run(["coqc", "-Q", common.COQ, "FcpV", job[0]], capture_output=True, text=True, timeout=300)
        return None if r.returncode == 0 else f"{(r.stdout + r.stderr)[-300:]} for\n{job[1]}"
    with ThreadPoolExecutor(max_workers=8) as ex:
        res = list(ex.map(check, jobs))
    chk.coverage["generated_schedulers_translated_and_checked"] = sum(1 for r in res if r is None)
    bad = [r for r in res if r is not None]
    return bad[0] if bad else None


def frame_z(fid, dlc, data):
    return fid + (dlc << 11) + (data << 15)


def run_history(exe, msgs, hist):
    inp = "".join(f"{T % W} {seed}\n" for T, seed in hist)
    r = subprocess.run([exe], input=inp, capture_output=True, text=True, timeout=60)
    if r.returncode != 0:
        raise RuntimeError(f"driver exited {r.returncode}: {r.stderr[-300:]}")
    calls = []
    ids = [m["id"] for m in msgs]
    for line in r.stdout.split("\n"):
        if not line:
            continue
        tag, *rest = line.split()
        if tag == "C":
            calls.append({"E": [], "S": []})
        elif tag == "E":
            calls[-1]["E"].append(frame_z(*map(int, rest)))
        elif tag == "S":
            fid, dlc, data = map(int, rest)
            idx = ids.index(fid) if fid in ids else 99
            calls[-1]["S"].append((idx, frame_z(fid, dlc, data)))
    if len(calls) != len(hist):
        raise RuntimeError("driver produced a different number of calls")
    return calls


def case_term(ps, hist, calls):
    h = clist(cpair(cz(T % W), clist(cz(f) for f in c["E"])) for (T, _), c in zip(hist, calls))
    obs = clist(clist(cpair(cnat(i), cz(f)) for i, f in c["S"]) for c in calls)
    return cpair(clist(cz(p) for p in ps), h, obs)


def run(chk):
    quick = chk.tier == "quick"
    ndev, nhist, hlen, maxp = (40, 40, 14, 60) if quick else (400, 120, 24, 2000)
    broken = chk.proof_obligations(["Corr/C19.vo", "Corr/C19Periods.vo", "Sched/SchedGenProofs.vo"])
    chk.coverage["rule"] = (
        "devices: 1-4 CAN messages (u8/u16/u32 fields), periods -1, 0, 1, 1..N or none (three in ten messages repeat the period of an earlier message of the device), in half of the schemas declared between 1-3 messages of other "
        "devices (bms, dash, none), generated C compiled with gcc; "
        "histories: true times with deltas {0,1,P-1,P,P+1,2P,random,near-wrap}, first call possibly close to 2^32; "
        "non-trivial = at least one frame sent and one call suppressed; distinct = (periods, wrapped times)")
    workroot = common.scratch_dir("verif_c19_")
    try:
        devices = []
        for d in range(ndev):
            msgs = gen_device(chk.rng, maxp)
            devices.append((msgs, device_fcp(msgs), os.path.join(workroot, f"d{d}")))
            os.makedirs(devices[-1][2])

        def build(dev):
            try:
                return build_device(dev[1], dev[0], dev[2])
            except Exception as e:  # generator failed on an in-subset schema
                return None, f"generation raised {e!r}"
        # generation uses the in-process real generator (not thread-safe for jinja caches: do it serially), compile in parallel
        built = [build(dev) for dev in devices]
        chk.coverage["programs"] = sum(1 for b in built if b[0])
        # the generated C itself: clang's AST of can_send_ecu_msgs_scheduled is translated to Gallina (harness/c2coq.py) and Coq checks
        # that it is the statement sequence proved equal to the model (Sched/SchedGenProofs.v: shape_is_model)
        untied = translated_devices_are_the_model(chk, [(d, b) for d, b in zip(devices, built) if b[0]])
        if untied and broken is None:
            broken = "generated scheduler is not the modelled statement sequence: " + untied
        cases, meta, pcases, pmeta = [], [], [], []
        for (msgs, text, wd), (exe, err) in zip(devices, built):
            if exe is None:
                chk.violation({"kind": "generated C does not build", "schema": text, "error": err})
                continue
            ps = [m["period"] for m in msgs]
            # the periods the model is run with are those of the ecu's CAN bindings as written in the schema (own parse): the other side of
            # CanC/CWriterProofs.v scheduler_periods_are_the_bindings
            try:
                ref = serde_run.parse(text).unwrap()
                pcases.append(cpair(clist(to_coq.impl(i) for i in ref.impls), cstr("ecu"), clist(cz(p) for p in ps)))
                pmeta.append(text)
            except Exception as e:
                chk.violation({"kind": "device schema does not parse", "schema": text, "error": repr(e)})
            for _ in range(nhist):
                hist = gen_history(chk.rng, msgs, chk.rng.randint(3, hlen))
                calls = run_history(exe, msgs, hist)
                cases.append(case_term(ps, hist, calls))
                meta.append((msgs, text, hist, calls))
                nsent = sum(len(c["S"]) for c in calls)
                chk.count((tuple(ps), tuple(T % W for T, _ in hist)),
                          nontrivial=(nsent > 0 and any(not c["S"] for c in calls)),
                          sample={"periods": ps, "times": [T for T, _ in hist][:8], "sent_per_call": [len(c["S"]) for c in calls][:8]})
                chk.hist("messages", len(ps))
                chk.hist("wraps", int(hist[-1][0] >= W))
                chk.hist("sends_per_history", min(nsent, 10))
        chk.log(f"{len(cases)} histories over {chk.coverage['programs']} compiled devices")
        chk.coverage["traces_validated_against_impl"] = len(cases)

        # the property's own predicate on the implementation (search for a failing input)
        def impl_fails(m):
            msgs, text, hist, calls = m
            ps = [x["period"] for x in msgs]
            exp = ideal(ps, [(T, c["E"]) for (T, _), c in zip(hist, calls)])
            got = [c["S"] for c in calls]
            return exp != got, exp, got

        mism = []
        if broken is None:
            try:
                for i in common.run_cases("C19Periods", pcases)[:3]:
                    chk.violation({"kind": "periods-of-the-device-are-not-those-of-its-bindings", "schema": pmeta[i],
                                   "correspondence": "Corr.C19Periods.check_case"}, no_failing_input=True)
                mism = common.run_cases("C19", cases)
            except common.CoqError as e:
                broken = f"correspondence could not be evaluated: {e}"
        reported = False
        for i in mism[:5]:
            bad, exp, got = impl_fails(meta[i])
            msgs, text, hist, calls = meta[i]
            rep = {"kind": "scheduler history", "schema": text, "msgs": msgs, "history_true_times": [T for T, _ in hist],
                   "seeds": [s for _, s in hist], "observed_sends": got, "ideal_sends": exp,
                   "model": "Sched.sched_run", "correspondence": "Corr.C19.check_case"}
            chk.violation(rep, no_failing_input=not bad)
            reported = True
        if broken is not None and not reported:
            # a proof obligation broke: search the implementation directly
            found = False
            for m in meta:
                bad, exp, got = impl_fails(m)
                if bad:
                    chk.violation({"kind": "scheduler history", "schema": m[1], "msgs": m[0], "history_true_times": [T for T, _ in m[2]],
                                   "seeds": [s for _, s in m[2]], "observed_sends": got, "ideal_sends": exp, "broken": broken})
                    found = True
                    break
            if not found:
                chk.violation({"kind": "proof-obligation", "broken": broken, "theorem": "Props/C19.v"}, no_failing_input=True)
        chk.assumptions += [
            "harness/c2coq.py (clang's AST of the generated scheduler -> Gallina, C integer semantics made explicit from clang's types) is trusted; per generated device Coq checks by conversion that the translation is the statement sequence proved equal to the model (shape_is_model)",
            "gcc -O1 -fno-strict-aliasing and the C abstract machine (uint32_t wrap, int->unsigned conversion) as modelled in Sched.v",
            "can_encode_msg_i is observed (E lines), not modelled here; the model checks that the frame sent is the one of the current device value",
            "histories satisfy the gap hypothesis of sched_refines_ideal (gaps < 2^32 - max period)",
        ]
    finally:
        shutil.rmtree(workroot, ignore_errors=True)


def replay(chk, rep):
    print(rep)
    if rep.get("kind") != "scheduler history":
        return 1
    wd = common.scratch_dir("verif_c19r_")
    try:
        import re
        text = rep["schema"]
        msgs = rep.get("msgs") or []
        for m in ([] if msgs else re.finditer(r"impl can for (\w+) \{\s*id: (\d+),\s*device: \"ecu\",\s*period: (-?\d+)", text)):
            msgs.append({"name": m.group(1), "id": int(m.group(2)), "period": int(m.group(3))})
        exe, err = build_device(text, msgs, wd)
        if exe is None:
            print("build failed", err)
            return 1
        hist = list(zip(rep["history_true_times"], rep["seeds"]))
        calls = run_history(exe, msgs, hist)
        ps = [m["period"] for m in msgs]
        exp = ideal(ps, [(T, c["E"]) for (T, _), c in zip(hist, calls)])
        got = [c["S"] for c in calls]
        print("implementation:", got)
        print("ideal        :", exp)
        print("model        :", common.eval_terms("C19", ["run_case " + case_term(ps, hist, calls)]))
        return 0 if exp == got else 1
    finally:
        shutil.rmtree(wd, ignore_errors=True)
