"""C07 — parsing is the inverse of printing: the tree is a faithful image of the source."""
import json

import common
from common import cstr, clist, cpair
import front_run
import printer
import to_coq


def expected_tree(items):
    """What the description says the tree must contain (search side; independent of the Coq model)."""
    structs, enums, impls, services, devices = [], [], [], [], []
    for it in items:
        if it[0] == "struct":
            structs.append((it[1], [(f["name"], f["id"]) for f in it[2]]))
            impls.append((it[1], "default", it[1]))
        elif it[0] == "enum":
            enums.append((it[1], [(n, v) for n, v in it[2]]))
        elif it[0] == "impl":
            impls.append((it[3] if it[3] is not None else it[2], it[1], it[2]))
        elif it[0] == "service":
            services.append((it[1], it[2], [(m[0], m[2], m[1], m[3]) for m in it[3]]))
        elif it[0] == "device":
            devices.append(it[1])
    return structs, enums, impls, services, devices


def ty_dict(t):
    k = t[0]
    if k == "u":
        return {"name": f"u{t[1]}", "type": "unsigned"}
    if k == "i":
        return {"name": f"i{t[1]}", "type": "signed"}
    if k == "f32":
        return {"name": "f32", "type": "float"}
    if k == "f64":
        return {"name": "f64", "type": "double"}
    if k == "str":
        return {"type": "str"}
    if k == "enum":
        return {"name": t[1], "type": "Enum"}
    if k == "struct":
        return {"name": t[1], "type": "Struct"}
    if k == "arr":
        return {"underlying_type": ty_dict(t[1]), "size": t[2], "type": "Array"}
    if k == "dyn":
        return {"underlying_type": ty_dict(t[1]), "type": "DynamicArray"}
    if k == "opt":
        return {"underlying_type": ty_dict(t[1]), "type": "Optional"}
    raise ValueError(t)


def val_py(v):
    if isinstance(v, int):
        return v
    if v[0] == "float":
        return float(v[1])
    if v[0] in ("str", "ident"):
        return v[1]
    return [val_py(x) for x in v[1]]


def expected_dict(items):
    """FcpV2.to_dict() of the tree the description denotes, written from the description alone (search side; independent of the
    Coq model): everything the property lists, in source order, plus one default binding per struct."""
    d = {"structs": [], "enums": [], "impls": [], "services": [], "devices": [], "version": "3.0"}
    for it in items:
        if it[0] == "struct":
            fields = []
            for f in it[2]:
                fd = {"name": f["name"], "field_id": f["id"], "type": ty_dict(f["type"])}
                for pn, pargs in f.get("params", []):
                    if pn == "unit":
                        fd["unit"] = val_py(pargs[0])
                    elif pn == "range":
                        fd["min_value"], fd["max_value"] = val_py(pargs[0]), val_py(pargs[1])
                fields.append(fd)
            d["structs"].append({"name": it[1], "fields": fields})
            d["impls"].append({"name": it[1], "protocol": "default", "type": it[1], "fields": {}, "signals": []})
        elif it[0] == "enum":
            d["enums"].append({"name": it[1], "enumeration": [{"name": n, "value": v} for n, v in it[2]]})
        elif it[0] == "impl":
            _, proto, ty, name, _as, body = it
            d["impls"].append({"name": name if name is not None else ty, "protocol": proto, "type": ty,
                               "fields": {b[1]: val_py(b[2]) for b in body if b[0] == "ext"},
                               "signals": [{"name": b[1], "fields": {k: val_py(v) for k, v in b[2]}} for b in body if b[0] == "sig"]})
        elif it[0] == "service":
            d["services"].append({"name": it[1], "id": it[2], "methods": [{"name": m[0], "id": m[2], "input": m[1], "output": m[3]} for m in it[3]]})
        elif it[0] == "device":
            d["devices"].append({"name": it[1], "fields": {k: val_py(v) for k, v in it[2]}})
    return d


def first_difference(a, b, path="tree"):
    if type(a) is not type(b):
        return f"{path}: {a!r} vs {b!r}"
    if isinstance(a, dict):
        for k in sorted(set(a) | set(b)):
            if k not in a or k not in b:
                return f"{path}.{k}: present on one side only ({a.get(k)!r} vs {b.get(k)!r})"
            r = first_difference(a[k], b[k], f"{path}.{k}")
            if r:
                return r
        return None
    if isinstance(a, list):
        if len(a) != len(b):
            return f"{path}: {len(a)} vs {len(b)} entries"
        for i, (x, y) in enumerate(zip(a, b)):
            r = first_difference(x, y, f"{path}[{i}]")
            if r:
                return r
        return None
    return None if a == b else f"{path}: {a!r} vs {b!r}"


def strings_for_identifier_values(items):
    """The same description with identifier-valued extension/parameter values spelled as strings: the tree cannot tell `rpm` from
    "rpm" (the transformer returns str for both), so the model's items hold a string and its printer prints one."""
    def conv(v):
        if isinstance(v, int):
            return v
        if v[0] == "ident":
            return ("str", v[1])
        if v[0] == "arr":
            return ("arr", [conv(x) for x in v[1]])
        return v
    out = []
    for it in items:
        if it[0] == "struct":
            out.append(("struct", it[1], [dict(f, params=[(pn, [conv(a) for a in pa]) for pn, pa in f.get("params", [])]) for f in it[2]]))
        elif it[0] == "enum":
            out.append(("enum", it[1], [(n, conv(v)) for n, v in it[2]]))
        elif it[0] == "impl":
            out.append(it[:5] + ([("ext", b[1], conv(b[2])) if b[0] == "ext" else ("sig", b[1], [(k, conv(v)) for k, v in b[2]]) for b in it[5]],))
        elif it[0] == "device":
            out.append(("device", it[1], [(k, conv(v)) for k, v in it[2]]))
        else:
            out.append(it)
    return out


def tree_summary(fcp):
    return ([(s.name, [(f.name, f.field_id) for f in s.fields]) for s in fcp.structs],
            [(e.name, [(x.name, x.value) for x in e.enumeration]) for e in fcp.enums],
            [(i.name, i.protocol, i.type) for i in fcp.impls],
            [(s.name, s.id, [(m.name, m.id, m.input, m.output) for m in s.methods]) for s in fcp.services],
            [d.name for d in fcp.devices])


def run(chk):
    quick = chk.tier == "quick"
    n, nfmt = (220, 2) if quick else (1500, 4)
    broken = chk.proof_obligations(["Corr/Front.vo", "Corr/FrontPrint.vo"])
    chk.coverage["rule"] = (
        "descriptions using every production (structs with nested types to depth 3, several parameters per field, enums with negative values, "
        "impls with/without 'as' and rename, extension values of every form incl. nested arrays, signal blocks, services, devices) printed to "
        "tokens, with the optional separators chosen at random, and rendered under the canonical and under random formattings (spaces, tabs, "
        "newlines, // and /* */ comments between any two tokens); get_fcp_from_string's tree is compared in Coq with the model front end; "
        "the same for declarations spread over a main file and modules (implementation side: tree of the files = tree of the inlined text); non-trivial = >= 3 items; distinct = rendered text")
    oracle = printer.float_oracle(None)
    cases, meta, fails, pcases, pmeta = [], [], [], [], []
    # known finding builtin-prefix: replay its class first
    for nm in ("strategy", "i2c", "u8x", "f32bit"):
        src = f'version: "3"\nstruct {nm} {{ a @0: u8, }}\nstruct S {{ s @0: {nm}, }}'
        out = front_run.run_front({"main.fcp": src})
        if out[0] == "ok" and [f.type.name for f in out[1].get_struct("S").unwrap().fields] == [nm]:
            continue                                   # repaired
        if out[0] == "err" and "Invalid declaration" in out[1] and chk.find_known("builtin-prefix"):
            chk.known_finding("builtin-prefix", "a struct/enum whose name starts with str, f32, f64, u<d> or i<d> cannot be used as a field type (the built-in prefix is lexed first)")
        else:
            fails.append({"kind": "type-name-with-builtin-prefix", "source": src, "outcome": out[0], "detail": str(out[1])[:300]})
    history = []          # every text parsed so far in this process, in order (a failure may depend on what was parsed before)
    for _ in range(n):
        items = printer.gen_items(chk.rng)
        canon_toks = printer.tokens(items)
        variants = [(canon_toks, [printer.render(canon_toks), printer.render(canon_toks, chk.rng)])]
        for _ in range(nfmt):
            vt = printer.tokens(items, chk.rng)
            variants.append((vt, [printer.render(vt, chk.rng)]))
        texts = [t for _, ts in variants for t in ts]
        # printer side of the tie (Corr/FrontPrint.v): the description as model items, the model printer's tokens, every variant
        model_canon = printer.tokens(strings_for_identifier_values(items))
        pcases.append(cpair(cstr("3"), clist(to_coq.pitem(it) for it in items), clist(to_coq.ptoken(t) for t in model_canon),
                            clist(cpair(clist(to_coq.ptoken(t) for t in vt), clist(cstr(x) for x in ts)) for vt, ts in variants)))
        pmeta.append(texts[0])
        want = expected_tree(items)
        want_dict = expected_dict(items)
        trees = []
        for text in texts:
            history.append(text)
            out = front_run.run_front({"main.fcp": text})
            cases.append(front_run.case_term({"main.fcp": text}, "main.fcp", out, oracle)); meta.append(text)
            chk.count(text, nontrivial=len(items) >= 3, sample={"source": text[:600], "outcome": out[0]})
            chk.hist("outcome", out[0])
            if out[0] != "ok":
                fails.append({"kind": "well-formed-text-not-parsed", "source": text, "outcome": out[0], "detail": str(out[1])[:400]})
                continue
            if tree_summary(out[1]) != want:
                fails.append({"kind": "tree-is-not-the-image-of-the-source", "source": text, "want": want, "got": tree_summary(out[1])})
            got = out[1].to_dict()
            trees.append(got)
            diff = first_difference(want_dict, got)
            if diff and tree_summary(out[1]) == want:
                fails.append({"kind": "parsing-is-not-the-inverse-of-printing", "source": text, "first_difference (description vs parsed)": diff,
                              "texts_parsed_before_in_the_same_process (last 3; the replay parses them first)": history[-4:-1]})
        if len(trees) > 1 and any(t != trees[0] for t in trees[1:]):
            fails.append({"kind": "result-depends-on-formatting-or-optional-separators", "sources": texts})
    # the same declarations spread over a main file and modules (also two modules with one file name in different directories): the
    # tree holds exactly what the texts declare, as the single text obtained by inlining every module at its import does
    from props.c20 import build_split
    import shutil
    work = common.scratch_dir("verif_c07_")
    try:
        for k in range(14 if quick else 150):
            items, flat, mods = build_split(chk.rng, chk.rng.randint(1, 3), "", "")
            if not mods:
                continue
            files = {p: printer.render(printer.tokens(its)) for p, its in mods.items()}
            files["main.fcp"] = printer.render(printer.tokens(items))
            o_split = front_run.run_front(files, workdir=f"{work}/s{k}")
            o_single = front_run.run_front({"main.fcp": printer.render(printer.tokens(flat))})
            chk.count(json.dumps(files, sort_keys=True), nontrivial=True, sample={"files": {p: t[:120] for p, t in files.items()}, "outcome": o_split[0]})
            chk.hist("multi_file", o_split[0])
            if o_split[0] != "ok" or o_single[0] != "ok":
                fails.append({"kind": "well-formed-multi-file-schema-rejected", "source": json.dumps(files), "files": files, "split": o_split[0], "single": o_single[0],
                              "detail": str(o_split[1] if o_split[0] != "ok" else o_single[1])[:300]})
            elif o_split[1].to_dict() != o_single[1].to_dict():
                a, b = o_split[1].to_dict(), o_single[1].to_dict()
                fails.append({"kind": "tree-of-multi-file-schema-is-not-what-the-texts-declare", "source": json.dumps(files), "files": files,
                              "differs_in": [key for key in b if a.get(key) != b.get(key)]})
    finally:
        shutil.rmtree(work, ignore_errors=True)
    chk.log(f"{len(cases)} sources; implementation-side failures: {len(fails)}")
    chk.coverage["traces_validated_against_impl"] = len(cases)
    mism, dom = [], []
    if broken is None:
        try:
            mism, dom = front_run.judge_cases(cases)
        except common.CoqError as e:
            broken = f"correspondence could not be evaluated: {e}"
    chk.coverage["model_out_of_domain"] = len(dom)
    pm = []
    if broken is None:
        try:
            pm = common.run_cases("FrontPrint", pcases, shard=40)
        except common.CoqError as e:
            broken = f"printer correspondence could not be evaluated: {e}"
    chk.coverage["printer_cases"] = len(pcases)
    for i in pm[:3]:
        fails.append({"kind": "model-printer-vs-harness-printer", "correspondence": "Corr.FrontPrint.check_case (well-formedness, print_tokens = the harness' canonical tokens, parse_tokens of every variant, lex of every text)",
                      "source": pmeta[i], "no_failing_input": True})
    if len(dom) * 4 > len(cases):
        broken = broken or f"the model answered out-of-domain on {len(dom)} of {len(cases)} cases: the correspondence says too little"
    finish(chk, fails, mism, meta, broken, "Props/C07.v")
    chk.assumptions += ["Lark's Earley engine and dynamic lexer are not modelled: the theorems are about the model parser on the printed language, agreement with Lark is what this correspondence samples",
                        "float(lexeme) is supplied per lexeme by the harness (oracle table); integers are converted by the model",
                        "type names do not start with a built-in type prefix (str, f32, f64, u<d>, i<d>): known finding builtin-prefix"]


def finish(chk, fails, mism, meta, broken, props):
    fails.sort(key=lambda f: len(json.dumps(f, default=repr)))
    for f in fails[:3]:
        f = dict(f)
        chk.violation(f, no_failing_input=bool(f.pop("no_failing_input", False)))
    if not fails:
        for i in mism[:3]:
            chk.violation({"kind": "model-vs-implementation", "correspondence": "Corr.Front.check_case (models Front.Lexer/Parser/Elab)",
                           "source": meta[i]}, no_failing_input=True)
        if not mism and broken is not None:
            chk.violation({"kind": "proof-obligation", "broken": broken, "theorem": props}, no_failing_input=True)


def replay(chk, rep):
    print(json.dumps(rep, indent=1, default=repr)[:3000])
    src = rep.get("source")
    for earlier in rep.get("texts_parsed_before_in_the_same_process (last 3; the replay parses them first)") or []:
        front_run.run_front({"main.fcp": earlier})
    if src:
        out = front_run.run_front({"main.fcp": src})
        print(out[0], out[1] if out[0] != "ok" else out[1].to_dict())
        print(common.eval_terms("Front", ["run_case " + front_run.case_term({"main.fcp": src}, "main.fcp", out, printer.float_oracle(None))]))
    return 1
