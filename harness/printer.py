"""Front-profile descriptions, their token-level printer and formatting variants (DESIGN §5 C07).

A description here is a list of top-level items (source order matters):
  ("struct", name, [field]) field = {"name","id","type","params":[(name,[value])]}
  ("enum", name, [(name, value)])
  ("impl", protocol, type, name|None, as_kw:bool, [("ext", k, v) | ("sig", name, [(k, v)])])
  ("service", name, id, [(mname, input, id, output)])
  ("device", name, [(k, v)])
  ("mod", [parts])
values: int | ("float", lexeme) | ("str", s) | ("ident", s) | ("arr", [values])
"""
import re
import struct

FLOAT_LEX = ["1.5", "-0.25", "1e3", "2.5E-2", ".5", "5.", "+3.0", "0.0", "100.125", "-1e-3"]


def fbits(lexeme):
    return struct.unpack("<Q", struct.pack("<d", float(lexeme)))[0]


def ty_tokens(t):
    k = t[0]
    if k in ("u", "i"):
        return [f"{k}{t[1]}"]
    if k in ("f32", "f64", "str"):
        return [k]
    if k in ("enum", "struct", "ref"):
        return [t[1]]
    if k == "arr":
        return ["["] + ty_tokens(t[1]) + [",", str(t[2]), "]"]
    if k == "dyn":
        return ["["] + ty_tokens(t[1]) + ["]"]
    if k == "opt":
        return ["Optional", "["] + ty_tokens(t[1]) + ["]"]
    raise ValueError(t)


def val_tokens(v):
    if isinstance(v, bool):
        raise ValueError(v)
    if isinstance(v, int):
        return [str(v)]
    if v[0] == "float":
        return [v[1]]
    if v[0] == "str":
        return ['"' + v[1] + '"']
    if v[0] == "ident":
        return [v[1]]
    if v[0] == "arr":
        out = ["["]
        for i, x in enumerate(v[1]):
            if i:
                out.append(",")
            out += val_tokens(x)
        return out + ["]"]
    raise ValueError(v)


def item_tokens(it, rng=None):
    """rng chooses among the optional separators; None = canonical choices."""
    def coin():
        return rng is not None and rng.random() < 0.5
    k = it[0]
    if k == "struct":
        out = ["struct", it[1], "{"]
        for f in it[2]:
            out += [f["name"], "@", str(f["id"]), ":"] + ty_tokens(f["type"])
            for j, (pn, pargs) in enumerate(f.get("params", [])):
                if j > 0 or not coin():
                    out.append("|")
                out += [pn, "("]
                for a, arg in enumerate(pargs):
                    out += val_tokens(arg)
                    if a < len(pargs) - 1:
                        if not coin():
                            out.append(",")
                    elif coin():
                        out.append(",")
                out.append(")")
            out.append(",")
        return out + ["}"]
    if k == "enum":
        out = ["enum", it[1], "{"]
        for n, v in it[2]:
            out += [n, "="] + val_tokens(v) + [","]
        return out + ["}"]
    if k == "impl":
        _, proto, ty, name, as_kw, body = it
        out = ["impl", proto, "for", ty]
        if as_kw:
            out.append("as")
        if name is not None:
            out.append(name)
        out.append("{")
        for b in body:
            if b[0] == "ext":
                out += [b[1], ":"] + val_tokens(b[2]) + [","]
            else:
                out += ["signal", b[1], "{"]
                for kk, vv in b[2]:
                    out += [kk, ":"] + val_tokens(vv) + [","]
                out += ["}", ","]
        return out + ["}"]
    if k == "service":
        out = ["service", it[1], "@", str(it[2]), "{"]
        for mn, inp, mid, outp in it[3]:
            out += ["method", mn, "(", inp, ")", "@", str(mid), "returns", outp, ","]
        return out + ["}"]
    if k == "device":
        out = ["device", it[1], "{"]
        for kk, vv in it[2]:
            out += [kk, ":"] + val_tokens(vv) + [","]
        return out + ["}"]
    if k == "mod":
        out = ["mod"]
        for i, p in enumerate(it[1]):
            if i:
                out.append(".")
            out.append(p)
        return out + [";"]
    raise ValueError(it)


def tokens(items, rng=None, version="3"):
    out = ["version", ":", '"' + version + '"']
    for it in items:
        out += item_tokens(it, rng)
    return out


WORD = re.compile(r"^[A-Za-z0-9_+\-.]")
WORD_END = re.compile(r"[A-Za-z0-9_.]$")
COMMENTS = [" /* c */ ", " // note\n", "\n/* multi\n line */\n", " //\n"]


def render(toks, rng=None):
    """Join tokens; rng = arbitrary whitespace/comments wherever a separator is legal."""
    out = []
    for i, t in enumerate(toks):
        if i:
            prev = toks[i - 1]
            need = bool(WORD_END.search(prev)) and bool(WORD.match(t))
            if rng is None:
                sep = " " if need or t not in (",", ";", ")", "]", ":") else ""
                if prev in ("{", ",", ";", "}") and t != ",":
                    sep = "\n"
            else:
                r = rng.random()
                if r < 0.45:
                    sep = " "
                elif r < 0.6:
                    sep = "\n"
                elif r < 0.7:
                    sep = "\t "
                elif r < 0.8:
                    sep = rng.choice(COMMENTS)
                elif r < 0.9:
                    sep = "  \n\n  "
                else:
                    sep = " " if need else ""
            out.append(sep)
        out.append(t)
    if rng is not None and rng.random() < 0.3:
        out.append(rng.choice(["\n", " // trailing", "\n/* end */\n"]))
    return "".join(out)


# ---------------------------------------------------------------------------
# generation

# string bodies as written between the delimiting quotes (escapes stay raw in the tree): plain ones, and ones that begin or end with an
# escaped quote or a backslash pair, where stripping instead of slicing the delimiters would eat into the body
STRINGS = ["ecu", "big", "a b", "x/y", "", "V", "deg C", "it's", '5\\"', '\\"x', '\\"', 'say \\"hi\\"', "a\\\\", "\\n", "// no comment", "/* nor this */"]


def gen_value(rng, depth=2):
    r = rng.random()
    if r < 0.3:
        return rng.choice([0, 1, -1, 10, 2047, -32768, 123456789012])
    if r < 0.45:
        return ("float", rng.choice(FLOAT_LEX))
    if r < 0.65:
        return ("str", rng.choice(STRINGS))
    if r < 0.8:
        return ("ident", rng.choice(["ecu", "little", "Sv0", "x1", "_p"]))
    if depth > 0:
        return ("arr", [gen_value(rng, depth - 1) for _ in range(rng.randint(1, 3))])
    return 7


def gen_type(rng, structs, enums, depth):
    r = rng.random()
    if depth > 0 and r < 0.35:
        k = rng.choice(["arr", "dyn", "opt"])
        inner = gen_type(rng, structs, enums, depth - 1)
        return ("arr", inner, rng.randint(1, 4)) if k == "arr" else (k, inner)
    r = rng.random()
    if r < 0.3:
        return ("u", rng.randint(1, 64))
    if r < 0.5:
        return ("i", rng.randint(1, 64))
    if r < 0.6:
        return rng.choice([("f32",), ("f64",), ("str",)])
    if r < 0.8 and structs:
        return ("struct", rng.choice(structs))
    if enums:
        return ("enum", rng.choice(enums))
    return ("u", 8)


def gen_items(rng, prefix="", allow_services=True):
    """A well-formed item list; names carry [prefix] so that modules do not clash."""
    items, structs, enums = [], [], []
    n = rng.randint(2, 6)
    # in a third of the descriptions structs and enums draw their names from one pool (N0, N1, ...): over a run the same name is a
    # struct in one text and an enum in another, which is what state surviving from one parse to the next would trip over
    pooled = rng.random() < 0.33
    for i in range(n):
        r = rng.random()
        if r < 0.25:
            name = f"{prefix}N{len(enums) + len(structs)}" if pooled else f"{prefix}E{len(enums)}"
            vals = [(f"V{j}", v) for j, v in enumerate(rng.sample(range(-5, 300), rng.randint(1, 4)))]
            items.append(("enum", name, vals)); enums.append(name)
        else:
            name = f"{prefix}N{len(enums) + len(structs)}" if pooled else f"{prefix}S{len(structs)}"
            fields = []
            ids = rng.sample(range(0, 30), rng.randint(1, 4))
            for j, fid in enumerate(ids):
                params = []
                if rng.random() < 0.3:
                    params.append(("unit", [rng.choice([("str", "V"), ("str", "m/s"), ("ident", "rpm"), ("str", rng.choice(STRINGS))])]))
                if rng.random() < 0.3:
                    params.append(("range", [("float", rng.choice(FLOAT_LEX)), ("float", rng.choice(FLOAT_LEX))]))
                if rng.random() < 0.1:
                    params.append(("unit", [("str", "A")]))      # repeated parameter: last wins
                rng.shuffle(params)
                fields.append({"name": rng.choice(["a", "b", "val", "struct", "signal", "unit", "version"]) + str(j), "id": fid,
                               "type": gen_type(rng, structs, enums, 3), "params": params})
            items.append(("struct", name, fields)); structs.append(name)
            if rng.random() < 0.6:
                body = [("ext", "id", rng.randrange(2048))]
                if rng.random() < 0.5:
                    body.append(("ext", rng.choice(["device", "bus", "period", "tags"]), gen_value(rng)))
                for _ in range(rng.randint(0, 2)):
                    body.append(("sig", rng.choice([f["name"] for f in fields]),
                                 [(rng.choice(["endianess", "mux_count", "scale", "mux_signal"]) + ("" if q == 0 else str(q)), gen_value(rng)) for q in range(rng.randint(1, 3))]))
                rng.shuffle(body)
                nm, as_kw = rng.choice([(None, False), (None, True), (name + "Alt", True), (name + "Alt", False)])
                items.append(("impl", rng.choice(["can", "can", "uart"]), name, nm, as_kw, body))
    if allow_services and structs and rng.random() < 0.5:
        ms = [(f"m{j}", rng.choice(structs), j, rng.choice(structs)) for j in range(rng.randint(1, 3))]
        items.append(("service", f"{prefix}Sv", rng.randint(0, 9), ms))
    if allow_services and rng.random() < 0.4:
        items.append(("device", f"{prefix}dev", [("id", 1), ("services", ("arr", [("ident", f"{prefix}Sv")]))] if rng.random() < 0.5 else [("x", gen_value(rng))]))
    return items


def float_oracle(texts):
    """lexeme -> IEEE bits of float(lexeme), for every float lexeme the printer can have emitted."""
    return {lx: fbits(lx) for lx in FLOAT_LEX}
