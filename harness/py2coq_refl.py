"""Translator for the reflection() methods of src/fcp/specs/*.py -> Gallina (coq/gen/PyRefl.v).  Fail-closed.

Every reflection() method returns a dict literal (for the Type classes: a one-element list of a dict literal, plus the underlying type's
list for the containers).  A dict is what the codec later reads BY KEY in the order of the reflection schema: `py_dict "<Struct>" [...]`
(Reflect/ReflLib.v) orders the literal's entries by the field ids of that struct of the built-in reflection schema.

Value expressions: self.<attribute> (typed by the table below), integer / string literals, lists of integer literals,
`self.meta.reflection() if self.meta else None`, `[x.reflection() for x in self.<list>]`,
`[{"name": k, "value": str(v)} for k, v in self.fields.items()]`, `encode_version(self.version)`, `self.type.reflection()`,
`self.underlying_type.reflection()`.  In the container Type classes `self.type` is the constant their __init__ assigns.
"""
import ast
import os

from py2coq import Untranslatable
from py2coq_driver import strip_doc, find_class, find_def, cstr

# class -> (file, reflection-schema struct, Gallina parameter(s), attribute table: attr -> (term, kind))
# kinds: str int ostr obits ometa  list:<class>  items (list (string * string))  version  typechain
CLASSES = {
    "MetaData": ("metadata.py", "MetaData", "(self : rmeta)",
                 {"line": ("m_line self", "int"), "end_line": ("m_end_line self", "int"), "column": ("m_col self", "int"),
                  "end_column": ("m_end_col self", "int"), "start_pos": ("m_start self", "int"), "end_pos": ("m_end self", "int"),
                  "filename": ("m_file self", "str")}),
    "StructField": ("struct_field.py", "StructField", "(self : rfield)",
                    {"name": ("rf_name self", "str"), "field_id": ("rf_id self", "int"), "type": ("rf_type self", "typechain"),
                     "unit": ("rf_unit self", "ostr"), "min_value": ("rf_min self", "obits"), "max_value": ("rf_max self", "obits"),
                     "meta": ("rf_meta self", "ometa")}),
    "Struct": ("struct.py", "Struct", "(self : rstruct)",
               {"name": ("rs_name self", "str"), "fields": ("rs_fields self", "list:StructField"), "meta": ("rs_meta self", "ometa")}),
    "Enumeration": ("enum.py", "Enumeration", "(self : renumeration)",
                    {"name": ("re_name self", "str"), "value": ("re_value self", "int"), "meta": ("re_meta self", "ometa")}),
    "Enum": ("enum.py", "Enum", "(self : renum)",
             {"name": ("rn_name self", "str"), "enumeration": ("rn_vals self", "list:Enumeration"), "meta": ("rn_meta self", "ometa")}),
    "SignalBlock": ("signal_block.py", "SignalBlock", "(self : rsignal)",
                    {"name": ("rg_name self", "str"), "fields": ("rg_fields self", "items"), "meta": ("rg_meta self", "ometa")}),
    "Impl": ("impl.py", "Impl", "(self : rimpl)",
             {"name": ("ri_name self", "str"), "protocol": ("ri_protocol self", "str"), "type": ("ri_type self", "str"),
              "fields": ("ri_fields self", "items"), "signals": ("ri_signals self", "list:SignalBlock"), "meta": ("ri_meta self", "ometa")}),
    "Method": ("method.py", "Method", "(self : rmethod)",
               {"name": ("rm_name self", "str"), "id": ("rm_id self", "int"), "input": ("rm_input self", "str"), "output": ("rm_output self", "str"),
                "meta": ("rm_meta self", "ometa")}),
    "Service": ("service.py", "Service", "(self : rservice)",
                {"name": ("rv_name self", "str"), "id": ("rv_id self", "int"), "methods": ("rv_methods self", "list:Method"), "meta": ("rv_meta self", "ometa")}),
    "FcpV2": ("v2.py", "Fcp", "(self : rtree)",
              {"version": ("r_version self", "version"), "structs": ("r_structs self", "list:Struct"), "enums": ("r_enums self", "list:Enum"),
               "impls": ("r_impls self", "list:Impl"), "services": ("r_services self", "list:Service")}),
}
ORDER = ["MetaData", "StructField", "Struct", "Enumeration", "Enum", "SignalBlock", "Impl", "Method", "Service", "FcpV2"]
# the Type classes: (parameters, attributes, does it append the underlying type's chain)
TYPES = {
    "NumericType": ("(name type_ : string)", {"name": ("name", "str"), "type": ("type_", "str")}, False),
    "StringType": ("", {}, False),
    "EnumType": ("(name : string)", {"name": ("name", "str")}, False),
    "StructType": ("(name : string)", {"name": ("name", "str")}, False),
    "ArrayType": ("(size : Z) (underlying : list value)", {"size": ("size", "int")}, True),
    "DynamicArrayType": ("(underlying : list value)", {}, True),
    "OptionalType": ("(underlying : list value)", {}, True),
}


def value(e, attrs, consts):
    """Gallina term of type `value` for a dict entry."""
    if isinstance(e, ast.Constant) and isinstance(e.value, bool):
        raise Untranslatable("bool literal")
    if isinstance(e, ast.Constant) and isinstance(e.value, int):
        return f"VInt ({e.value})%Z"
    if isinstance(e, ast.Constant) and isinstance(e.value, str):
        return f"vstr {cstr(e.value)}"
    if isinstance(e, ast.List) and all(isinstance(x, ast.Constant) and isinstance(x.value, int) and not isinstance(x.value, bool) for x in e.elts):
        return "VList [" + "; ".join(f"VInt ({x.value})%Z" for x in e.elts) + "]"
    if isinstance(e, ast.Attribute) and isinstance(e.value, ast.Name) and e.value.id == "self":
        if e.attr in consts:
            return f"vstr {cstr(consts[e.attr])}"
        if e.attr in attrs:
            t, k = attrs[e.attr]
            if k == "str":
                return f"vstr ({t})"
            if k == "int":
                return f"VInt ({t})"
            if k == "ostr":
                return f"vopt vstr ({t})"
            if k == "obits":
                return f"vopt VBits ({t})"
    src = ast.unparse(e)
    if src == "self.meta.reflection() if self.meta else None" and attrs.get("meta", (None, None))[1] == "ometa":
        return f"vopt py_MetaData_reflection ({attrs['meta'][0]})"
    if src == "self.type.reflection()" and attrs.get("type", (None, None))[1] == "typechain":
        return f"VList (py_type_reflection ({attrs['type'][0]}))"
    if src == "encode_version(self.version)" and attrs.get("version", (None, None))[1] == "version":
        return f"VInt ({attrs['version'][0]})"
    if isinstance(e, ast.ListComp) and len(e.generators) == 1 and not e.generators[0].ifs:
        g = e.generators[0]
        it = g.iter
        if isinstance(g.target, ast.Name) and isinstance(it, ast.Attribute) and ast.unparse(it.value) == "self" and attrs.get(it.attr, (None, ""))[1].startswith("list:") \
                and ast.unparse(e.elt) == f"{g.target.id}.reflection()":
            return f"VList (map py_{attrs[it.attr][1][5:]}_reflection ({attrs[it.attr][0]}))"
        if isinstance(g.target, ast.Tuple) and len(g.target.elts) == 2 and isinstance(it, ast.Call) and isinstance(it.func, ast.Attribute) and it.func.attr == "items" \
                and not it.args and isinstance(it.func.value, ast.Attribute) and ast.unparse(it.func.value.value) == "self" \
                and attrs.get(it.func.value.attr, (None, None))[1] == "items":
            k, v = (x.id for x in g.target.elts)
            if isinstance(e.elt, ast.Dict) and [ast.unparse(x) for x in e.elt.keys] == ["'name'", "'value'"] \
                    and [ast.unparse(x) for x in e.elt.values] == [k, f"str({v})"]:
                # the tree keeps the option values already rendered by str(): (key, str(value))
                return (f"VList (map (fun kv => py_dict \"DictField\" [(\"name\"%string, vstr (fst kv)); (\"value\"%string, vstr (snd kv))]) "
                        f"({attrs[it.func.value.attr][0]}))")
    raise Untranslatable(f"value expression {src}")


def dict_literal(d, struct, attrs, consts):
    if not (isinstance(d, ast.Dict) and all(isinstance(k, ast.Constant) and isinstance(k.value, str) for k in d.keys)):
        raise Untranslatable(f"dict literal {ast.unparse(d)}")
    ents = "; ".join(f"({cstr(k.value)}, {value(v, attrs, consts)})" for k, v in zip(d.keys, d.values))
    return f"py_dict \"{struct}\" [{ents}]"


def the_return(fn):
    body = strip_doc(fn.body)
    if len(body) != 1 or not isinstance(body[0], ast.Return) or fn.decorator_list or [a.arg for a in fn.args.args] != ["self"]:
        raise Untranslatable(f"{fn.name}: not a single return")
    return body[0].value


def translate_repo(repo):
    rd = lambda f: ast.parse(open(os.path.join(repo, "src", "fcp", "specs", f)).read())
    out = ["(* GENERATED by harness/py2coq_refl.py from the reflection() methods of src/fcp/specs/*.py on every run; do not edit. *)",
           "From Coq Require Import String ZArith List Bool.",
           "From FcpV Require Import Schema.Types Reflect.Reflection Reflect.ReflLib.",
           "Import ListNotations.", ""]
    # the Type classes
    tt = rd("type.py")
    for cname, (params, attrs, chained) in TYPES.items():
        cls = find_class(tt, cname)
        consts = {}
        try:
            init = find_def(cls.body, "__init__")
            for st in ast.walk(init):
                if isinstance(st, ast.Assign) and ast.unparse(st.targets[0]) == "self.type" and isinstance(st.value, ast.Constant):
                    consts["type"] = st.value.value
        except Untranslatable:
            pass
        if cname == "NumericType":
            consts = {}
        ret = the_return(find_def(cls.body, "reflection"))
        tail = ""
        if chained:
            if not (isinstance(ret, ast.BinOp) and isinstance(ret.op, ast.Add) and ast.unparse(ret.right) == "self.underlying_type.reflection()"):
                raise Untranslatable(f"{cname}.reflection")
            ret, tail = ret.left, " ++ underlying"
        if not (isinstance(ret, ast.List) and len(ret.elts) == 1):
            raise Untranslatable(f"{cname}.reflection: {ast.unparse(ret)}")
        out.append(f"Definition py_{cname}_reflection {params} : list value :=\n  [{dict_literal(ret.elts[0], 'Type', attrs, consts)}]{tail}.\n")
    # the subclasses of NumericType must not override reflection
    for sub in ("UnsignedType", "SignedType", "FloatType", "DoubleType"):
        cls = find_class(tt, sub)
        if [ast.unparse(b) for b in cls.bases] != ["NumericType"] or any(isinstance(s, ast.FunctionDef) and s.name == "reflection" for s in cls.body):
            raise Untranslatable(f"{sub} overrides reflection")
    out.append("(* self.type.reflection(): the method of the object's class (Reflect/ReflLib.v py_type_reflection dispatches on the tree's type) *)\n")
    trees = {}
    for cname in ORDER:
        f, struct, params, attrs = CLASSES[cname]
        trees.setdefault(f, rd(f))
        ret = the_return(find_def(find_class(trees[f], cname).body, "reflection"))
        out.append(f"Definition py_{cname}_reflection {params} : value :=\n  {dict_literal(ret, struct, attrs, {})}.\n")
    # encode_version is part of what `version` means
    ev = find_def(trees["v2.py"].body, "encode_version")
    if [ast.unparse(s) for s in strip_doc(ev.body)] != ["major, minor = version.split('.')", "return int(major) * 1000 + int(minor)"]:
        raise Untranslatable("encode_version")
    return "\n".join(out)


if __name__ == "__main__":
    import sys
    print(translate_repo(sys.argv[1]))
