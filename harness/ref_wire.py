"""Independent reference codec for the canonical FCP wire format.

Used ONLY to search for failing inputs on the implementation side (and to
build canonical encodings for the decode direction of C02); it never decides
a property: the deciding comparison is made by Coq against Wire.v.
"""
import own_lookup
import struct


def _bits(v, n):
    return [(v >> i) & 1 for i in range(n)]


def enum_width(e):
    m = max([x.value for x in e.enumeration] + [0])
    return 1 if m <= 1 else m.bit_length()


def wire_bits(fcp, t, v):
    from fcp.specs import type as T
    if type(t) in (T.UnsignedType, T.SignedType):
        return _bits(v, int(t.name[1:]))           # the width is read off the name, independently of NumericType.get_length
    if type(t) is T.EnumType:
        return _bits(v, enum_width(next(e for e in fcp.enums if e.name == t.name)))       # own lookup: first enum of that name
    if type(t) is T.FloatType:
        return _bits(struct.unpack("<I", struct.pack("<f", v))[0], 32)
    if type(t) is T.DoubleType:
        return _bits(struct.unpack("<Q", struct.pack("<d", v))[0], 64)
    if type(t) is T.StringType:
        return _bits(len(v), 32) + [b for c in v for b in _bits(ord(c), 8)]
    if type(t) is T.ArrayType:
        return [b for x in v[: t.size] for b in wire_bits(fcp, t.underlying_type, x)]
    if type(t) is T.DynamicArrayType:
        return _bits(len(v), 32) + [b for x in v for b in wire_bits(fcp, t.underlying_type, x)]
    if type(t) is T.OptionalType:
        return _bits(0, 8) if v is None else _bits(1, 8) + wire_bits(fcp, t.underlying_type, v)
    if type(t) is T.StructType:
        s = own_lookup.struct(fcp, t.name)
        out = []
        for f in sorted(s.fields, key=lambda f: f.field_id):
            out += wire_bits(fcp, f.type, v[f.name])
        return out
    raise TypeError(t)


def wire_bytes(fcp, name, v):
    from fcp.specs.type import StructType
    bits = wire_bits(fcp, StructType(name), v)
    bits += [0] * (-len(bits) % 8)
    return bytes(sum(b << i for i, b in enumerate(bits[k:k + 8])) for k in range(0, len(bits), 8))
