import argparse
import importlib
import json
import os
import sys
import traceback

sys.path.insert(0, os.path.dirname(os.path.abspath(__file__)))
import common  # noqa: E402


def setup():
    """MANIFEST.setup_cmd: regenerate the source-derived Coq files and build everything."""
    common.setup_sys_path()
    import regen
    regen.regenerate_all(strict=False)
    ok, log = common.coq_make(None, timeout=7000)
    print(log[-3000:])
    if not ok:
        print("SETUP FAILED")
        return 1
    print("setup ok")
    return 0


def main():
    ap = argparse.ArgumentParser()
    ap.add_argument("prop", nargs="?")
    ap.add_argument("--tier", default=os.environ.get("VERIF_TIER", "quick"), choices=["quick", "thorough"])
    ap.add_argument("--replay")
    ap.add_argument("--setup", action="store_true")
    args = ap.parse_args()
    if args.setup:
        sys.exit(setup())
    prop = args.prop
    seed = int(os.environ.get("VERIF_SEED", "1"))
    common.setup_sys_path()
    mod = importlib.import_module(f"props.{prop.lower()}")
    chk = common.Check(prop, args.tier, seed)
    if args.replay:
        with open(args.replay) as f:
            rep = json.load(f)
        sys.exit(mod.replay(chk, rep))
    chk.clean_replays()
    try:
        mod.run(chk)
    except Exception as e:  # an internal error is a failure of the check, never a pass
        traceback.print_exc()
        chk.violation({"kind": "harness-error", "error": repr(e),
                       "note": "the check itself failed; nothing is shown to hold"}, no_failing_input=True)
    sys.exit(chk.finish())


if __name__ == "__main__":
    main()
