"""Translator for the verifier's check functions -> Gallina (coq/gen/PyChecks.v).

The checks are the nested functions that make_general_verifier() (src/fcp/verifier.py) and the register_checks methods of the
DBC and C plug-ins decorate with @register(verifier, <category>).  Each takes (self, fcp, node) and returns Ok(()) or an error
value.  They are small, purely functional pieces of Python: list comprehensions, list.count, len, tuples, dict.get, loops with an
early `return` or `continue`.  The translation of a check is

    py_<name> (fcp : ftree) (node : <node type>) : pyres bool        true = Ok(()), false = an error value, PRaise = exception

Fail-closed: anything outside the subset raises Untranslatable; the set of checks per file must be exactly the expected one.

Static types: ftree tnode simpl sstruct sfield senum enumr sdevice svc string Z bool oxval ostruct ostrings, list:<T>, pair:<A>,<B>
"""
import ast

from py2coq import Untranslatable

ATTR = {
    ("tnode", "name"): ("tn_name", "string"), ("simpl", "name"): ("iname", "string"), ("simpl", "protocol"): ("iprotocol", "string"),
    ("simpl", "type"): ("itype", "string"), ("sstruct", "fields"): ("sfields", "list:sfield"), ("sstruct", "name"): ("sname", "string"),
    ("sfield", "name"): ("fname", "string"), ("sfield", "type"): ("fty", "sty"), ("senum", "enumeration"): ("evals", "list:enumr"),
    ("enumr", "name"): ("fst", "string"), ("enumr", "value"): ("snd", "Z"), ("svc", "name"): ("svc_name", "string"),
    ("sdevice", "name"): ("dname", "string"), ("ftree", "impls"): ("t_impls", "list:simpl"),
}
EQB = {"string": "String.eqb", "Z": "Z.eqb", "pair:string,string": "pair_string_eqb", "oxval": "oxval_eqb"}
COQ = {"ftree": "ftree", "tnode": "tnode", "simpl": "simpl", "sstruct": "sstruct", "sfield": "sfield", "senum": "senum", "enumr": "(string * Z)",
       "sdevice": "sdevice", "svc": "string", "string": "string", "Z": "Z", "bool": "bool", "oxval": "(option xval)", "ostruct": "(option sstruct)",
       "ostrings": "(option (list string))", "sty": "sty"}
NODE_TYPES = {"type": "tnode", "impl": "simpl", "field": "pair:sstruct,sfield", "struct": "sstruct", "enum": "senum", "device": "sdevice"}


def coq_type(t):
    if t.startswith("list:"):
        return f"(list {coq_type(t[5:])})"
    if t.startswith("pair:"):
        a, b = t[5:].split(",", 1)
        return f"({coq_type(a)} * {coq_type(b)})"
    return COQ[t]


class Check:
    def __init__(self, fn, category):
        self.fn = fn
        args = [a.arg for a in fn.args.args]
        if len(args) != 3 or args[0] != "self":
            raise Untranslatable(f"signature of {fn.name}")
        self.fcp, self.node = args[1], args[2]
        self.node_type = NODE_TYPES[category]
        self.env = {self.fcp: "ftree", self.node: self.node_type}
        self.tmp = 0

    def fresh(self):
        self.tmp += 1
        return f"t{self.tmp}"

    @staticmethod
    def wrap(binds, term):
        for pat, m in reversed(binds):
            term = f"pbind ({m}) (fun {pat} => {term})"
        return term

    # expressions -> (binds, term, type)
    def expr(self, e):
        if isinstance(e, ast.Constant):
            if isinstance(e.value, str):
                if any(ord(c) > 126 or ord(c) < 32 or c == '"' for c in e.value):
                    raise Untranslatable(repr(e.value))
                return [], f'"{e.value}"%string', "string"
            if isinstance(e.value, int) and not isinstance(e.value, bool):
                return [], str(e.value), "Z"
            raise Untranslatable(repr(e.value))
        if isinstance(e, ast.Name):
            if e.id not in self.env:
                raise Untranslatable(f"unknown name {e.id}")
            return [], e.id + "_", self.env[e.id]
        if isinstance(e, ast.Tuple) and len(e.elts) == 2:
            ba, a, ta = self.expr(e.elts[0])
            bb, b, tb = self.expr(e.elts[1])
            return ba + bb, f"({a}, {b})", f"pair:{ta},{tb}"
        if isinstance(e, ast.Attribute):
            b, x, t = self.expr(e.value)
            if (t, e.attr) in ATTR:
                f, rt = ATTR[(t, e.attr)]
                return b, f"({f} {x})", rt
            raise Untranslatable(ast.unparse(e))
        if isinstance(e, ast.ListComp):
            if len(e.generators) != 1 or e.generators[0].is_async or not isinstance(e.generators[0].target, ast.Name) or len(e.generators[0].ifs) > 1:
                raise Untranslatable(ast.unparse(e))
            g = e.generators[0]
            bl, l, tl = self.expr(g.iter)
            if not tl.startswith("list:"):
                raise Untranslatable("comprehension over a " + tl)
            old = self.env.get(g.target.id)
            self.env[g.target.id] = tl[5:]
            v = g.target.id + "_"
            src = l
            if g.ifs:
                bc, c, tc = self.expr(g.ifs[0])
                if bc or tc != "bool":
                    raise Untranslatable(ast.unparse(e))
                src = f"(filter (fun {v} => {c}) {l})"
            be, x, tx = self.expr(e.elt)
            if old is None:
                del self.env[g.target.id]
            else:
                self.env[g.target.id] = old
            if be:
                # the element expression can raise: evaluated left to right, the first exception escapes
                return bl + [(self.fresh_name(), f"map_m (fun {v} => {self.wrap(be, f'POk {x}')}) {src}")], self.last, f"list:{tx}"
            return bl, f"(map (fun {v} => {x}) {src})", f"list:{tx}"
        if isinstance(e, ast.Compare) and len(e.ops) == 1:
            op, rhs = e.ops[0], e.comparators[0]
            if isinstance(op, (ast.Is, ast.IsNot)) and isinstance(rhs, ast.Constant) and rhs.value is None:
                b, x, t = self.expr(e.left)
                if t not in ("oxval", "ostrings"):
                    raise Untranslatable(ast.unparse(e))
                term = f"(is_none {x})"
                return b, (term if isinstance(op, ast.Is) else f"(negb {term})"), "bool"
            if isinstance(op, (ast.In, ast.NotIn)):
                bx, x, tx = self.expr(e.left)
                bl, l, tl = self.expr(rhs)
                if tl != f"list:{tx}" or tx not in EQB:
                    raise Untranslatable(ast.unparse(e))
                term = f"(existsb ({EQB[tx]} {x}) {l})"
                return bx + bl, (term if isinstance(op, ast.In) else f"(negb {term})"), "bool"
            bl, l, tl = self.expr(e.left)
            br, r, tr = self.expr(rhs)
            if tl == tr == "Z":
                forms = {ast.Gt: f"(Z.ltb {r} {l})", ast.Eq: f"(Z.eqb {l} {r})", ast.Lt: f"(Z.ltb {l} {r})", ast.GtE: f"(Z.leb {r} {l})", ast.LtE: f"(Z.leb {l} {r})"}
                if type(op) in forms:
                    return bl + br, forms[type(op)], "bool"
            if tl == tr == "string" and isinstance(op, ast.Eq):
                return bl + br, f"(String.eqb {l} {r})", "bool"
            raise Untranslatable(ast.unparse(e))
        if isinstance(e, ast.BoolOp) and isinstance(e.op, ast.And) and len(e.values) == 2:
            bl, l, tl = self.expr(e.values[0])
            br, r, tr = self.expr(e.values[1])
            if tl != "bool" or tr != "bool":
                raise Untranslatable(ast.unparse(e))
            if not br:
                return bl, f"(andb {l} {r})", "bool"
            # the right operand can raise: it is evaluated only when the left one holds
            t = self.fresh()
            return bl + [(t, f"if {l} then {self.wrap(br, f'POk {r}')} else POk false")], t, "bool"
        if isinstance(e, ast.Call):
            return self.call(e)
        raise Untranslatable(ast.unparse(e))

    def fresh_name(self):
        self.last = self.fresh()
        return self.last

    def call(self, e):
        f = e.func
        s = ast.unparse(e)
        if e.keywords:
            raise Untranslatable(s)
        if isinstance(f, ast.Name) and f.id == "len" and len(e.args) == 1:
            b, x, t = self.expr(e.args[0])
            if not t.startswith("list:"):
                raise Untranslatable(s)
            return b, f"(Z.of_nat (length {x}))", "Z"
        if isinstance(f, ast.Name) and f.id == "sum" and len(e.args) == 1:
            b, x, t = self.expr(e.args[0])
            if t != "list:Z":
                raise Untranslatable(s)
            return b, f"(fold_left Z.add {x} 0)", "Z"
        if isinstance(f, ast.Attribute):
            recv = ast.unparse(f.value)
            if f.attr == "count" and len(e.args) == 1:
                bl, l, tl = self.expr(f.value)
                bx, x, tx = self.expr(e.args[0])
                if tl != f"list:{tx}" or tx not in EQB:
                    raise Untranslatable(s)
                return bl + bx, f"(py_count {EQB[tx]} {x} {l})", "Z"
            if f.attr == "get_types" and not e.args and self.env.get(recv) == "ftree":
                return [], f"(get_types {recv}_)", "list:tnode"
            if f.attr == "unwrap" and not e.args and isinstance(f.value, ast.Call) and isinstance(f.value.func, ast.Attribute) \
                    and f.value.func.attr == "get" and self.env.get(ast.unparse(f.value.func.value)) == "ftree" and len(f.value.args) == 1 \
                    and isinstance(f.value.args[0], ast.Constant) and f.value.args[0].value in ("service", "device"):
                which = f.value.args[0].value
                tr = ast.unparse(f.value.func.value) + "_"
                return [], (f"(t_services {tr})" if which == "service" else f"(t_devices {tr})"), ("list:svc" if which == "service" else "list:sdevice")
            if f.attr == "get_matching_impls" and len(e.args) == 1 and isinstance(e.args[0], ast.Constant) and self.env.get(recv) == "ftree":
                b, p, _ = self.expr(e.args[0])
                return b, f"(matching_impls {recv}_ {p})", "list:simpl"
            if f.attr == "get_struct" and len(e.args) == 1 and self.env.get(recv) == "ftree":
                b, n, t = self.expr(e.args[0])
                if t != "string":
                    raise Untranslatable(s)
                return b, f"(first_struct {recv}_ {n})", "ostruct"
            if f.attr == "is_nothing" and not e.args:
                b, x, t = self.expr(f.value)
                if t != "ostruct":
                    raise Untranslatable(s)
                return b, f"(is_none {x})", "bool"
            if f.attr == "unwrap" and not e.args:
                b, x, t = self.expr(f.value)
                if t != "ostruct":
                    raise Untranslatable(s)
                v = self.fresh()
                return b + [(v, f"py_unwrap {x}")], v, "sstruct"
            if f.attr == "get_length" and not e.args:
                b, x, t = self.expr(f.value)
                if t != "sty":
                    raise Untranslatable(s)
                v = self.fresh()
                return b + [(v, f"py_length {x}")], v, "Z"
            if f.attr == "get" and len(e.args) == 1 and isinstance(e.args[0], ast.Constant) and isinstance(f.value, ast.Attribute) and f.value.attr == "fields":
                b, x, t = self.expr(f.value.value)
                key = e.args[0].value
                if t == "simpl" and isinstance(key, str):
                    return b, f'(lookup "{key}"%string (ifields {x}))', "oxval"
                if t == "sdevice" and key == "services":
                    return b, f"(dservices {x})", "ostrings"
        raise Untranslatable(s)

    # statements; returns Gallina of type pyres flow: FRet v = the function returned v, FCont = `continue`, FNext = fell through
    def block(self, body):
        if not body:
            return "POk FNext"
        st, rest = body[0], body[1:]
        if isinstance(st, ast.Expr) and isinstance(st.value, ast.Constant) and isinstance(st.value.value, str):
            return self.block(rest)
        if isinstance(st, ast.Return):
            v = st.value
            if isinstance(v, ast.Call) and ast.unparse(v.func) == "Ok" and ast.unparse(v) == "Ok(())":
                return "POk (FRet true)"
            if isinstance(v, ast.Call) and ast.unparse(v.func) == "error":
                return "POk (FRet false)"                      # the message and the node it cites are not modelled
            raise Untranslatable(ast.unparse(st))
        if isinstance(st, ast.Continue):
            return "POk FCont"
        if isinstance(st, ast.Assign) and len(st.targets) == 1:
            tg = st.targets[0]
            b, x, t = self.expr(st.value)
            if isinstance(tg, ast.Name):
                self.env[tg.id] = t
                return self.wrap(b, f"let {tg.id}_ := {x} in {self.block(rest)}")
            if isinstance(tg, ast.Tuple) and len(tg.elts) == 2 and all(isinstance(n, ast.Name) for n in tg.elts) and t.startswith("pair:"):
                ta, tb = t[5:].split(",", 1)
                self.env[tg.elts[0].id], self.env[tg.elts[1].id] = ta, tb
                return self.wrap(b, f"let '({tg.elts[0].id}_, {tg.elts[1].id}_) := {x} in {self.block(rest)}")
            raise Untranslatable(ast.unparse(st))
        if isinstance(st, ast.If):
            b, c, tc = self.expr(st.test)
            if tc != "bool":
                raise Untranslatable(ast.unparse(st.test))
            env0 = dict(self.env)
            yes = self.block(st.body)
            self.env = dict(env0)
            no = self.block(st.orelse)
            self.env = env0
            return self.wrap(b, f"pbind (if {c} then {yes} else {no}) (fun r => match r with FNext => {self.block(rest)} | other => POk other end)")
        if isinstance(st, ast.For):
            if st.orelse or not isinstance(st.target, ast.Name):
                raise Untranslatable(ast.unparse(st))
            b, l, tl = self.expr(st.iter)
            if tl == "ostrings":
                # iterating None raises TypeError (the code guards it with an `is None` test before)
                v = self.fresh()
                b, l, tl = b + [(v, f"py_iter_opt {l}")], v, "list:string"
            if not tl.startswith("list:"):
                raise Untranslatable("iteration over a " + tl)
            env0 = dict(self.env)
            self.env[st.target.id] = tl[5:]
            body = self.block(st.body)
            self.env = env0
            return self.wrap(b, f"pbind (for_first {l} (fun {st.target.id}_ => {body})) (fun r => match r with Some v => POk (FRet v) | None => {self.block(rest)} end)")
        raise Untranslatable(ast.unparse(st))

    def translate(self):
        fn = self.fn
        if fn.args.vararg or fn.args.kwarg or fn.args.kwonlyargs or fn.args.defaults:
            raise Untranslatable(f"signature of {fn.name}")
        body = self.block(fn.body)
        # a check that falls off its end returns None, which the driver's .attempt() would choke on: an exception
        return (f"Definition py_{fn.name} ({self.fcp}_ : ftree) ({self.node}_ : {coq_type(self.node_type)}) : pyres bool :=\n"
                f"  pbind ({body}) (fun r => match r with FRet v => POk v | _ => PRaise PyAttributeError end).\n")


def registered_checks_in(tree, owner):
    """(name, category, FunctionDef) of the functions decorated with @register(<verifier>, "<category>") inside function `owner`."""
    out = []
    for node in ast.walk(tree):
        if isinstance(node, ast.FunctionDef) and node.name == owner:
            for st in node.body:
                if isinstance(st, ast.FunctionDef):
                    cats = [d.args[1].value for d in st.decorator_list if isinstance(d, ast.Call) and ast.unparse(d.func) == "register"
                            and len(d.args) == 2 and isinstance(d.args[1], ast.Constant)]
                    if len(cats) != 1 or len(st.decorator_list) != 1:
                        raise Untranslatable(f"decorators of {st.name}")
                    out.append((st.name, cats[0], st))
    return out


def translate_checks(sources):
    """sources: [(tag, python source, owner function, expected [(check name, category)])]"""
    out = ["(* GENERATED by harness/py2coq_checks.py from the check functions of src/fcp/verifier.py and the DBC / C plug-ins on every run; do not edit. *)",
           "From Coq Require Import String ZArith List Bool.",
           "From FcpV Require Import Schema.Types Layout.Packed Verifier.Checks Py.BufferLib Verifier.ChecksLib.",
           "Import ListNotations.", "Open Scope Z_scope.", ""]
    for tag, src, owner, expected in sources:
        found = registered_checks_in(ast.parse(src), owner)
        if [(n, c) for n, c, _ in found] != expected:
            raise Untranslatable(f"checks registered in {owner} ({tag}): {[(n, c) for n, c, _ in found]}")
        out.append(f"Module {tag}.")
        for name, cat, fn in found:
            out.append(Check(fn, cat).translate())
        out.append(f"End {tag}.\n")
    return "\n".join(out)


EXPECTED = {
    "General": [("check_duplicate_typenames", "type"), ("check_duplicate_impl", "impl"), ("check_duplicate_struct_fields", "field"),
                ("check_struct_contains_struct_fields", "struct"), ("check_enum_duplicate_enumerations_names", "enum"),
                ("check_enum_duplicate_enumerations_values", "enum"), ("check_device_contains_services", "device")],
    "Dbc": [("check_impl_valid_type", "impl"), ("check_duplicate_can_ids", "impl")],
    "CanC": [("check_impl_valid_type", "impl"), ("check_impl_size", "impl")],
}


def translate_repo(repo):
    import os
    rd = lambda *p: open(os.path.join(repo, *p)).read()
    return translate_checks([
        ("General", rd("src", "fcp", "verifier.py"), "make_general_verifier", EXPECTED["General"]),
        ("Dbc", rd("plugins", "fcp_dbc", "fcp_dbc", "generator.py"), "register_checks", EXPECTED["Dbc"]),
        ("CanC", rd("plugins", "fcp_can_c", "fcp_can_c", "generator.py"), "register_checks", EXPECTED["CanC"]),
    ])


if __name__ == "__main__":
    import sys
    print(translate_repo(sys.argv[1]))
