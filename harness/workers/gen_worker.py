"""Runs in a fresh interpreter (its own PYTHONHASHSEED): parses a schema, runs one generator, prints {path: contents} as JSON.
argv: <schema file> <generator> <outdir> [history]   history = 'none' | 'busy' (parse/generate other things first) | 'twice' |
'module-rewritten:<file>' (the schema's module held <file>'s text during a first parse+generate of this process) | 'others-first' (the other generators run first on the same parsed object) | 'after:<other schema file>' (parse that schema - same type names, other definitions - and run every generator on it first) |
'same-object-after:<other schema file>' (the same, and the very Generator OBJECTS that generated from the other schema generate from this one:
a long-running tool keeps one generator per plug-in)"""
import contextlib
import io
import json
import os
import sys


KEPT = {}      # plug-in name -> Generator object, when the history keeps one per plug-in
KEEP = False


def generate(name, fcp, outdir):
    import importlib
    mod = importlib.import_module("fcp_" + name)
    gen = KEPT.setdefault(name, mod.Generator()) if KEEP else mod.Generator()
    with contextlib.redirect_stdout(io.StringIO()):
        res = gen.generate(fcp, {"output": outdir})
    return {os.path.relpath(str(r["path"]), outdir) if r.get("type") == "file" else "<print>": str(r["contents"]) for r in res}


def main():
    schema, name, outdir, history = sys.argv[1], sys.argv[2], sys.argv[3], (sys.argv[4] if len(sys.argv) > 4 else "none")
    from fcp.parser import get_fcp, get_fcp_from_string
    if history == "busy":
        other = get_fcp_from_string('version: "3"\nstruct Warm { a @1: u5, b @0: i12, }\nimpl can for Warm { id: 1, }\nimpl uart for Warm as W2 { x: 1, }\nservice Sv @1 { method m(Warm) @0 returns Warm, }').unwrap()
        for g in ("dbc", "cpp", "nop"):
            try:
                generate(g, other, outdir)
            except Exception:
                pass
        get_fcp_from_string("version: \"3\"\nstruct X { a @0: u8, }")
    if history.startswith("same-object-after:"):
        global KEEP
        KEEP = True
        history = history[len("same-object-"):]
    if history.startswith("after:"):
        try:
            other = get_fcp(history[6:]).unwrap()
        except Exception:
            other = None
        for g in ("dbc", "can_c", "cpp", "nop"):
            try:
                generate(g, other, outdir + "_prev")
            except Exception:
                pass
    if history.startswith("module-rewritten:"):
        # the module file (<schema stem>_types.fcp, next to the schema) held other definitions when this process parsed and
        # generated the first time; it is then rewritten to what is on disk for everybody else, and the schema is parsed again
        import shutil
        priv = outdir + "_priv"
        os.makedirs(priv, exist_ok=True)
        stem = os.path.basename(schema)[:-4]
        real_mod = os.path.join(os.path.dirname(schema), stem + "_types.fcp")
        shutil.copy(schema, os.path.join(priv, stem + ".fcp"))
        shutil.copy(history[len("module-rewritten:"):], os.path.join(priv, stem + "_types.fcp"))
        try:
            first = get_fcp(os.path.join(priv, stem + ".fcp")).unwrap()
            for g in ("dbc", "can_c", "cpp", "nop"):
                try:
                    generate(g, first, outdir + "_first")
                except Exception:
                    pass
        except Exception:
            pass
        shutil.copy(real_mod, os.path.join(priv, stem + "_types.fcp"))
        schema = os.path.join(priv, stem + ".fcp")
    fcp = get_fcp(schema).unwrap()
    if history == "others-first":
        # every other generator runs first on the SAME parsed schema object (a generator must not change its input)
        for g in ("can_c", "dbc", "cpp", "nop"):
            if g != name:
                try:
                    generate(g, fcp, outdir + "_" + g)
                except Exception:
                    pass
    try:
        out = generate(name, fcp, outdir)
        if history == "twice":
            out = generate(name, fcp, outdir)          # the SAME schema object again
    except Exception as e:
        print(json.dumps({"__raised__": type(e).__name__}))
        return
    print(json.dumps(out))


main()
