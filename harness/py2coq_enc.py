"""Translator for class PackedEncoder of fcp/encoding.py -> Gallina (coq/gen/PyEncoder.v), built on the typed translator
py2coq_typed.py (same conventions: static types inferred, Python's dynamic checks as failing coercions, recursion on fuel,
fail-closed).  The object `self` is threaded like the buffer of serde.py: every method takes and returns the encoder state

    penc = { pe_fcp; pe_unroll (= self.ctx.unroll_arrays); pe_encoding (list of Values); pe_bitstart }

Additional subset: attribute reads and writes of self, `self.x += e`, `self.encoding.append(Value(...))` with keyword arguments
and defaults, string concatenation and str(i), prefix[:-2], copy(field) followed by attribute assignment (functional record
update), the Maybe chain  extension.get_signal(n).and_then(lambda b: Some(b.fields)).unwrap_or({})  as one unit,
`d.get(k) or "lit"`, fcp.get_type(t).unwrap() with isinstance on the result, int(), 2 ** ceil(log2(e)), ceil(log2(e)),
max([x.value for x in e.enumeration]), default arguments that are string constants, keyword arguments at call sites.
"""
import ast

from py2coq import Untranslatable
import py2coq_typed as T

T.COQ_TYPE.update({"penc": "penc", "simpl": "simpl", "xdict": "(list (string * xval))", "ptype": "ptype", "pvalue": "pvalue",
                   "pvalues": "(list pvalue)", "oxval": "(option xval)", "ostring": "(option string)"})

METHODS = ["_get_type_length", "_generate_struct", "_generate_signal", "_generate_enum", "_generate_compound_type", "_generate_array_type",
           "_generate", "generate"]
NODE_CLASSES = {"Struct": "PTStruct", "Enum": "PTEnum", "StructField": "PTField"}


def enc_param_type(a, name=None):
    if a is None:
        raise Untranslatable("missing annotation")
    s = ast.unparse(a)
    table = {"FcpV2": "schema", "Struct": "sstruct", "Enum": "senum", "StructField": "sfield", "Impl": "simpl", "str": "string", "int": "Z",
             "Union[StructType, EnumType]": "sty"}
    if s in table:
        return table[s]
    if s == "Type" or s in T.TYPE_CLASSES:
        return "sty"
    raise Untranslatable(f"parameter annotation {s}")


def enc_return_type(a):
    s = ast.unparse(a) if a is not None else None
    if s in ("NoReturn", "None"):
        return "unit"
    if s == "int":
        return "Z"
    if s == "List[EncodeablePiece]":
        return "pvalues"
    raise Untranslatable(f"return annotation {s}")


class EncMethod(T.TypedFunction):
    def __init__(self, fn, sigs, fuel_fns, in_group, defaults):
        self.fn = fn
        self.sigs = sigs
        self.methods = {}
        self.fuel_fns = fuel_fns
        self.in_group = in_group
        self.defaults = defaults        # method -> {param: Gallina string constant}
        self.tmp = 0
        self.env = {"self": "penc"}
        for a in fn.args.args[1:]:
            self.env[a.arg] = enc_param_type(a.annotation)
        self.ret = enc_return_type(fn.returns)
        self.bufparam = "self"

    # ---- coercions of the sum type returned by get_type
    def coerce(self, x, want):
        binds, term, have = x
        if have == "ptype" and want in ("sstruct", "senum", "sfield"):
            t = self.fresh()
            return binds + [(t, f"{ {'sstruct': 'as_struct', 'senum': 'as_enum', 'sfield': 'as_field'}[want] } {term}")], t
        if (have, want) == ("string", "ostring"):
            return binds, f"(Some {term})"
        return super().coerce(x, want)

    def state_vars(self, body):
        names = ["self"]
        for n in self.assigned(body):
            if n in self.env and n not in names:
                names.append(n)
        return names

    def expr(self, e):
        if isinstance(e, ast.Constant) and isinstance(e.value, str):
            return [], T_str(e.value), "string"
        if isinstance(e, ast.Attribute):
            s = ast.unparse(e)
            if s == "self.fcp":
                return [], "(pe_fcp self)", "schema"
            if s == "self.ctx.unroll_arrays":
                return [], "(pe_unroll self)", "bool"
            if s == "self.bitstart":
                return [], "(pe_bitstart self)", "Z"
            if s == "self.encoding":
                return [], "(pe_encoding self)", "pvalues"
            b, x, t = self.expr(e.value)
            pure = {("sfield", "unit"): ("funit", "ostring"), ("simpl", "type"): ("itype", "string"), ("senum", "name"): ("ename", "string")}
            if (t, e.attr) in pure:
                f, rt = pure[(t, e.attr)]
                return b, f"({f} {x})", rt
            return super().expr(e)
        if isinstance(e, ast.BinOp) and isinstance(e.op, ast.Add):
            bl, l, tl = self.expr(e.left)
            br, r, tr = self.expr(e.right)
            if tl == "string" and tr == "string":
                return bl + br, f"(String.append {l} {r})", "string"
            if tl == "Z" and tr == "Z":
                return bl + br, f"(Z.add {l} {r})", "Z"
            raise Untranslatable(ast.unparse(e))
        if isinstance(e, ast.BinOp) and isinstance(e.op, ast.Mult):
            bl, l = self.coerce(self.expr(e.left), "Z")
            br, r = self.coerce(self.expr(e.right), "Z")
            return bl + br, f"(Z.mul {l} {r})", "Z"
        if isinstance(e, ast.BinOp) and isinstance(e.op, ast.Pow) and isinstance(e.left, ast.Constant) and e.left.value == 2 \
                and isinstance(e.right, ast.Call) and ast.unparse(e.right.func) == "ceil" and len(e.right.args) == 1 \
                and isinstance(e.right.args[0], ast.Call) and ast.unparse(e.right.args[0].func) == "log2":
            b, x = self.coerce(self.expr(e.right.args[0].args[0]), "Z")
            t = self.fresh()
            return b + [(t, f"py_pow2_ceil_log2 {x}")], t, "Z"
        if isinstance(e, ast.BoolOp) and isinstance(e.op, ast.Or) and len(e.values) == 2 and isinstance(e.values[1], ast.Constant) and isinstance(e.values[1].value, str):
            # d.get(k) or "lit"
            a, lit = e.values
            if (isinstance(a, ast.Call) and isinstance(a.func, ast.Attribute) and a.func.attr == "get" and len(a.args) == 1
                    and isinstance(lit, ast.Constant) and isinstance(lit.value, str)):
                bd, d = self.coerce(self.expr(a.func.value), "xdict")
                bk, k = self.coerce(self.expr(a.args[0]), "string")
                t = self.fresh()
                return bd + bk + [(t, f"py_or_str (xdict_get {d} {k}) {T_str(lit.value)}")], t, "string"
        if isinstance(e, ast.BoolOp):
            # all operands pure booleans: evaluating them eagerly changes nothing
            op = "orb" if isinstance(e.op, ast.Or) else "andb"
            parts = [self.expr(v) for v in e.values]
            if any(b for b, _, _ in parts[1:]) or any(t != "bool" for _, _, t in parts):
                raise Untranslatable(ast.unparse(e))
            term = parts[-1][1]
            for _, x, _ in reversed(parts[:-1]):
                term = f"({op} {x} {term})"
            return parts[0][0], term, "bool"
        if isinstance(e, ast.Subscript) and isinstance(e.slice, ast.Slice) and e.slice.lower is None and e.slice.step is None \
                and ast.unparse(e.slice.upper) == "-2":
            b, x = self.coerce(self.expr(e.value), "string")
            return b, f"(str_drop_last 2 {x})", "string"
        return super().expr(e)

    def call(self, e):
        f = e.func
        s = ast.unparse(f)
        if isinstance(f, ast.Name):
            if f.id == "isinstance" and len(e.args) == 2 and isinstance(e.args[1], ast.Name) and e.args[1].id in NODE_CLASSES:
                b, x = self.coerce(self.expr(e.args[0]), "ptype")
                return b, f"(is_{NODE_CLASSES[e.args[1].id]} {x})", "bool"
            if f.id == "int" and len(e.args) == 1 and not e.keywords:
                b, x = self.coerce(self.expr(e.args[0]), "Z")
                return b, x, "Z"
            if f.id == "str" and len(e.args) == 1 and not e.keywords:
                b, x = self.coerce(self.expr(e.args[0]), "Z")
                t = self.fresh()
                return b + [(t, f"py_str_int {x}")], t, "string"
            if f.id == "copy" and len(e.args) == 1:
                b, x, t = self.expr(e.args[0])
                if t != "sfield":
                    raise Untranslatable("copy of a " + t)
                return b, x, t                                  # values are immutable here: a copy is the value
            if f.id == "StructType" and len(e.args) == 1:
                b, x = self.coerce(self.expr(e.args[0]), "string")
                return b, f"(SStructRef {x})", "sty"
            if f.id == "ceil" and len(e.args) == 1 and isinstance(e.args[0], ast.Call) and ast.unparse(e.args[0].func) == "log2":
                b, x = self.coerce(self.expr(e.args[0].args[0]), "Z")
                t = self.fresh()
                return b + [(t, f"py_ceil_log2 {x}")], t, "Z"
            if f.id == "max" and len(e.args) == 1 and isinstance(e.args[0], ast.ListComp):
                lc = e.args[0]
                g = lc.generators[0]
                if (len(lc.generators) == 1 and not g.ifs and isinstance(g.target, ast.Name) and isinstance(lc.elt, ast.Attribute)
                        and isinstance(lc.elt.value, ast.Name) and lc.elt.value.id == g.target.id and lc.elt.attr == "value"
                        and isinstance(g.iter, ast.Attribute) and g.iter.attr == "enumeration"):
                    b, x = self.coerce(self.expr(g.iter.value), "senum")
                    t = self.fresh()
                    return b + [(t, f"py_max_enumeration {x}")], t, "Z"
            if f.id == "Some" and len(e.args) == 1:
                b, x = self.coerce(self.expr(e.args[0]), "string")
                return b, f"(Some {x})", "ostring"
            if f.id == "Value":
                return self.value_ctor(e)
        if isinstance(f, ast.Attribute):
            # extension.get_signal(name).and_then(lambda b: Some(b.fields)).unwrap_or({})
            if (f.attr == "unwrap_or" and len(e.args) == 1 and isinstance(e.args[0], ast.Dict) and not e.args[0].keys
                    and isinstance(f.value, ast.Call) and isinstance(f.value.func, ast.Attribute) and f.value.func.attr == "and_then"
                    and len(f.value.args) == 1 and isinstance(f.value.args[0], ast.Lambda)):
                lam = f.value.args[0]
                inner = f.value.func.value
                if (len(lam.args.args) == 1 and ast.unparse(lam.body) == f"Some({lam.args.args[0].arg}.fields)"
                        and isinstance(inner, ast.Call) and isinstance(inner.func, ast.Attribute) and inner.func.attr == "get_signal" and len(inner.args) == 1):
                    bi, im = self.coerce(self.expr(inner.func.value), "simpl")
                    bn, n = self.coerce(self.expr(inner.args[0]), "string")
                    return bi + bn, f"(sig_fields {im} {n})", "xdict"
                raise Untranslatable(ast.unparse(e))
            if f.attr == "unwrap" and not e.args and isinstance(f.value, ast.Call) and isinstance(f.value.func, ast.Attribute) \
                    and f.value.func.attr == "get_type" and len(f.value.args) == 1:
                bs, sc = self.coerce(self.expr(f.value.func.value), "schema")
                bt, ty = self.coerce(self.expr(f.value.args[0]), "sty")
                t = self.fresh()
                return bs + bt + [(t, f"py_get_type {sc} {ty}")], t, "ptype"
            if f.attr == "get_length" and not e.args:
                b, x = self.coerce(self.expr(f.value), "sty")
                t = self.fresh()
                return b + [(t, f"py_get_length {x}")], t, "Z"
            if isinstance(f.value, ast.Name) and f.value.id == "self" and f.attr in self.sigs:
                ptypes, rt, pnames = self.sigs[f.attr]
                given = dict(zip(pnames, e.args))
                for kw in e.keywords:
                    if kw.arg not in pnames or kw.arg in given:
                        raise Untranslatable(ast.unparse(e))
                    given[kw.arg] = kw.value
                binds, terms = [], []
                for pn, pt in zip(pnames, ptypes):
                    if pn in given:
                        b, t = self.coerce(self.expr(given[pn]), pt)
                        binds += b
                        terms.append(t)
                    elif pn in self.defaults.get(f.attr, {}):
                        terms.append(self.defaults[f.attr][pn])
                    else:
                        raise Untranslatable(f"missing argument {pn} in {ast.unparse(e)}")
                fuel = "fuel " if f.attr in self.fuel_fns else ""
                t = self.fresh()
                return binds + [(f"'(self, {t})", f"py_{f.attr} {fuel}self " + " ".join(terms))], t, rt
        return super().call(e)

    def value_ctor(self, e):
        order = ["name", "type", "bitstart", "bitlength", "endianess", "unit", "extended_data", "composite_type"]
        types = {"name": "string", "type": "sty", "bitstart": "Z", "bitlength": "Z", "endianess": "string", "unit": "ostring",
                 "extended_data": "xdict", "composite_type": "ostring"}
        default = {"endianess": '"little"%string', "unit": "None", "extended_data": "[]", "composite_type": "None"}
        given = dict(zip(order, e.args))
        for kw in e.keywords:
            if kw.arg not in order or kw.arg in given:
                raise Untranslatable(ast.unparse(e))
            given[kw.arg] = kw.value
        binds, parts = [], []
        for k in order:
            if k in given:
                b, t = self.coerce(self.expr(given[k]), types[k])
                binds += b
            elif k in default:
                t = default[k]
            else:
                raise Untranslatable(f"Value() without {k}")
            parts.append(f"v_{k} := {t}")
        return binds, "{| " + "; ".join(parts) + " |}", "pvalue"

    def stmt(self, st, cont, last):
        if isinstance(st, ast.AnnAssign) and isinstance(st.target, ast.Name) and st.value is not None:
            st = ast.Assign(targets=[st.target], value=st.value)       # the annotation is not used: the type is inferred
        if isinstance(st, ast.Assign) and len(st.targets) == 1 and isinstance(st.targets[0], ast.Attribute):
            tg = st.targets[0]
            s = ast.unparse(tg)
            if s == "self.encoding" and isinstance(st.value, ast.List) and not st.value.elts:
                return f"let self := set_encoding self [] in {cont()}"
            if s == "self.bitstart":
                b, v = self.coerce(self.expr(st.value), "Z")
                return self.wrap(b, f"let self := set_bitstart self {v} in {cont()}")
            if isinstance(tg.value, ast.Name) and self.env.get(tg.value.id) == "sfield" and tg.attr in ("type", "name"):
                want = {"type": "sty", "name": "string"}[tg.attr]
                b, v = self.coerce(self.expr(st.value), want)
                o = T.ident(tg.value.id)
                return self.wrap(b, f"let {o} := set_f{'ty' if tg.attr == 'type' else 'name'} {o} {v} in {cont()}")
            raise Untranslatable(ast.unparse(st))
        if isinstance(st, ast.AugAssign) and ast.unparse(st.target) == "self.bitstart" and isinstance(st.op, ast.Add):
            b, v = self.coerce(self.expr(st.value), "Z")
            return self.wrap(b, f"let self := set_bitstart self (Z.add (pe_bitstart self) {v}) in {cont()}")
        if isinstance(st, ast.Expr) and isinstance(st.value, ast.Call) and ast.unparse(st.value.func) == "self.encoding.append" and len(st.value.args) == 1:
            b, v = self.coerce(self.expr(st.value.args[0]), "pvalue")
            return self.wrap(b, f"let self := set_encoding self (pe_encoding self ++ [{v}])%list in {cont()}")
        if isinstance(st, ast.Raise):
            x = st.exc
            if isinstance(x, ast.Call) and isinstance(x.func, ast.Name) and x.func.id in T.EXCEPTIONS:
                return f"PRaise {T.EXCEPTIONS[x.func.id]}"          # the message is not modelled
        if isinstance(st, ast.Return) and st.value is None:
            return self.final()
        return super().stmt(st, cont, last)

    def translate(self):
        fn = self.fn
        if fn.args.vararg or fn.args.kwarg or fn.args.kwonlyargs or fn.decorator_list:
            raise Untranslatable(f"signature of {fn.name}")
        params = " ".join(f"({T.ident(a.arg)} : {T.COQ_TYPE[self.env[a.arg]]})" for a in fn.args.args)
        rt = f"pyres (penc * {T.COQ_TYPE[self.ret]})"
        body = self.block(fn.body, None)
        return params, rt, body


def T_str(s):
    if any(ord(c) > 126 or ord(c) < 32 or c == '"' for c in s):
        raise Untranslatable(f"string constant {s!r}")
    return f'"{s}"%string'


def translate_encoder(source):
    tree = ast.parse(source)
    cls = [n for n in tree.body if isinstance(n, ast.ClassDef) and n.name == "PackedEncoder"]
    if len(cls) != 1 or cls[0].bases or cls[0].decorator_list:
        raise Untranslatable("class PackedEncoder not found")
    fns = {}
    for n in cls[0].body:
        if isinstance(n, ast.FunctionDef):
            fns[n.name] = n
        elif not (isinstance(n, ast.Expr) and isinstance(n.value, ast.Constant)):
            raise Untranslatable("class body: " + ast.unparse(n)[:60])
    init = fns.pop("__init__", None)
    if init is None or [ast.unparse(s) for s in init.body] != ["self.fcp = fcp", "self.ctx = ctx", "self.encoding: List[Value] = []", "self.bitstart = 0"]:
        raise Untranslatable("__init__ of PackedEncoder")
    if sorted(fns) != sorted(METHODS):
        raise Untranslatable(f"methods of PackedEncoder: {sorted(fns)}")
    sigs, defaults = {}, {}
    for n, f in fns.items():
        args = f.args.args[1:]
        sigs[n] = (["penc"][:0] + [enc_param_type(a.annotation) for a in args], enc_return_type(f.returns), [a.arg for a in args])
        ds = f.args.defaults
        defaults[n] = {}
        for a, d in zip(args[len(args) - len(ds):], ds):
            if not (isinstance(d, ast.Constant) and isinstance(d.value, str)):
                raise Untranslatable(f"default of {a.arg} in {n}")
            defaults[n][a.arg] = T_str(d.value)
    graph = {n: {c.func.attr for c in ast.walk(f) if isinstance(c, ast.Call) and isinstance(c.func, ast.Attribute)
                 and isinstance(c.func.value, ast.Name) and c.func.value.id == "self" and c.func.attr in fns} for n, f in fns.items()}

    def reach(n):
        seen, todo = set(), [n]
        while todo:
            for m in graph[todo.pop()]:
                if m not in seen:
                    seen.add(m)
                    todo.append(m)
        return seen
    reaches = {n: reach(n) for n in fns}
    recursive = {n for n in fns if n in reaches[n]}
    fuel_fns = {n for n in fns if n in recursive or reaches[n] & recursive}
    groups, placed = [], set()
    for n in fns:
        if n in recursive and n not in placed:
            g = [m for m in fns if m in recursive and m in reaches[n] and n in reaches[m]]
            groups.append(g)
            placed |= set(g)
    out = ["(* GENERATED by harness/py2coq_enc.py from class PackedEncoder of /repo/src/fcp/encoding.py on every run; do not edit. *)",
           "From Coq Require Import String ZArith List Bool.",
           "From FcpV Require Import Schema.Types Py.BufferLib Py.DispatchLib Layout.Packed Layout.EncoderLib.",
           "Import ListNotations.", "Open Scope Z_scope.", ""]
    emitted = set()

    def one(n, in_group):
        m = EncMethod(fns[n], sigs, fuel_fns, in_group, defaults)
        return m.translate()

    pending = list(fns)
    while pending:
        progress = False
        for n in list(pending):
            g = next((g for g in groups if n in g), None)
            members = set(g) if g else {n}
            deps = set().union(*(graph[m] for m in members)) - members
            if deps <= emitted:
                if g:
                    parts = []
                    for m in g:
                        params, rt, body = one(m, True)
                        parts.append(f"py_{m} (fuel0 : nat) {params} {{struct fuel0}} : {rt} :=\n  match fuel0 with O => PRaise PyRecursionError | S fuel =>\n  {body}\n  end")
                    out.append("Fixpoint " + "\nwith ".join(parts) + ".\n")
                else:
                    params, rt, body = one(n, False)
                    fuel = "(fuel : nat) " if n in fuel_fns else ""
                    out.append(f"Definition py_{n} {fuel}{params} : {rt} :=\n  {body}.\n")
                emitted |= members
                pending = [p for p in pending if p not in emitted]
                progress = True
                break
        if not progress:
            raise Untranslatable("cannot order methods: " + ", ".join(pending))
    return "\n".join(out)


if __name__ == "__main__":
    import sys
    print(translate_encoder(open(sys.argv[1]).read()))
