(* The dispatch layer of serde.py (gen/PyDispatch.v, translated from the source on every run by harness/py2coq_typed.py) refines
   the wire model: on the Python image [embed t v] of a value, the translated _encode appends exactly [wire t v] to the buffer, and
   the translated encode() returns the bytes of the hand-written model Py.PySerde.py_encode.  Together with Py/BufferProofs.v and
   Py/LeafProofs.v this ties the WHOLE of serde.py's encoder, statement by statement, to the specification. *)
From Coq Require Import String ZArith List Bool Lia Arith ZifyNat ZifyBool.
From FcpV Require Import Base.Bits Base.BitsProofs Schema.Types Wire.Wire Wire.WireProofs Py.PySerde Py.PySerdeProofs
  Py.BufferLib Py.DispatchLib Py.DispatchDefs gen.PyBuffer Py.BufferProofs gen.PyLeaf Py.LeafProofs gen.PyDispatch.
Import ListNotations.
Open Scope Z_scope.

(* ---------- what "appends bs" means for a call that returns the buffer ---------- *)
Definition appends {A : Type} (r : pyres (pybuf * A)) (a : A) (n : nat) (buf : list Z) (bs : bits) : Prop :=
  exists buf', r = POk (mk buf' (Z.of_nat (n + length bs)), a) /\ W (n + length bs) buf' /\
               enc_abs buf' (n + length bs) = enc_abs buf n ++ bs.

Lemma appends_unsigned n buf m z : W n buf ->
  appends (py__encode_builtin_unsigned (mk buf (Z.of_nat n)) (num m) z) tt n buf (bits_of_Z m z).
Proof.
  intros HW. destruct (encode_unsigned_appends n buf m z HW) as [buf' [Hr [HW' He]]].
  exists buf'. rewrite bits_of_Z_length. auto.
Qed.


(* the same for a computation that returns only the buffer (loop bodies) *)
Definition appendsb (r : pyres pybuf) (n : nat) (buf : list Z) (bs : bits) : Prop :=
  exists buf', r = POk (mk buf' (Z.of_nat (n + length bs))) /\ W (n + length bs) buf' /\
               enc_abs buf' (n + length bs) = enc_abs buf n ++ bs.

Lemma pbind_ret {A : Type} (r : pyres A) : pbind r (fun a => POk a) = r.
Proof. now destruct r. Qed.

Lemma appends_drop r n buf bs : appends r tt n buf bs -> appendsb (pbind r (fun '(buffer, _) => POk buffer)) n buf bs.
Proof. intros [buf' [-> H]]. exists buf'. split; [reflexivity|exact H]. Qed.

Lemma appendsb_keep r n buf bs : appendsb r n buf bs -> appends (pbind r (fun buffer => POk (buffer, tt))) tt n buf bs.
Proof. intros [buf' [-> H]]. exists buf'. split; [reflexivity|exact H]. Qed.

Lemma appendsb_nil n buf : W n buf -> appendsb (POk (mk buf (Z.of_nat n))) n buf [].
Proof. intros HW. exists buf. cbn [length]. rewrite Nat.add_0_r, app_nil_r. auto. Qed.

(* sequencing: r1 appends bs1, then (from the state it leaves) k appends bs2 *)
Lemma appendsb_seq (r1 : pyres pybuf) (k : pybuf -> pyres pybuf) n buf bs1 bs2 :
  appendsb r1 n buf bs1 ->
  (forall buf1, W (n + length bs1) buf1 -> appendsb (k (mk buf1 (Z.of_nat (n + length bs1)))) (n + length bs1) buf1 bs2) ->
  appendsb (pbind r1 k) n buf (bs1 ++ bs2).
Proof.
  intros [buf1 [-> [HW1 He1]]] Hk. cbn [pbind]. destruct (Hk buf1 HW1) as [buf2 [-> [HW2 He2]]].
  exists buf2. rewrite app_length, Nat.add_assoc. split; [reflexivity|split; [exact HW2|]]. now rewrite He2, He1, app_assoc.
Qed.

Lemma for_each_appendsb {A : Type} (body : A -> pybuf -> pyres pybuf) : forall (l : list A) (bss : list bits),
  Forall2 (fun x bs => forall n buf, W n buf -> appendsb (body x (mk buf (Z.of_nat n))) n buf bs) l bss ->
  forall n buf, W n buf -> appendsb (for_each l body (mk buf (Z.of_nat n))) n buf (concat bss).
Proof.
  induction 1 as [|x bs l bss Hx _ IH]; intros n buf HW.
  - cbn [for_each concat]. now apply appendsb_nil.
  - cbn [for_each concat]. apply appendsb_seq; [now apply Hx|]. intros buf1 HW1. now apply IH.
Qed.

(* for i in range(len(l)): ... l[i] ...   is   for x in l: ... x ... *)
Lemma for_nat_index {S : Type} (f : pyval -> S -> pyres S) : forall (l pre : list pyval) (s : S),
  for_nat (length l) (Z.of_nat (length pre)) (fun i s => pbind (py_index (PList (pre ++ l)) i) (fun x => f x s)) s = for_each l f s.
Proof.
  induction l as [|x l IH]; intros pre s; [reflexivity|].
  cbn [length for_nat for_each]. unfold py_index at 1.
  replace ((0 <=? Z.of_nat (length pre)) && (Z.of_nat (length pre) <? Z.of_nat (length (pre ++ x :: l)))) with true
    by (rewrite app_length; cbn [length]; lia).
  rewrite Nat2Z.id, app_nth2, Nat.sub_diag by lia. cbn [nth pbind].
  destruct (f x s) as [s'|e]; [|reflexivity]. cbn [pbind].
  specialize (IH (pre ++ [x]) s'). rewrite app_length in IH. cbn [length] in IH. rewrite <- app_assoc in IH. cbn [app] in IH.
  replace (Z.of_nat (length pre) + 1) with (Z.of_nat (length pre + 1)) by lia. exact IH.
Qed.

Lemma for_range_index {S : Type} (f : pyval -> S -> pyres S) (l : list pyval) (s : S) :
  for_range (Z.of_nat (length l)) (fun i s => pbind (py_index (PList l) i) (fun x => f x s)) s = for_each l f s.
Proof. unfold for_range. rewrite Nat2Z.id. exact (for_nat_index f l [] s). Qed.

(* ---------- lists of encodings ---------- *)
Lemma enc_list_concat (f : value -> option bits) : forall vs bs, enc_list f vs = Some bs ->
  exists bss, Forall2 (fun v b => f v = Some b) vs bss /\ bs = concat bss.
Proof.
  induction vs as [|v vs IH]; intros bs H; cbn [enc_list] in H.
  - injection H as <-. exists []. split; [constructor|reflexivity].
  - destruct (f v) as [a|] eqn:Ea; [|discriminate]. destruct (enc_list f vs) as [b|] eqn:Eb; [|discriminate].
    injection H as <-. destruct (IH b eq_refl) as [bss [HF ->]]. exists (a :: bss). split; [now constructor|reflexivity].
Qed.

Lemma str_bits_concat cs : str_bits cs = concat (map (bits_of_Z 8) cs).
Proof. unfold str_bits. now rewrite flat_map_concat_map. Qed.

Section Encode.
  Context (sc : schema).

  Definition enc_spec (t : rty) : Prop :=
    forall st v bs fuel n buf,
      den sc t st -> wire t v = Some bs -> repr t v = true -> uniq t -> (depth t <= fuel)%nat -> W n buf ->
      appends (py__encode fuel (mk buf (Z.of_nat n)) sc st (embed t v)) tt n buf bs.

  (* the body every branch of _encode ends in:  ... ; POk buffer  passed up through the if-chain *)
  Ltac leaf_case H := apply appendsb_keep; rewrite ?pbind_ret; apply appends_drop; exact H.

  Lemma enc_unsigned m st z fuel n buf : st = SU m \/ st = SI m -> W n buf ->
    appends (py__encode (S fuel) (mk buf (Z.of_nat n)) sc st (PInt z)) tt n buf (bits_of_Z m z).
  Proof.
    intros [->| ->] HW; cbn [py__encode is_UnsignedType is_SignedType py_as_num as_int pbind].
    - destruct (encode_unsigned_appends n buf m z HW) as [buf' [Hr H]].
      apply appendsb_keep. rewrite ?pbind_ret. apply appends_drop. exists buf'. rewrite bits_of_Z_length. auto.
    - destruct (encode_signed_appends n buf m z HW) as [buf' [Hr H]].
      apply appendsb_keep. rewrite ?pbind_ret. apply appends_drop. exists buf'. rewrite bits_of_Z_length. auto.
  Qed.

  Lemma enc_float st b fuel n buf : W n buf ->
    (st = SF32 -> appends (py__encode (S fuel) (mk buf (Z.of_nat n)) sc st (PFlt b)) tt n buf (bits_of_Z 32 b)) /\
    (st = SF64 -> appends (py__encode (S fuel) (mk buf (Z.of_nat n)) sc st (PFlt b)) tt n buf (bits_of_Z 64 b)).
  Proof.
    intros HW. split; intros ->; cbn [py__encode is_UnsignedType is_SignedType is_FloatType is_DoubleType py_as_num as_flt pbind].
    - destruct (encode_float_appends n buf {| get_length := 32 |} b HW) as [buf' [Hr H]].
      apply appendsb_keep. rewrite ?pbind_ret. apply appends_drop. exists buf'. rewrite bits_of_Z_length. auto.
    - destruct (encode_double_appends n buf {| get_length := 64 |} b HW) as [buf' [Hr H]].
      apply appendsb_keep. rewrite ?pbind_ret. apply appends_drop. exists buf'. rewrite bits_of_Z_length. auto.
  Qed.

  (* the u32 count / the u8 presence flag, written by a direct call of the leaf encoder *)
  Lemma count_appends {A : Type} m z n buf (k : pybuf -> pyres (pybuf * A)) (a : A) bs2 : W n buf ->
    (forall buf1, W (n + m) buf1 -> appends (k (mk buf1 (Z.of_nat (n + m)))) a (n + m) buf1 bs2) ->
    appends (pbind (py__encode_builtin_unsigned (mk buf (Z.of_nat n)) {| get_length := Z.of_nat m |} z) (fun '(buffer, _) => k buffer))
            a n buf (bits_of_Z m z ++ bs2).
  Proof.
    intros HW Hk. destruct (encode_unsigned_appends n buf m z HW) as [buf1 [Hr [HW1 He1]]].
    unfold num in Hr. rewrite Hr. cbn [pbind]. destruct (Hk buf1 HW1) as [buf2 [-> [HW2 He2]]].
    exists buf2. rewrite app_length, bits_of_Z_length, Nat.add_assoc. split; [reflexivity|split; [exact HW2|]]. now rewrite He2, He1, app_assoc.
  Qed.

  Lemma enc_str cs fuel n buf : W n buf ->
    appends (py__encode (S (S (S fuel))) (mk buf (Z.of_nat n)) sc SStr (PStr cs)) tt n buf
            (bits_of_Z 32 (Z.of_nat (length cs)) ++ str_bits cs).
  Proof.
    intros HW. cbn [py__encode is_UnsignedType is_SignedType is_FloatType is_DoubleType is_StringType].
    apply appendsb_keep. rewrite ?pbind_ret. apply appends_drop.
    cbn [py__encode_str py_as_num py_len_val py_iter pbind].
    apply (count_appends 32 (Z.of_nat (length cs)) n buf
             (fun buffer => pbind (for_each (map (fun c => PStr [c]) cs) _ buffer) (fun buffer0 => POk (buffer0, tt)))); [exact HW|].
    intros buf1 HW1. apply appendsb_keep. rewrite str_bits_concat. apply for_each_appendsb; [|exact HW1].
    clear. induction cs as [|c cs IH]; cbn [map]; constructor; [|exact IH].
    intros n buf HW. cbn [py_ord pbind]. apply appends_drop. apply enc_unsigned; auto.
  Qed.

  Lemma wire_shape_leaf t v bs : wire t v = Some bs ->
    match t with
    | RU n | RI n | REnum n => exists z, v = VInt z /\ bs = bits_of_Z n z
    | RF32 => exists b, v = VBits b /\ bs = bits_of_Z 32 b
    | RF64 => exists b, v = VBits b /\ bs = bits_of_Z 64 b
    | RStr => exists cs, v = VStr cs /\ bs = bits_of_Z 32 (Z.of_nat (length cs)) ++ str_bits cs
    | _ => True
    end.
  Proof.
    intros H. destruct t; try exact I; destruct v; cbn [wire] in H;
      lazymatch type of H with None = _ => discriminate H | Some ?a = Some _ => assert (E : a = bs) by congruence; subst bs end;
      eexists; split; reflexivity.
  Qed.

  (* elements of an array / dynamic array *)
  Lemma enc_elements t st' fuel (IH : enc_spec t) : den sc t st' -> uniq t -> (depth t <= fuel)%nat ->
    forall vs bss, Forall2 (fun v b => wire t v = Some b) vs bss -> forallb (repr t) vs = true ->
    Forall2 (fun x bs => forall n buf, W n buf ->
               appendsb (pbind (py__encode fuel (mk buf (Z.of_nat n)) sc st' x) (fun '(buffer, _) => POk buffer)) n buf bs)
            (map (embed t) vs) bss.
  Proof.
    intros Hd Hu Hf. induction 1 as [|v b vs bss Hv _ IHl]; intros Hr; cbn [map]; constructor.
    - cbn [forallb] in Hr. apply andb_true_iff in Hr. intros n buf HW. apply appends_drop. apply IH; tauto.
    - cbn [forallb] in Hr. apply andb_true_iff in Hr. apply IHl. tauto.
  Qed.

  Let F := (fun (f : string * rty) (kv : string * value) => if String.eqb (fst f) (fst kv) then wire (snd f) (snd kv) else None).
  Let N := (fun (f : string * rty) (kv : string * value) => (fst kv, embed (snd f) (snd kv))).

  Lemma enc_seq_names : forall fs kvs bs, enc_seq F fs kvs = Some bs -> Forall2 (fun f kv => fst f = fst kv) fs kvs.
  Proof.
    induction fs as [|f fs IH]; intros kvs bs H; destruct kvs as [|kv kvs]; cbn [enc_seq] in H; try discriminate; constructor.
    - unfold F in H at 1. destruct (String.eqb (fst f) (fst kv)) eqn:E; [|discriminate]. now apply String.eqb_eq.
    - destruct (F f kv); [|discriminate]. destruct (enc_seq F fs kvs) as [b0|] eqn:E; [|discriminate]. exact (IH kvs b0 E).
  Qed.

  (* data[field.name] finds the value at the field's own position: the keys are the field names, and those are unique *)
  Lemma assoc_map2 : forall fs kvs, NoDup (map fst fs) -> Forall2 (fun f kv => fst f = fst kv) fs kvs ->
    forall f kv, In (f, kv) (combine fs kvs) -> assoc (fst f) (map2 N fs kvs) = Some (embed (snd f) (snd kv)).
  Proof.
    induction fs as [|f0 fs IH]; intros kvs Hnd HF f kv Hin; [destruct Hin|].
    destruct kvs as [|kv0 kvs]; [destruct Hin|]. inversion HF as [|? ? ? ? Hn HF']; subst.
    cbn [map] in Hnd. inversion Hnd as [|? ? Hni Hnd']; subst.
    cbn [map2 assoc]. unfold N at 1. cbn [fst snd]. cbn [combine] in Hin. destruct Hin as [E|Hin].
    - injection E as <- <-. rewrite <- Hn, String.eqb_refl. reflexivity.
    - destruct (String.eqb (fst f) (fst kv0)) eqn:E.
      + exfalso. apply Hni. apply String.eqb_eq in E. rewrite Hn, <- E. apply in_map_iff. exists f. split; [reflexivity|].
        eapply in_combine_l. exact Hin.
      + now apply IH.
  Qed.

  Lemma enc_fields fuel (full : list (string * pyval)) : forall fs sfs kvs bs,
    Forall (fun f => enc_spec (snd f)) fs ->
    Forall2p (fun (f : string * rty) (sf : sfield) => fname sf = fst f /\ den sc (snd f) (fty sf)) fs sfs ->
    enc_seq F fs kvs = Some bs ->
    forallb2 (fun (f : string * rty) (kv : string * value) => repr (snd f) (snd kv)) fs kvs = true ->
    fold_right (fun f P => uniq (snd f) /\ P) True fs ->
    (fold_right (fun f m => Nat.max (depth (snd f)) m) 0%nat fs <= fuel)%nat ->
    (forall f kv, In (f, kv) (combine fs kvs) -> assoc (fst f) full = Some (embed (snd f) (snd kv))) ->
    exists bss, bs = concat bss /\
      Forall2 (fun sf b => forall n buf, W n buf ->
                 appendsb (pbind (py_getkey (PDict full) (fname sf))
                                 (fun t2 => pbind (py__encode fuel (mk buf (Z.of_nat n)) sc (fty sf) t2) (fun '(buffer, _) => POk buffer)))
                          n buf b) sfs bss.
  Proof.
    induction fs as [|f fs IH]; intros sfs kvs bs HIH Hd He Hr Hu Hf Hfull.
    - destruct sfs; [|destruct Hd]. destruct kvs; cbn [enc_seq] in He; [|discriminate]. some_inv He. exists []. split; [reflexivity|constructor].
    - destruct sfs as [|sf sfs]; [destruct Hd|]. destruct kvs as [|kv kvs]; [cbn [enc_seq] in He; discriminate|].
      cbn [Forall2p] in Hd. destruct Hd as [[Hname Hden] Hd]. inversion HIH as [|? ? Hspec HIH']; subst.
      cbn [enc_seq] in He. unfold F in He at 1. destruct (String.eqb (fst f) (fst kv)); [|discriminate].
      destruct (wire (snd f) (snd kv)) as [a|] eqn:Ea; [|discriminate]. destruct (enc_seq F fs kvs) as [b|] eqn:Eb; [|discriminate]. some_inv He.
      cbn [forallb2] in Hr. apply andb_true_iff in Hr. destruct Hr as [Hr1 Hr]. cbn [fold_right] in Hu, Hf. destruct Hu as [Hu1 Hu].
      destruct (IH sfs kvs b HIH' Hd Eb Hr Hu) as [bss [-> HF]]; [lia| |].
      { intros f' kv' Hin. apply Hfull. cbn [combine]. now right. }
      exists (a :: bss). split; [reflexivity|]. constructor; [|exact HF].
      intros n buf HW. cbn [py_getkey]. rewrite Hname, (Hfull f kv) by (cbn [combine]; now left). cbn [pbind].
      apply appends_drop. apply Hspec; auto. lia.
  Qed.

  Theorem encode_refines : forall t, enc_spec t.
  Proof.
    induction t as [m|m| | | |w|t n0 IH|t IH|t IH|fs IH] using rty_ind2; intros st v bs fuel n buf Hd Hw Hr Hu Hf HW.
    - (* unsigned *) cbn [den] in Hd. subst st. destruct (wire_shape_leaf _ _ _ Hw) as [z [-> ->]].
      destruct fuel as [|fuel]; [cbn [depth] in Hf; lia|]. cbn [embed]. apply enc_unsigned; auto.
    - (* signed *) cbn [den] in Hd. subst st. destruct (wire_shape_leaf _ _ _ Hw) as [z [-> ->]].
      destruct fuel as [|fuel]; [cbn [depth] in Hf; lia|]. cbn [embed]. apply enc_unsigned; auto.
    - cbn [den] in Hd. subst st. destruct (wire_shape_leaf _ _ _ Hw) as [b [-> ->]].
      destruct fuel as [|fuel]; [cbn [depth] in Hf; lia|]. cbn [embed]. now apply enc_float.
    - cbn [den] in Hd. subst st. destruct (wire_shape_leaf _ _ _ Hw) as [b [-> ->]].
      destruct fuel as [|fuel]; [cbn [depth] in Hf; lia|]. cbn [embed]. now apply enc_float.
    - (* str *) cbn [den] in Hd. subst st. destruct (wire_shape_leaf _ _ _ Hw) as [cs [-> ->]].
      destruct fuel as [|[|[|fuel]]]; try (cbn [depth] in Hf; lia). cbn [embed]. now apply enc_str.
    - (* enum *) cbn [den] in Hd. destruct Hd as [s [e [-> [He ->]]]]. destruct (wire_shape_leaf _ _ _ Hw) as [z [-> ->]].
      destruct fuel as [|fuel]; [cbn [depth] in Hf; lia|]. cbn [embed].
      cbn [py__encode is_UnsignedType is_SignedType is_FloatType is_DoubleType is_StringType is_EnumType].
      apply appendsb_keep. rewrite ?pbind_ret. apply appends_drop.
      unfold py__encode_enum. cbn [py_type_name pbind]. rewrite He. cbn [pbind as_int]. unfold enum_packed_size.
      destruct (push_word_refines n buf z (packed_size (enum_max e)) HW) as [buf' [Hrun H]].
      rewrite Hrun. cbn [pbind]. exists buf'. rewrite bits_of_Z_length. auto.
    - (* array *) cbn [den] in Hd. destruct Hd as [st' [-> Hd]].
      destruct v as [| | |vs| | |]; cbn [wire] in Hw; try discriminate.
      destruct (Nat.eqb (length vs) n0) eqn:El; [|discriminate]. apply Nat.eqb_eq in El.
      destruct (enc_list_concat _ _ _ Hw) as [bss [HF ->]].
      destruct fuel as [|[|fuel]]; try (cbn [depth] in Hf; lia). cbn [embed repr uniq depth] in *.
      cbn [py__encode is_UnsignedType is_SignedType is_FloatType is_DoubleType is_StringType is_EnumType is_StructType is_ArrayType].
      apply appendsb_keep. rewrite ?pbind_ret. apply appends_drop.
      cbn [py__encode_array py_array_size py_underlying pbind]. apply appendsb_keep.
      rewrite <- El, <- (map_length (embed t) vs).
      rewrite (for_range_index (fun x buffer => pbind (py__encode fuel buffer sc st' x) (fun '(buffer0, _) => POk buffer0))).
      apply for_each_appendsb; [|exact HW]. apply enc_elements; auto. lia.
    - (* dynamic array *) cbn [den] in Hd. destruct Hd as [st' [-> Hd]].
      destruct v as [| | |vs| | |]; cbn [wire] in Hw; try discriminate.
      destruct (enc_list (wire t) vs) as [b|] eqn:Eb; [|discriminate]. cbn [option_map] in Hw. some_inv Hw.
      destruct (enc_list_concat _ _ _ Eb) as [bss [HF ->]].
      destruct fuel as [|[|fuel]]; try (cbn [depth] in Hf; lia). cbn [embed repr uniq depth] in *.
      cbn [py__encode is_UnsignedType is_SignedType is_FloatType is_DoubleType is_StringType is_EnumType is_StructType is_ArrayType is_DynamicArrayType].
      apply appendsb_keep. rewrite ?pbind_ret. apply appends_drop.
      cbn [py__encode_dynamic_array py_as_num py_len_val py_iter py_underlying pbind]. rewrite map_length.
      apply (count_appends 32 (Z.of_nat (length vs)) n buf
               (fun buffer => pbind (for_each (map (embed t) vs) _ buffer) (fun buffer0 => POk (buffer0, tt)))); [exact HW|].
      intros buf1 HW1. apply appendsb_keep. apply for_each_appendsb; [|exact HW1].
      cbn [py_underlying pbind]. apply enc_elements; auto. lia.
    - (* optional *) cbn [den] in Hd. destruct Hd as [st' [-> Hd]].
      destruct fuel as [|[|fuel]]; try (cbn [depth] in Hf; lia). cbn [uniq depth] in *.
      destruct v as [| | | | |v|]; cbn [wire] in Hw; try discriminate.
      + some_inv Hw. cbn [embed].
        cbn [py__encode is_UnsignedType is_SignedType is_FloatType is_DoubleType is_StringType is_EnumType is_StructType is_ArrayType is_DynamicArrayType is_OptionalType].
        apply appendsb_keep. rewrite ?pbind_ret. apply appends_drop.
        cbn [py__encode_optional py_is_none negb py_as_num pbind].
        rewrite <- (app_nil_r (bits_of_Z 8 0)).
        apply (count_appends 8 0 n buf (fun buffer => pbind (POk buffer) (fun buffer0 => POk (buffer0, tt)))); [exact HW|].
        intros buf1 HW1. cbn [pbind]. exists buf1. cbn [length]. rewrite Nat.add_0_r, app_nil_r. auto.
      + destruct (wire t v) as [b|] eqn:Eb; [|discriminate]. cbn [option_map] in Hw. some_inv Hw.
        cbn [embed repr] in *. apply andb_true_iff in Hr. destruct Hr as [Hnn Hr].
        cbn [py__encode is_UnsignedType is_SignedType is_FloatType is_DoubleType is_StringType is_EnumType is_StructType is_ArrayType is_DynamicArrayType is_OptionalType].
        apply appendsb_keep. rewrite ?pbind_ret. apply appends_drop.
        cbn [py__encode_optional py_as_num pbind]. rewrite Hnn.
        apply (count_appends 8 1 n buf (fun buffer => pbind (pbind (py_underlying (SOpt st')) _) (fun buffer0 => POk (buffer0, tt)))); [exact HW|].
        intros buf1 HW1. cbn [py_underlying pbind]. apply appendsb_keep. apply appends_drop. apply IH; auto. lia.
    - (* struct *) cbn [den] in Hd. destruct Hd as [s [str [-> [Hget Hd]]]].
      destruct v as [| | | | | |kvs]; cbn [wire] in Hw; try discriminate.
      destruct fuel as [|[|fuel]]; try (cbn [depth] in Hf; lia). cbn [embed repr uniq depth] in *. destruct Hu as [Hnd Hu].
      cbn [py__encode is_UnsignedType is_SignedType is_FloatType is_DoubleType is_StringType is_EnumType is_StructType py_type_name pbind].
      apply appendsb_keep. rewrite ?pbind_ret. apply appends_drop.
      cbn [py__encode_struct]. rewrite Hget. cbn [pbind]. apply appendsb_keep.
      destruct (enc_fields fuel (map2 N fs kvs) fs (sort_by fid (sfields str)) kvs bs IH Hd Hw Hr Hu) as [bss [-> HF]]; [lia| |].
      { apply assoc_map2; [exact Hnd|]. eapply enc_seq_names. exact Hw. }
      apply for_each_appendsb; [exact HF|exact HW].
  Qed.
End Encode.

(* ---------- encode(fcp, name, data) ---------- *)
Lemma drop_keep (r : pyres (pybuf * unit)) :
  pbind (pbind r (fun '(buffer, _) => POk buffer)) (fun buffer => POk (buffer, tt)) = r.
Proof. destruct r as [[b []]|e]; reflexivity. Qed.

Theorem encode_function_refines sc name t v bs fuel :
  den sc t (SStructRef name) -> wire t v = Some bs -> repr t v = true -> uniq t -> (depth t <= S fuel)%nat ->
  PyDispatch.py_encode fuel sc name (embed t v) = POk (bytes_of_bits bs).
Proof.
  intros Hd Hw Hr Hu Hf.
  destruct (encode_refines sc t (SStructRef name) v bs (S fuel) 0%nat [] Hd Hw Hr Hu Hf W_init) as [buf' [Hrun [HW He]]].
  cbn [py__encode is_UnsignedType is_SignedType is_FloatType is_DoubleType is_StringType is_EnumType is_StructType py_type_name pbind] in Hrun.
  rewrite ?pbind_ret, drop_keep in Hrun.
  unfold PyDispatch.py_encode. change py_init with (mk [] (Z.of_nat 0)). rewrite Hrun. cbn [pbind].
  rewrite (get_buffer_refines _ _ _ HW). cbn [pbind]. rewrite He. reflexivity.
Qed.

(* ---------- the closed type tree that Schema.Types.resolve computes is what the run-time lookups denote ---------- *)
Section Resolve.
  Context (sc : schema).
  Context (Hnames : NoDup (map sname (structs sc))).

  Definition env_ok (en : env) : Prop := forall nm r, lookup nm en = Some r -> den sc r (SStructRef nm).

  Lemma find_enum_get es s e : find_enum es s = Some e -> find (fun e0 => String.eqb (ename e0) s) es = Some e.
  Proof.
    unfold find_enum. induction es as [|e0 es IH]; cbn [find]; [discriminate|].
    rewrite (String.eqb_sym (ename e0) s). destruct (String.eqb s (ename e0)); auto.
  Qed.

  Lemma resolve_ty_den en : env_ok en -> forall st r, resolve_ty en (enums sc) st = Some r -> den sc r st.
  Proof.
    intros Hen. induction st as [n|n| | | |s|s|st IH n|st IH|st IH]; intros r H; cbn [resolve_ty] in H.
    1-5: some_inv H; reflexivity.
    - destruct (find_enum (enums sc) s) as [e|] eqn:E; [|discriminate]. cbn [option_map] in H. some_inv H.
      cbn [den]. exists s, e. split; [reflexivity|]. split; [|reflexivity]. unfold py_get_enum. now rewrite (find_enum_get _ _ _ E).
    - now apply Hen.
    - destruct (resolve_ty en (enums sc) st) as [r'|]; [|discriminate]. cbn [option_map] in H. some_inv H. cbn [den]. eauto.
    - destruct (resolve_ty en (enums sc) st) as [r'|]; [|discriminate]. cbn [option_map] in H. some_inv H. cbn [den]. eauto.
    - destruct (resolve_ty en (enums sc) st) as [r'|]; [|discriminate]. cbn [option_map] in H. some_inv H. cbn [den]. eauto.
  Qed.

  Lemma resolve_fields_den en : env_ok en -> forall sfs fs, resolve_fields en (enums sc) sfs = Some fs ->
    Forall2p (fun (f : string * rty) (sf : sfield) => fname sf = fst f /\ den sc (snd f) (fty sf)) fs sfs.
  Proof.
    intros Hen. induction sfs as [|sf sfs IH]; intros fs H; cbn [resolve_fields] in H.
    - some_inv H. exact I.
    - destruct (resolve_ty en (enums sc) (fty sf)) as [r|] eqn:Er; [|discriminate].
      destruct (resolve_fields en (enums sc) sfs) as [rs|] eqn:Ers; [|discriminate]. some_inv H.
      cbn [Forall2p fst snd]. split; [split; [reflexivity|]|]; [now apply (resolve_ty_den en Hen)|now apply IH].
  Qed.

  Lemma find_first_named : forall ss s, NoDup (map sname ss) -> In s ss ->
    find (fun s0 => String.eqb (sname s0) (sname s)) ss = Some s.
  Proof.
    induction ss as [|s0 ss IH]; intros s Hnd Hin; [destruct Hin|]. cbn [map] in Hnd. inversion Hnd as [|? ? Hni Hnd']; subst.
    cbn [find]. destruct Hin as [->|Hin]; [now rewrite String.eqb_refl|].
    destruct (String.eqb (sname s0) (sname s)) eqn:E; [|now apply IH].
    exfalso. apply Hni. apply String.eqb_eq in E. rewrite E. now apply in_map.
  Qed.

  Lemma lookup_app {A : Type} k : forall (l1 l2 : list (string * A)),
    lookup k (l1 ++ l2) = match lookup k l1 with Some a => Some a | None => lookup k l2 end.
  Proof. induction l1 as [|[k' a] l1 IH]; intros l2; cbn [app lookup]; [reflexivity|]. destruct (String.eqb k k'); auto. Qed.

  Lemma build_env_ok : forall ss en, (forall s, In s ss -> In s (structs sc)) -> env_ok en -> env_ok (build_env en (enums sc) ss).
  Proof.
    induction ss as [|s ss IH]; intros en Hin Hen; cbn [build_env]; [exact Hen|].
    destruct (resolve_struct en (enums sc) s) as [r|] eqn:Er; apply IH; try (intros s' Hs'; apply Hin; now right); try exact Hen.
    intros nm r0 Hl. rewrite lookup_app in Hl. destruct (lookup nm en) as [r1|] eqn:El.
    - some_inv Hl. now apply Hen.
    - cbn [lookup] in Hl. destruct (String.eqb nm (sname s)) eqn:E; [|discriminate]. some_inv Hl. apply String.eqb_eq in E. subst nm.
      unfold resolve_struct in Er. destruct (resolve_fields en (enums sc) (sort_by fid (sfields s))) as [fs|] eqn:Ef; [|discriminate].
      cbn [option_map] in Er. some_inv Er. cbn [den]. exists (sname s), s. split; [reflexivity|]. split.
      + unfold py_get_struct. rewrite (find_first_named (structs sc) s Hnames) by (apply Hin; now left). reflexivity.
      + now apply (resolve_fields_den en Hen).
  Qed.

  Theorem resolve_den name t : resolve sc name = Some t -> den sc t (SStructRef name).
  Proof.
    unfold resolve. intros H. refine (build_env_ok (structs sc) [] (fun s Hs => Hs) _ name t H). intros nm r Hl. discriminate Hl.
  Qed.
End Resolve.

(* ---------- the decoder ---------- *)
(* a call that returns (buffer, x) against the model's outcome on the unread bits *)
Definition dec_rel {A B : Type} (img : B -> A) (buf : list Z) (a : nat) (r : pyres (pybuf * A)) (o : outcome (B * bits)) : Prop :=
  match o with
  | Ok (v, rest) => exists a', r = POk (mk buf (Z.of_nat a'), img v) /\ rest = unread buf a' /\ (a <= a' <= 8 * length buf)%nat
  | Raise e => r = PRaise (exn_py e)
  end.

Lemma read_word_facts buf a m : (a <= 8 * length buf)%nat ->
  match Wire.read_word m (unread buf a) with
  | Ok (w, rest) => rest = unread buf (a + m) /\ (a + m <= 8 * length buf)%nat
  | Raise e => e = Overrun
  end.
Proof.
  intros Ha. unfold Wire.read_word. rewrite firstn_length, unread_length. destruct (Nat.ltb _ _) eqn:El; [reflexivity|].
  split; [unfold unread; now rewrite skipn_add|lia].
Qed.

(* a leaf decoder that is "read_word m, then f" (Py/LeafProofs.v states them in this form) *)
Lemma leaf_rel {A : Type} (f : Z -> A) buf a m (r : pyres (pybuf * A)) : (a <= 8 * length buf)%nat ->
  r = match Wire.read_word m (unread buf a) with
      | Ok (w, _) => POk (mk buf (Z.of_nat (a + m)), f w)
      | Raise _ => PRaise PyValueError
      end ->
  dec_rel f buf a r (Wire.read_word m (unread buf a)).
Proof.
  intros Ha ->. pose proof (read_word_facts buf a m Ha) as H. destruct (Wire.read_word m (unread buf a)) as [[w rest]|e]; cbn [dec_rel].
  - exists (a + m)%nat. destruct H as [-> H]. repeat split; lia.
  - now subst e.
Qed.

Lemma pbind_ret_pair {A B : Type} (r : pyres (A * B)) : pbind r (fun '(a, b) => POk (a, b)) = r.
Proof. now destruct r as [[a b]|e]. Qed.

(* sequencing: the code continues from the buffer the first call left, the model from the bits it left *)
Lemma rel_bind {A B A2 B2 : Type} (img : B -> A) (img2 : B2 -> A2) buf a (r : pyres (pybuf * A)) (o : outcome (B * bits))
      (k : pybuf -> A -> pyres (pybuf * A2)) (ko : B -> bits -> outcome (B2 * bits)) :
  dec_rel img buf a r o ->
  (forall x a1, (a <= a1 <= 8 * length buf)%nat -> dec_rel img2 buf a1 (k (mk buf (Z.of_nat a1)) (img x)) (ko x (unread buf a1))) ->
  dec_rel img2 buf a (pbind r (fun '(buffer, y) => k buffer y)) (bind o (fun '(x, rest) => ko x rest)).
Proof.
  intros H Hk. destruct o as [[x rest]|e]; cbn [dec_rel bind] in *.
  - destruct H as [a1 [-> [-> Ha1]]]. cbn [pbind]. specialize (Hk x a1 Ha1).
    destruct (ko x (unread buf a1)) as [[y rest2]|e2]; cbn [dec_rel] in *; [|exact Hk].
    destruct Hk as [a2 [-> [-> Ha2]]]. exists a2. repeat split; lia.
  - now rewrite H.
Qed.

(* wrapping the result *)
Lemma rel_map {A B : Type} (img : B -> A) (g : A -> pyval) (h : B -> value) t buf a (r : pyres (pybuf * A)) (o : outcome (B * bits)) :
  (forall x, embed t (h x) = g (img x)) ->
  dec_rel img buf a r o ->
  dec_rel (embed t) buf a (pbind r (fun '(buffer, x) => POk (buffer, g x))) (bind o (fun '(x, rest) => Ok (h x, rest))).
Proof.
  intros Hg H. destruct o as [[x rest]|e]; cbn [dec_rel bind] in *.
  - destruct H as [a' [-> H]]. exists a'. cbn [pbind]. now rewrite Hg.
  - now rewrite H.
Qed.

Lemma read_word_nonneg m bs w r : Wire.read_word m bs = Ok (w, r) -> 0 <= w.
Proof.
  unfold Wire.read_word. destruct (Nat.ltb _ _); [discriminate|]. intros H. assert (w = Z_of_bits (firstn m bs)) by congruence. subst w.
  apply Z_of_bits_range.
Qed.

Lemma dec_rep_bytes buf : forall k a, (a <= 8 * length buf)%nat ->
  dec_rep (Wire.read_word 8) k (unread buf a) =
  if Nat.leb (a + 8 * k) (8 * length buf) then Ok (map (byte_at buf a) (seq 0 k), unread buf (a + 8 * k)) else Raise Overrun.
Proof.
  induction k as [|k IH]; intros a Ha.
  - cbn [dec_rep seq map]. replace (Nat.leb (a + 8 * 0) (8 * length buf)) with true by lia. now rewrite Nat.mul_0_r, Nat.add_0_r.
  - cbn [dec_rep]. unfold Wire.read_word at 1. rewrite firstn_length, unread_length.
    destruct (Nat.ltb (Nat.min 8 (8 * length buf - a)) 8) eqn:El.
    + cbn [bind]. replace (Nat.leb (a + 8 * S k) (8 * length buf)) with false by lia. reflexivity.
    + cbn [bind]. replace (skipn 8 (unread buf a)) with (unread buf (a + 8)) by (unfold unread; now rewrite skipn_add).
      rewrite IH by lia.
      replace (Nat.leb (a + 8 + 8 * k) (8 * length buf)) with (Nat.leb (a + 8 * S k) (8 * length buf)) by (f_equal; lia).
      destruct (Nat.leb (a + 8 * S k) (8 * length buf)); [|reflexivity]. cbn [bind seq map]. f_equal. f_equal.
      * f_equal; [unfold byte_at; now rewrite Nat.mul_0_r, Nat.add_0_r|].
        rewrite <- seq_shift, map_map. apply map_ext. intros j. unfold byte_at. do 3 f_equal. lia.
      * f_equal. lia.
Qed.

Lemma dict_set_fresh : forall acc k v, ~ In k (map fst acc) -> dict_set acc k v = acc ++ [(k, v)].
Proof.
  induction acc as [|[k' v'] acc IH]; intros k v Hni; [reflexivity|]. cbn [dict_set app]. cbn [map fst In] in Hni.
  destruct (String.eqb k k') eqn:E; [apply String.eqb_eq in E; subst; tauto|]. f_equal. apply IH. tauto.
Qed.

Section Decode.
  Context (sc : schema).

  Definition dec_spec (t : rty) : Prop :=
    forall st fuel buf a, den sc t st -> uniq t -> (depth t <= fuel)%nat -> (a <= 8 * length buf)%nat ->
      dec_rel (embed t) buf a (py__decode fuel (mk buf (Z.of_nat a)) sc st) (gdec py_sdec t (unread buf a)).

  (* n iterations of  data.append(_decode(buffer, fcp, underlying))  against dec_rep *)
  Lemma dec_loop t st' fuel (IH : dec_spec t) : den sc t st' -> uniq t -> (depth t <= fuel)%nat ->
    forall k i buf a acc, (a <= 8 * length buf)%nat ->
      dec_rel (fun vs => (acc ++ map (embed t) vs)%list) buf a
        (for_nat k i (fun _ '(buffer, data) => pbind (py__decode fuel buffer sc st') (fun '(buffer0, t3) => POk (buffer0, (data ++ [t3])%list)))
                 (mk buf (Z.of_nat a), acc))
        (dec_rep (gdec py_sdec t) k (unread buf a)).
  Proof.
    intros Hd Hu Hf. induction k as [|k IHk]; intros i buf a acc Ha.
    - cbn [for_nat dec_rep dec_rel map]. exists a. rewrite app_nil_r. repeat split; lia.
    - cbn [for_nat dec_rep]. pose proof (IH st' fuel buf a Hd Hu Hf Ha) as H1.
      destruct (gdec py_sdec t (unread buf a)) as [[v rest]|e]; cbn [dec_rel bind] in *.
      + destruct H1 as [a1 [-> [-> Ha1]]]. cbn [pbind].
        specialize (IHk (i + 1) buf a1 (acc ++ [embed t v])%list).
        destruct (dec_rep (gdec py_sdec t) k (unread buf a1)) as [[vs rest2]|e2]; cbn [dec_rel bind] in *.
        * destruct IHk as [a2 [Hr2 [-> Ha2]]]; [lia|]. exists a2. rewrite Hr2. cbn [map]. rewrite <- app_assoc. repeat split; lia.
        * apply IHk. lia.
      + rewrite H1. reflexivity.
  Qed.

  Let G := (fun (f : string * rty) (b : bits) => bind (gdec py_sdec (snd f) b) (fun '(v, r) => Ok ((fst f, v), r))).
  Let N := (fun (f : string * rty) (kv : string * value) => (fst kv, embed (snd f) (snd kv))).

  Lemma dec_fields fuel : forall fs sfs buf a acc,
    Forall (fun f => dec_spec (snd f)) fs ->
    Forall2p (fun (f : string * rty) (sf : sfield) => fname sf = fst f /\ den sc (snd f) (fty sf)) fs sfs ->
    NoDup (map fst acc ++ map fst fs) ->
    fold_right (fun f P => uniq (snd f) /\ P) True fs ->
    (fold_right (fun f m => Nat.max (depth (snd f)) m) 0%nat fs <= fuel)%nat ->
    (a <= 8 * length buf)%nat ->
    dec_rel (fun kvs => (acc ++ map2 N fs kvs)%list) buf a
      (for_each sfs (fun field '(buffer, data) => pbind (py__decode fuel buffer sc (fty field))
                                                   (fun '(buffer0, t2) => POk (buffer0, dict_set data (fname field) t2)))
                (mk buf (Z.of_nat a), acc))
      (dec_seq G fs (unread buf a)).
  Proof.
    induction fs as [|f fs IH]; intros sfs buf a acc HIH Hd Hnd Hu Hf Ha.
    - destruct sfs; [|destruct Hd]. cbn [for_each dec_seq dec_rel map2]. exists a. rewrite app_nil_r. repeat split; lia.
    - destruct sfs as [|sf sfs]; [destruct Hd|]. cbn [Forall2p] in Hd. destruct Hd as [[Hname Hden] Hd].
      inversion HIH as [|? ? Hspec HIH']; subst. cbn [fold_right] in Hu, Hf. destruct Hu as [Hu1 Hu].
      cbn [for_each dec_seq]. unfold G at 1.
      pose proof (Hspec (fty sf) fuel buf a Hden Hu1 ltac:(lia) Ha) as H1.
      destruct (gdec py_sdec (snd f) (unread buf a)) as [[v rest]|e]; cbn [dec_rel bind] in *.
      + destruct H1 as [a1 [-> [-> Ha1]]]. cbn [pbind]. rewrite Hname.
        cbn [map] in Hnd. rewrite dict_set_fresh.
        2:{ apply NoDup_remove_2 in Hnd. intros Hin. apply Hnd. apply in_or_app. now left. }
        specialize (IH sfs buf a1 (acc ++ [(fst f, embed (snd f) v)])%list HIH' Hd).
        destruct (dec_seq G fs (unread buf a1)) as [[kvs rest2]|e2]; cbn [dec_rel bind] in *.
        * destruct IH as [a2 [Hr2 [-> Ha2]]]; try assumption; try lia.
          { rewrite map_app. cbn [map fst]. rewrite <- app_assoc. exact Hnd. }
          exists a2. rewrite Hr2. cbn [map2]. unfold N at 2. cbn [fst snd]. rewrite <- app_assoc. repeat split; lia.
        * apply IH; try assumption; try lia. rewrite map_app. cbn [map fst]. rewrite <- app_assoc. exact Hnd.
      + rewrite H1. reflexivity.
  Qed.

  Ltac py_if := cbn [py__decode is_UnsignedType is_SignedType is_FloatType is_DoubleType is_StringType is_EnumType is_StructType
                     is_ArrayType is_DynamicArrayType is_OptionalType py_as_num py_type_name py_underlying py_array_size pbind].

  Theorem decode_refines : forall t, dec_spec t.
  Proof.
    induction t as [m|m| | | |w|t n0 IH|t IH|t IH|fs IH] using rty_ind2; intros st fuel buf a Hd Hu Hf Ha;
      (destruct fuel as [|fuel]; [cbn [depth] in Hf; lia|]).
    - (* unsigned *) cbn [den] in Hd. subst st. py_if. cbn [gdec].
      apply (rel_map (fun w => w) PInt VInt); [reflexivity|]. apply leaf_rel; [exact Ha|]. apply (decode_unsigned_is_read_word buf a m).
    - (* signed *) cbn [den] in Hd. subst st. py_if. cbn [gdec].
      apply (rel_map (py_sdec m) PInt (fun w => VInt (py_sdec m w))); [reflexivity|]. apply leaf_rel; [exact Ha|].
      apply (decode_signed_is_read_word_then_sdec buf a m).
    - cbn [den] in Hd. subst st. py_if. cbn [gdec].
      apply (rel_map (fun w => w) PFlt VBits); [reflexivity|]. apply leaf_rel; [exact Ha|]. now apply decode_float_is_read_word.
    - cbn [den] in Hd. subst st. py_if. cbn [gdec].
      apply (rel_map (fun w => w) PFlt VBits); [reflexivity|]. apply leaf_rel; [exact Ha|]. now apply decode_double_is_read_word.
    - (* str *) cbn [den] in Hd. subst st. py_if. rewrite pbind_ret_pair. unfold py__decode_str. cbn [py_as_num pbind gdec].
      apply (rel_bind (fun w : Z => w) (embed RStr) buf a _ _
               (fun buffer len => pbind (py_read_bytes buffer len) (fun '(buffer0, t3) => pbind (py_bytearray t3) (fun t4 => pbind (py_decode_ascii t4) (fun t5 => POk (buffer0, t5)))))
               (fun len r => bind (dec_rep (Wire.read_word 8) (Z.to_nat len) r) (fun '(cs, r') => if forallb (fun c => c <? 128) cs then Ok (VStr cs, r') else Raise BadAscii))).
      + apply leaf_rel; [exact Ha|]. apply (decode_unsigned_is_read_word buf a 32).
      + intros len a1 Ha1.
        assert (Hlen : py_read_bytes (mk buf (Z.of_nat a1)) len = py_read_bytes (mk buf (Z.of_nat a1)) (Z.of_nat (Z.to_nat len))).
        { unfold py_read_bytes, for_range. now rewrite Nat2Z.id. }
        rewrite Hlen, read_bytes_refines, dec_rep_bytes by lia.
        destruct (Nat.leb (a1 + 8 * Z.to_nat len) (8 * length buf)) eqn:El; cbn [pbind bind dec_rel]; [|reflexivity].
        unfold py_bytearray. rewrite bytes_in_range. cbn [pbind]. unfold py_decode_ascii.
        destruct (forallb (fun c => c <? 128) (map (byte_at buf a1) (seq 0 (Z.to_nat len)))); cbn [pbind dec_rel]; [|reflexivity].
        exists (a1 + 8 * Z.to_nat len)%nat. cbn [embed]. repeat split; lia.
    - (* enum *) cbn [den] in Hd. destruct Hd as [s [e [-> [He ->]]]]. py_if. unfold py__decode_enum. cbn [py_type_name pbind]. rewrite He. cbn [pbind gdec].
      unfold enum_packed_size. rewrite pbind_ret_pair.
      apply (rel_map (fun w => w) PInt VInt); [reflexivity|]. apply leaf_rel; [exact Ha|]. apply read_word_refines.
    - (* array *) cbn [den] in Hd. destruct Hd as [st' [-> Hd]]. destruct fuel as [|fuel]; [cbn [depth] in Hf; lia|]. cbn [uniq depth] in *.
      py_if. rewrite pbind_ret_pair. cbn [py__decode_array py_array_size py_underlying pbind gdec]. unfold for_range. rewrite Nat2Z.id.
      apply (rel_map (fun vs => ([] ++ map (embed t) vs)%list) PList VList); [reflexivity|].
      apply (dec_loop t st' fuel IH Hd Hu); [lia|exact Ha].
    - (* dynamic array *) cbn [den] in Hd. destruct Hd as [st' [-> Hd]]. destruct fuel as [|fuel]; [cbn [depth] in Hf; lia|]. cbn [uniq depth] in *.
      py_if. rewrite pbind_ret_pair. cbn [py__decode_dynamic_array py_as_num py_underlying pbind gdec].
      apply (rel_bind (fun w : Z => w) (embed (RDyn t)) buf a _ _
               (fun buffer len => pbind (for_range len _ (buffer, [])) (fun '(buffer0, data) => POk (buffer0, PList data)))
               (fun len r => bind (dec_rep (gdec py_sdec t) (Z.to_nat len) r) (fun '(vs, r') => Ok (VList vs, r')))).
      + apply leaf_rel; [exact Ha|]. apply (decode_unsigned_is_read_word buf a 32).
      + intros len a1 Ha1. unfold for_range.
        apply (rel_map (fun vs => ([] ++ map (embed t) vs)%list) PList VList); [reflexivity|].
        apply (dec_loop t st' fuel IH Hd Hu); lia.
    - (* optional *) cbn [den] in Hd. destruct Hd as [st' [-> Hd]]. destruct fuel as [|fuel]; [cbn [depth] in Hf; lia|]. cbn [uniq depth] in *.
      py_if. rewrite pbind_ret_pair. cbn [py__decode_optional py_as_num py_underlying pbind gdec].
      apply (rel_bind (fun w : Z => w) (embed (ROpt t)) buf a _ _
               (fun buffer w => if negb (w =? 0) then pbind (py__decode fuel buffer sc st') (fun '(buffer0, t4) => POk (buffer0, t4)) else POk (buffer, PNone))
               (fun w r => if w =? 0 then Ok (VNone, r) else bind (gdec py_sdec t r) (fun '(v, r') => Ok (VSome v, r')))).
      + apply leaf_rel; [exact Ha|]. apply (decode_unsigned_is_read_word buf a 8).
      + intros w a1 Ha1. destruct (w =? 0); cbn [negb].
        * cbn [dec_rel]. exists a1. repeat split; lia.
        * apply (rel_map (embed t) (fun x => x) VSome); [reflexivity|]. apply IH; auto; lia.
    - (* struct *) cbn [den] in Hd. destruct Hd as [s [str [-> [Hget Hd]]]]. destruct fuel as [|fuel]; [cbn [depth] in Hf; lia|]. cbn [uniq depth] in *.
      destruct Hu as [Hnd Hu]. py_if. rewrite pbind_ret_pair. cbn [py__decode_struct]. rewrite Hget. cbn [pbind gdec].
      apply (rel_map (fun kvs => ([] ++ map2 N fs kvs)%list) PDict VStruct); [reflexivity|].
      apply (dec_fields fuel fs (sort_by fid (sfields str)) buf a [] IH Hd); auto. lia.
  Qed.
End Decode.

Lemma Forall_firstn' {A : Type} (P : A -> Prop) : forall k l, Forall P l -> Forall P (firstn k l).
Proof. induction k as [|k IH]; intros l H; [constructor|]. destruct H; cbn [firstn]; constructor; auto. Qed.

(* ---------- decode(fcp, name, data) ---------- *)
Theorem decode_function_refines sc name t data fuel :
  den sc t (SStructRef name) -> uniq t -> (depth t <= S fuel)%nat -> Forall byte_ok data ->
  PyDispatch.py_decode fuel sc name data =
  match gdecode_bytes py_sdec t data with Ok v => POk (embed t v) | Raise e => PRaise (exn_py e) end.
Proof.
  intros Hd Hu Hf Hok. unfold PyDispatch.py_decode. destruct (decode_init data Hok) as [self [Hpush [Hbuf _]]].
  rewrite Hpush. cbn [pbind]. destruct self as [b ba]. cbn [b_buffer] in Hbuf. subst b. unfold set_bitaddr. cbn [b_buffer].
  pose proof (decode_refines sc t (SStructRef name) (S fuel) data 0%nat Hd Hu Hf ltac:(lia)) as H.
  cbn [py__decode is_UnsignedType is_SignedType is_FloatType is_DoubleType is_StringType is_EnumType is_StructType py_type_name pbind] in H.
  rewrite pbind_ret_pair in H. unfold gdecode_bytes. unfold unread in H. cbn [skipn] in H.
  change (mk data (Z.of_nat 0)) with {| b_buffer := data; b_bitaddr := 0 |} in H.
  destruct (gdec py_sdec t (bits_of_bytes data)) as [[v rest]|e]; cbn [dec_rel bind] in *.
  - destruct H as [a' [-> _]]. reflexivity.
  - now rewrite H.
Qed.

(* ---------- the translated serde.py against the hand-written model Py.PySerde (and so against every theorem about it) ---------- *)
Section Model.
  Context (sc : schema).
  Context (Hnames : NoDup (map sname (structs sc))).

  Theorem translated_encode_is_model name t v bytes fuel :
    resolve sc name = Some t -> uniq t -> repr t v = true -> (depth t <= S fuel)%nat ->
    PySerde.py_encode sc name v = Some bytes ->
    PyDispatch.py_encode fuel sc name (embed t v) = POk bytes.
  Proof.
    intros Hr Hu Hrp Hf He. unfold PySerde.py_encode in He. rewrite Hr in He. unfold py_enc in He.
    destruct (wire t v) as [bs|] eqn:Ew; cbn [option_map] in He; [|discriminate]. some_inv He.
    apply encode_function_refines; auto. now apply resolve_den.
  Qed.

  Theorem translated_encode_is_wire name t v bs fuel :
    resolve sc name = Some t -> uniq t -> repr t v = true -> (depth t <= S fuel)%nat -> wire t v = Some bs ->
    PyDispatch.py_encode fuel sc name (embed t v) = POk (bytes_of_bits bs).
  Proof. intros Hr Hu Hrp Hf Hw. apply encode_function_refines; auto. now apply resolve_den. Qed.

  Theorem translated_decode_is_model name t data fuel :
    resolve sc name = Some t -> uniq t -> (depth t <= S fuel)%nat -> Forall byte_ok data ->
    exists o, PySerde.py_decode sc name data = Some o /\
              PyDispatch.py_decode fuel sc name data = match o with Ok v => POk (embed t v) | Raise e => PRaise (exn_py e) end.
  Proof.
    intros Hr Hu Hf Hok. exists (gdecode_bytes py_sdec t data). split; [unfold PySerde.py_decode; now rewrite Hr|].
    apply decode_function_refines; auto. now apply resolve_den.
  Qed.

  (* C01 for the translated code: decode(encode(x)) = x on the Python image of every in-range value without a signed minimum *)
  Theorem translated_roundtrip name t v fuel :
    resolve sc name = Some t -> uniq t -> repr t v = true -> (depth t <= S fuel)%nat -> has_type_gen py_okS t v = true ->
    exists bytes, PyDispatch.py_encode fuel sc name (embed t v) = POk bytes /\
                  PyDispatch.py_decode fuel sc name bytes = POk (embed t v).
  Proof.
    intros Hr Hu Hrp Hf Hty.
    destruct (wire_total t v (has_type_weaken py_okS t v Hty)) as [bs Hb].
    assert (He : PySerde.py_encode sc name v = Some (bytes_of_bits bs)).
    { unfold PySerde.py_encode, py_enc. now rewrite Hr, Hb. }
    set (bytes := bytes_of_bits bs) in *. exists bytes.
    split; [now apply (translated_encode_is_model name t v bytes fuel)|].
    pose proof (py_roundtrip_partial_lemma sc name t v bytes Hr Hty He) as Hd.
    assert (Hok : Forall byte_ok bytes).
    { unfold PySerde.py_encode in He. rewrite Hr in He. destruct (py_enc t v); cbn [option_map] in He; [|discriminate]. some_inv He. apply bytes_of_bits_ok. }
    destruct (translated_decode_is_model name t bytes fuel Hr Hu Hf Hok) as [o [Ho Hrun]]. rewrite Hd in Ho. some_inv Ho. exact Hrun.
  Qed.

  (* C16 for the translated code: a strict byte prefix of an encoding raises ValueError("buffer overrun") *)
  Theorem translated_prefix_raises name t v bytes k fuel :
    resolve sc name = Some t -> uniq t -> (depth t <= S fuel)%nat -> has_type t v = true ->
    PySerde.py_encode sc name v = Some bytes -> (k < length bytes)%nat ->
    PyDispatch.py_decode fuel sc name (firstn k bytes) = PRaise PyValueError.
  Proof.
    intros Hr Hu Hf Hty He Hk.
    pose proof (py_decode_prefix_fails_lemma sc name t v bytes k Hr Hty He Hk) as Hd.
    assert (Hok : Forall byte_ok (firstn k bytes)).
    { apply Forall_firstn'. unfold PySerde.py_encode in He. rewrite Hr in He. destruct (py_enc t v); cbn [option_map] in He; [|discriminate]. some_inv He. apply bytes_of_bits_ok. }
    destruct (translated_decode_is_model name t (firstn k bytes) fuel Hr Hu Hf Hok) as [o [Ho Hrun]]. rewrite Hd in Ho. some_inv Ho. exact Hrun.
  Qed.
End Model.
