(* The Python run-time the translated dispatch layer of serde.py (gen/PyDispatch.v) runs on: dynamically typed values, the type
   objects of specs/type.py (as the syntactic types [sty]), the schema lookups of FcpV2, dicts and lists.  Hand-written; what it
   assumes of Python is listed in DESIGN (trusted base).  On ILL-TYPED data some operations raise TypeError here where Python
   would go on (iterating a dict, packing an int as a float): the theorems concern well-typed values only.  No proofs here. *)
From Coq Require Import String ZArith List Bool.
From FcpV Require Import Schema.Types Py.BufferLib.
Import ListNotations.
Open Scope Z_scope.

(* a Python value as the codec sees it: int, float (as its IEEE bit pattern), str (character codes), list, None, dict with
   string keys (in insertion order) *)
Inductive pyval :=
| PInt (z : Z) | PFlt (bits : Z) | PStr (cs : list Z) | PList (l : list pyval) | PNone | PDict (kvs : list (string * pyval)).

Definition as_int (v : pyval) : pyres Z := match v with PInt z => POk z | _ => PRaise PyTypeError end.
Definition as_flt (v : pyval) : pyres Z := match v with PFlt b => POk b | _ => PRaise PyTypeError end.
Definition py_is_none (v : pyval) : bool := match v with PNone => true | _ => false end.

(* len(v) *)
Definition py_len_val (v : pyval) : pyres Z :=
  match v with
  | PStr cs => POk (Z.of_nat (length cs))
  | PList l => POk (Z.of_nat (length l))
  | PDict kvs => POk (Z.of_nat (length kvs))
  | _ => PRaise PyTypeError
  end.

(* for x in v: a str yields its one-character strings, a list its elements *)
Definition py_iter (v : pyval) : pyres (list pyval) :=
  match v with
  | PStr cs => POk (map (fun c => PStr [c]) cs)
  | PList l => POk l
  | _ => PRaise PyTypeError
  end.

(* ord(x) *)
Definition py_ord (v : pyval) : pyres Z := match v with PStr [c] => POk c | _ => PRaise PyTypeError end.

(* v[i] for an int i (0 <= i: the only indices the codec forms come from range()) *)
Definition py_index (v : pyval) (i : Z) : pyres pyval :=
  match v with
  | PList l => if (0 <=? i) && (i <? Z.of_nat (length l)) then POk (nth (Z.to_nat i) l PNone) else PRaise PyIndexError
  | PStr cs => if (0 <=? i) && (i <? Z.of_nat (length cs)) then POk (PStr [nth (Z.to_nat i) cs 0]) else PRaise PyIndexError
  | _ => PRaise PyTypeError
  end.

Fixpoint assoc {A : Type} (k : string) (l : list (string * A)) : option A :=
  match l with
  | [] => None
  | (k', a) :: l' => if String.eqb k k' then Some a else assoc k l'
  end.

(* v[k] for a str k *)
Definition py_getkey (v : pyval) (k : string) : pyres pyval :=
  match v with
  | PDict kvs => match assoc k kvs with Some x => POk x | None => PRaise PyKeyError end
  | _ => PRaise PyTypeError
  end.

(* d[k] = v on a dict: the value of an existing key is replaced in place, a new key goes last *)
Fixpoint dict_set (kvs : list (string * pyval)) (k : string) (v : pyval) : list (string * pyval) :=
  match kvs with
  | [] => [(k, v)]
  | (k', v') :: kvs' => if String.eqb k k' then (k', v) :: kvs' else (k', v') :: dict_set kvs' k v
  end.

(* bytearray.decode("ascii") *)
Definition py_decode_ascii (l : list Z) : pyres pyval :=
  if forallb (fun c => c <? 128) l then POk (PStr l) else PRaise PyUnicodeError.

(* ---- FcpV2.get_struct(name).unwrap() / get_enum(name).unwrap(): first declaration of that name; Nothing().unwrap() raises ---- *)
Definition py_get_struct (fcp : schema) (name : string) : pyres sstruct :=
  match find (fun s => String.eqb (sname s) name) (structs fcp) with Some s => POk s | None => PRaise PyUnwrapError end.
Definition py_get_enum (fcp : schema) (name : string) : pyres senum :=
  match find (fun e => String.eqb (ename e) name) (enums fcp) with Some e => POk e | None => PRaise PyUnwrapError end.

(* Enum.get_packed_size() (specs/enum.py; modelled in Schema.Types, validated by the correspondence of C04/C01) *)
Definition enum_packed_size (e : senum) : Z := Z.of_nat (packed_size (enum_max e)).

(* ---- type objects (specs/type.py): isinstance tests and attributes; a missing attribute is AttributeError ---- *)
Definition is_UnsignedType (t : sty) : bool := match t with SU _ => true | _ => false end.
Definition is_SignedType (t : sty) : bool := match t with SI _ => true | _ => false end.
Definition is_FloatType (t : sty) : bool := match t with SF32 => true | _ => false end.
Definition is_DoubleType (t : sty) : bool := match t with SF64 => true | _ => false end.
Definition is_StringType (t : sty) : bool := match t with SStr => true | _ => false end.
Definition is_EnumType (t : sty) : bool := match t with SEnumRef _ => true | _ => false end.
Definition is_StructType (t : sty) : bool := match t with SStructRef _ => true | _ => false end.
Definition is_ArrayType (t : sty) : bool := match t with SArr _ _ => true | _ => false end.
Definition is_DynamicArrayType (t : sty) : bool := match t with SDyn _ => true | _ => false end.
Definition is_OptionalType (t : sty) : bool := match t with SOpt _ => true | _ => false end.

Definition py_type_name (t : sty) : pyres string :=
  match t with SEnumRef s | SStructRef s => POk s | _ => PRaise PyAttributeError end.
Definition py_underlying (t : sty) : pyres sty :=
  match t with SArr u _ | SDyn u | SOpt u => POk u | _ => PRaise PyAttributeError end.
Definition py_array_size (t : sty) : pyres Z :=
  match t with SArr _ n => POk (Z.of_nat n) | _ => PRaise PyAttributeError end.
(* the numeric type objects the leaf codecs take: get_length() = int(name[1:]) *)
Definition py_as_num (t : sty) : pyres pynum :=
  match t with
  | SU n | SI n => POk {| get_length := Z.of_nat n |}
  | SF32 => POk {| get_length := 32 |}
  | SF64 => POk {| get_length := 64 |}
  | _ => PRaise PyAttributeError
  end.
