(* The hypotheses of the refinement theorems of Py/DispatchProofs.v are satisfiable, and the translated serde.py computes on a
   concrete schema (nested struct inside a dynamic array, enum, optional array of sub-byte elements, string, float, field ids
   out of declaration order). *)
From Coq Require Import String ZArith List Bool Lia.
From FcpV Require Import Base.Bits Schema.Types Wire.Wire Py.PySerde Py.BufferLib Py.DispatchLib Py.DispatchDefs gen.PyBuffer gen.PyLeaf
  gen.PyDispatch Py.DispatchProofs.
Import ListNotations.
Open Scope Z_scope.
Local Open Scope string_scope.

Definition ex_sc : schema :=
  {| structs :=
       [ {| sname := "In"; sfields := [ {| fname := "x"; fid := 1; fty := SI 5; funit := None |};
                                        {| fname := "e"; fid := 0; fty := SEnumRef "E"; funit := None |} ] |};
         {| sname := "M"; sfields := [ {| fname := "name"; fid := 2; fty := SStr; funit := None |};
                                       {| fname := "items"; fid := 0; fty := SDyn (SStructRef "In"); funit := None |};
                                       {| fname := "opt"; fid := 1; fty := SOpt (SArr (SU 3) 2); funit := None |};
                                       {| fname := "f"; fid := 3; fty := SF32; funit := None |} ] |} ];
     enums := [ {| ename := "E"; evals := [("A", 0); ("B", 5)] |} ] |}.

Definition ex_t : rty :=
  RStruct [("items", RDyn (RStruct [("e", REnum 3); ("x", RI 5)])); ("opt", ROpt (RArr (RU 3) 2)); ("name", RStr); ("f", RF32)].

Definition ex_v : value :=
  VStruct [("items", VList [VStruct [("e", VInt 5); ("x", VInt (-3))]; VStruct [("e", VInt 0); ("x", VInt 15)]]);
           ("opt", VSome (VList [VInt 7; VInt 0])); ("name", VStr [104; 105]); ("f", VBits 1065353216)].

Example hypotheses_nonvacuous :
  NoDup (map sname (structs ex_sc)) /\ resolve ex_sc "M" = Some ex_t /\ uniq ex_t /\ repr ex_t ex_v = true /\
  (depth ex_t <= S 8)%nat /\ has_type_gen py_okS ex_t ex_v = true.
Proof.
  split; [repeat constructor; cbn; intuition discriminate|].
  split; [vm_compute; reflexivity|].
  split; [cbn; repeat split; repeat constructor; cbn; intuition discriminate|].
  split; [vm_compute; reflexivity|]. split; [vm_compute; lia|vm_compute; reflexivity].
Qed.

(* the translated encode/decode on that value, evaluated *)
Example translated_code_runs :
  exists bytes, PyDispatch.py_encode 8 ex_sc "M" (embed ex_t ex_v) = POk bytes /\ PyDispatch.py_decode 8 ex_sc "M" bytes = POk (embed ex_t ex_v)
                /\ length bytes = 18%nat.
Proof. eexists. split; [vm_compute; reflexivity|]. split; vm_compute; reflexivity. Qed.
