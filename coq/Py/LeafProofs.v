(* The leaf codecs of serde.py (gen/PyLeaf.v, translated on every run) are the wire model's leaves:
   unsigned/signed encode = append bits_of_Z; unsigned decode = read_word; signed decode = read_word then py_sdec
   (the hand-written sign reconstruction of Py/PySerde.v, which is thereby tied to the source); float/double = the 32/64-bit word. *)
From Coq Require Import ZArith List Bool Lia Arith ZifyNat ZifyBool.
From FcpV Require Import Base.Bits Base.BitsProofs Wire.Wire Wire.WireProofs Py.PySerde Py.PySerdeProofs Py.BufferLib gen.PyBuffer Py.BufferProofs gen.PyLeaf.
Import ListNotations.
Open Scope Z_scope.
Ltac Zify.zify_post_hook ::= Z.div_mod_to_equations.

Definition num (n : nat) : pynum := {| get_length := Z.of_nat n |}.

(* ---- integers ---- *)

Theorem encode_unsigned_appends n buf m z :
  W n buf ->
  exists buf', py__encode_builtin_unsigned (mk buf (Z.of_nat n)) (num m) z = POk (mk buf' (Z.of_nat (n + m)), tt) /\
               W (n + m) buf' /\ enc_abs buf' (n + m) = enc_abs buf n ++ bits_of_Z m z.
Proof.
  intros HW. destruct (push_word_refines n buf z m HW) as [buf' [Hrun H]].
  exists buf'. split; [|exact H]. unfold py__encode_builtin_unsigned. cbn [num get_length]. now rewrite Hrun.
Qed.

Theorem encode_signed_appends n buf m z :
  W n buf ->
  exists buf', py__encode_builtin_signed (mk buf (Z.of_nat n)) (num m) z = POk (mk buf' (Z.of_nat (n + m)), tt) /\
               W (n + m) buf' /\ enc_abs buf' (n + m) = enc_abs buf n ++ bits_of_Z m z.
Proof.
  intros HW. destruct (push_word_refines n buf z m HW) as [buf' [Hrun H]].
  exists buf'. split; [|exact H]. unfold py__encode_builtin_signed. cbn [num get_length]. now rewrite Hrun.
Qed.

Theorem decode_unsigned_is_read_word buf a m :
  py__decode_builtin_unsigned (mk buf (Z.of_nat a)) (num m) =
  match Wire.read_word m (unread buf a) with
  | Ok (w, _) => POk (mk buf (Z.of_nat (a + m)), w)
  | Raise _ => PRaise PyValueError
  end.
Proof.
  unfold py__decode_builtin_unsigned. cbn [num get_length]. destruct (read_word_refines buf a m) as [Hrw _]. rewrite Hrw.
  destruct (Wire.read_word m (unread buf a)) as [[w rest]|e]; reflexivity.
Qed.

(* the translated comparison  word > 2**length / 2  is the one the hand-written py_sdec uses *)
Lemma gt_truediv_pow2 w (n : nat) : py_gt_truediv w (2 ^ Z.of_nat n) 2 = (2 ^ Z.of_nat n / 2 <? w).
Proof.
  unfold py_gt_truediv. change (0 <? 2) with true. cbv iota.
  destruct n as [|n].
  - change (2 ^ Z.of_nat 0) with 1. change (1 / 2) with 0. lia.
  - rewrite Nat2Z.inj_succ, Z.pow_succ_r by lia. replace (2 * 2 ^ Z.of_nat n / 2) with (2 ^ Z.of_nat n) by (rewrite Z.mul_comm, Z.div_mul; lia).
    lia.
Qed.

Theorem decode_signed_is_read_word_then_sdec buf a m :
  py__decode_builtin_signed (mk buf (Z.of_nat a)) (num m) =
  match Wire.read_word m (unread buf a) with
  | Ok (w, _) => POk (mk buf (Z.of_nat (a + m)), py_sdec m w)
  | Raise _ => PRaise PyValueError
  end.
Proof.
  unfold py__decode_builtin_signed. cbn [num get_length]. destruct (read_word_refines buf a m) as [Hrw _]. rewrite Hrw.
  destruct (Wire.read_word m (unread buf a)) as [[w rest]|e]; [|reflexivity].
  cbn [pbind]. rewrite gt_truediv_pow2. unfold py_sdec. cbv zeta.
  destruct (2 ^ Z.of_nat m / 2 <? w); reflexivity.
Qed.

(* the known finding signed-min, read off the translated source *)
Lemma decode_signed_min_positive :
  forall m, (1 <= m)%nat -> forall buf a w rest,
    Wire.read_word m (unread buf a) = Ok (w, rest) -> w = 2 ^ (Z.of_nat m - 1) ->
    py__decode_builtin_signed (mk buf (Z.of_nat a)) (num m) = POk (mk buf (Z.of_nat (a + m)), 2 ^ (Z.of_nat m - 1)).
Proof.
  intros m Hm buf a w rest Hr ->. rewrite decode_signed_is_read_word_then_sdec, Hr. do 2 f_equal.
  pose proof (py_sdec_signed_min m Hm) as H.
  assert (Hx : 0 < 2 ^ (Z.of_nat m - 1)) by (apply Z.pow_pos_nonneg; lia).
  assert (Hmod : (- 2 ^ (Z.of_nat m - 1)) mod 2 ^ Z.of_nat m = 2 ^ (Z.of_nat m - 1)).
  { replace (Z.of_nat m) with (Z.succ (Z.of_nat m - 1)) at 2 by lia. rewrite Z.pow_succ_r by lia.
    symmetry. apply (Z.mod_unique _ _ (-1)); lia. }
  rewrite Hmod in H. exact H.
Qed.

(* ---- floats: the 4 / 8 little-endian bytes of the pattern are its 32 / 64 bits ---- *)

Lemma bits_of_Z_app : forall a b z, bits_of_Z (a + b) z = bits_of_Z a z ++ bits_of_Z b (z / 2 ^ Z.of_nat a).
Proof.
  induction a as [|a IH]; intros b z.
  - cbn [Nat.add bits_of_Z app]. change (2 ^ Z.of_nat 0) with 1. now rewrite Z.div_1_r.
  - cbn [Nat.add bits_of_Z app]. f_equal. rewrite IH. f_equal. f_equal.
    rewrite Z.div2_div. rewrite Z.div_div by lia. f_equal. rewrite Nat2Z.inj_succ, Z.pow_succ_r by lia. reflexivity.
Qed.

Lemma le_bytes_bits : forall k z, word_bits (map (fun b => (b, 8%nat)) (le_bytes k z)) = bits_of_Z (8 * k) z.
Proof.
  induction k as [|k IH]; intros z; [reflexivity|].
  cbn [le_bytes map word_bits flat_map fst snd]. fold (word_bits (map (fun b => (b, 8%nat)) (le_bytes k (z / 256)))).
  rewrite IH. replace (8 * S k)%nat with (8 + 8 * k)%nat by lia. rewrite bits_of_Z_app.
  change (2 ^ Z.of_nat 8) with 256. f_equal. change 256 with (2 ^ Z.of_nat 8). apply bits_of_Z_mod.
Qed.

Theorem encode_float_appends n buf t bits :
  W n buf ->
  exists buf', py__encode_builtin_float (mk buf (Z.of_nat n)) t bits = POk (mk buf' (Z.of_nat (n + 32)), tt) /\
               W (n + 32) buf' /\ enc_abs buf' (n + 32) = enc_abs buf n ++ bits_of_Z 32 bits.
Proof.
  intros HW. unfold py__encode_builtin_float, py_struct_pack_f. rewrite push_bytes_push_all.
  destruct (push_all_refines (map (fun b => (b, 8%nat)) (le_bytes 4 bits)) n buf HW) as [buf' [Hrun [HW' Habs]]].
  rewrite le_bytes_bits in *. rewrite bits_of_Z_length in *. change (8 * 4)%nat with 32%nat in *.
  rewrite Hrun. cbn [pbind]. exists buf'. auto.
Qed.

Theorem encode_double_appends n buf t bits :
  W n buf ->
  exists buf', py__encode_builtin_double (mk buf (Z.of_nat n)) t bits = POk (mk buf' (Z.of_nat (n + 64)), tt) /\
               W (n + 64) buf' /\ enc_abs buf' (n + 64) = enc_abs buf n ++ bits_of_Z 64 bits.
Proof.
  intros HW. unfold py__encode_builtin_double, py_struct_pack_d. rewrite push_bytes_push_all.
  destruct (push_all_refines (map (fun b => (b, 8%nat)) (le_bytes 8 bits)) n buf HW) as [buf' [Hrun [HW' Habs]]].
  rewrite le_bytes_bits in *. rewrite bits_of_Z_length in *. change (8 * 8)%nat with 64%nat in *.
  rewrite Hrun. cbn [pbind]. exists buf'. auto.
Qed.

Lemma Z_of_bits_app x y : Z_of_bits (x ++ y) = Z_of_bits x + 2 ^ Z.of_nat (length x) * Z_of_bits y.
Proof.
  induction x as [|b x IH]; cbn [app Z_of_bits length].
  - change (2 ^ Z.of_nat 0) with 1. lia.
  - rewrite IH. rewrite Nat2Z.inj_succ, Z.pow_succ_r by lia. lia.
Qed.

Lemma byte_at_shift buf a j : byte_at buf a (S j) = byte_at buf (a + 8) j.
Proof. unfold byte_at. do 3 f_equal. lia. Qed.

Lemma firstn_add {A : Type} : forall n m (l : list A), firstn (n + m) l = firstn n l ++ firstn m (skipn n l).
Proof.
  induction n as [|n IH]; intros m l; [reflexivity|].
  destruct l as [|x l]; cbn [Nat.add firstn skipn app]; [now rewrite firstn_nil|]. f_equal. apply IH.
Qed.

Lemma le_value_bytes buf : forall k a, (a + 8 * k <= 8 * length buf)%nat ->
  le_value (map (byte_at buf a) (seq 0 k)) = Z_of_bits (firstn (8 * k) (unread buf a)).
Proof.
  induction k as [|k IH]; intros a Ha; [reflexivity|].
  change (seq 0 (S k)) with (0%nat :: seq 1 k). cbn [map le_value].
  rewrite (map_seq_shift k _ 1%nat).
  rewrite (map_ext _ (byte_at buf (a + 8))) by (intros j; apply byte_at_shift).
  rewrite IH by lia.
  replace (8 * S k)%nat with (8 + 8 * k)%nat by lia.
  rewrite firstn_add.
  assert (Hlen8 : length (firstn 8 (unread buf a)) = 8%nat) by (rewrite firstn_length, unread_length; lia).
  rewrite Z_of_bits_app, Hlen8. change (2 ^ Z.of_nat 8) with 256.
  unfold byte_at at 1. rewrite Nat.mul_0_r, Nat.add_0_r. f_equal. f_equal. f_equal.
  unfold unread. now rewrite skipn_add.
Qed.

Lemma bytes_in_range buf a k : forallb (fun b => (0 <=? b) && (b <? 256)) (map (byte_at buf a) (seq 0 k)) = true.
Proof.
  apply forallb_forall. intros b Hb. apply in_map_iff in Hb. destruct Hb as [j [<- _]]. unfold byte_at.
  pose proof (Z_of_bits_range (firstn 8 (unread buf (a + 8 * j)))) as H. rewrite firstn_length in H.
  assert (2 ^ Z.of_nat (Nat.min 8 (length (unread buf (a + 8 * j)))) <= 2 ^ 8) by (apply Z.pow_le_mono_r; lia).
  lia.
Qed.

Theorem decode_float_is_read_word buf a t : (a <= 8 * length buf)%nat ->
  py__decode_builtin_float (mk buf (Z.of_nat a)) t =
  match Wire.read_word 32 (unread buf a) with
  | Ok (w, _) => POk (mk buf (Z.of_nat (a + 32)), w)
  | Raise _ => PRaise PyValueError
  end.
Proof.
  intros Ha. unfold py__decode_builtin_float. change 4 with (Z.of_nat 4). rewrite read_bytes_refines by exact Ha.
  unfold Wire.read_word. rewrite firstn_length, unread_length. change (8 * 4)%nat with 32%nat.
  destruct (Nat.leb_spec (a + 32) (8 * length buf)) as [Hfull|Hshort].
  - replace (Nat.ltb (Nat.min 32 (8 * length buf - a)) 32) with false by lia. cbn [pbind].
    unfold py_bytearray. rewrite bytes_in_range. cbn [pbind]. unfold py_struct_unpack_f. rewrite map_length, seq_length. cbn [Nat.eqb pbind].
    rewrite (le_value_bytes buf 4 a) by lia. reflexivity.
  - replace (Nat.ltb (Nat.min 32 (8 * length buf - a)) 32) with true by lia. reflexivity.
Qed.

Theorem decode_double_is_read_word buf a t : (a <= 8 * length buf)%nat ->
  py__decode_builtin_double (mk buf (Z.of_nat a)) t =
  match Wire.read_word 64 (unread buf a) with
  | Ok (w, _) => POk (mk buf (Z.of_nat (a + 64)), w)
  | Raise _ => PRaise PyValueError
  end.
Proof.
  intros Ha. unfold py__decode_builtin_double. change 8 with (Z.of_nat 8). rewrite read_bytes_refines by exact Ha.
  unfold Wire.read_word. rewrite firstn_length, unread_length. change (8 * 8)%nat with 64%nat.
  destruct (Nat.leb_spec (a + 64) (8 * length buf)) as [Hfull|Hshort].
  - replace (Nat.ltb (Nat.min 64 (8 * length buf - a)) 64) with false by lia. cbn [pbind].
    unfold py_bytearray. rewrite bytes_in_range. cbn [pbind]. unfold py_struct_unpack_d. rewrite map_length, seq_length. cbn [Nat.eqb pbind].
    rewrite (le_value_bytes buf 8 a) by lia. reflexivity.
  - replace (Nat.ltb (Nat.min 64 (8 * length buf - a)) 64) with true by lia. reflexivity.
Qed.
