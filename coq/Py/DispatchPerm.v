(* C15 for the translated serde.py: declaring the fields of the structs in another order changes neither the bytes the translated
   encode() returns nor what the translated decode() returns. *)
From Coq Require Import String ZArith List Bool.
From FcpV Require Import Base.Bits Schema.Types Schema.PermProofs Wire.Wire Py.PySerde Py.BufferLib Py.DispatchLib Py.DispatchDefs
  gen.PyBuffer Py.BufferProofs gen.PyLeaf gen.PyDispatch Py.DispatchProofs.
Import ListNotations.
Open Scope Z_scope.

Theorem translated_encode_perm sc sc' name t v bs fuel :
  schema_perm sc sc' -> NoDup (map sname (structs sc)) -> NoDup (map sname (structs sc')) ->
  resolve sc name = Some t -> uniq t -> repr t v = true -> (depth t <= S fuel)%nat -> wire t v = Some bs ->
  PyDispatch.py_encode fuel sc name (embed t v) = POk (bytes_of_bits bs) /\
  PyDispatch.py_encode fuel sc' name (embed t v) = POk (bytes_of_bits bs).
Proof.
  intros Hp Hn Hn' Hr Hu Hrp Hf Hw. split.
  - now apply (translated_encode_is_wire sc Hn name t v bs fuel).
  - apply (translated_encode_is_wire sc' Hn' name t v bs fuel); auto. now rewrite <- (resolve_perm sc sc' name Hp).
Qed.

Theorem translated_decode_perm sc sc' name t data fuel :
  schema_perm sc sc' -> NoDup (map sname (structs sc)) -> NoDup (map sname (structs sc')) ->
  resolve sc name = Some t -> uniq t -> (depth t <= S fuel)%nat -> Forall byte_ok data ->
  PyDispatch.py_decode fuel sc name data = PyDispatch.py_decode fuel sc' name data.
Proof.
  intros Hp Hn Hn' Hr Hu Hf Hok.
  assert (Hr' : resolve sc' name = Some t) by now rewrite <- (resolve_perm sc sc' name Hp).
  destruct (translated_decode_is_model sc Hn name t data fuel Hr Hu Hf Hok) as [o [Ho ->]].
  destruct (translated_decode_is_model sc' Hn' name t data fuel Hr' Hu Hf Hok) as [o' [Ho' ->]].
  rewrite (py_decode_perm sc sc' name data Hp) in Ho. rewrite Ho in Ho'. assert (o = o') by congruence. now subst.
Qed.
