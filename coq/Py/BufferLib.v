(* The small Python run-time the translated _Buffer (gen/PyBuffer.v) runs on:
   unbounded ints are Z, a list of ints is list Z, an exception is a value.
   Hand-written; what it assumes of Python is listed in DESIGN (trusted base). *)
From Coq Require Import ZArith List Bool.
Import ListNotations.
Open Scope Z_scope.

(* PyTypeError .. PyRecursionError are raised by the dispatch layer's run-time library (Py/DispatchLib.v) only *)
Inductive pyexn := PyValueError | PyIndexError | PyTypeError | PyKeyError | PyAttributeError | PyUnicodeError | PyUnwrapError | PyRecursionError.
Inductive pyres (A : Type) := POk (a : A) | PRaise (e : pyexn).
Arguments POk {A} a.
Arguments PRaise {A} e.

Definition pbind {A B : Type} (o : pyres A) (f : A -> pyres B) : pyres B :=
  match o with POk a => f a | PRaise e => PRaise e end.

(* the object: its two attributes *)
Record pybuf := { b_buffer : list Z; b_bitaddr : Z }.
Definition set_buffer (self : pybuf) (b : list Z) : pybuf := {| b_buffer := b; b_bitaddr := b_bitaddr self |}.
Definition set_bitaddr (self : pybuf) (a : Z) : pybuf := {| b_buffer := b_buffer self; b_bitaddr := a |}.

Definition py_len (l : list Z) : Z := Z.of_nat (length l).

(* l[i] and l[i] = v for 0 <= i < len(l); a negative index would wrap in Python: it is reported as IndexError here and shown
   unreachable by the invariant (bit addresses are never negative) *)
Definition py_getitem (l : list Z) (i : Z) : pyres Z :=
  if (0 <=? i) && (i <? py_len l) then POk (nth (Z.to_nat i) l 0) else PRaise PyIndexError.

Fixpoint update (l : list Z) (i : nat) (v : Z) : list Z :=
  match l, i with
  | [], _ => []
  | _ :: l', O => v :: l'
  | x :: l', S i' => x :: update l' i' v
  end.

Definition py_setitem (l : list Z) (i : Z) (v : Z) : pyres (list Z) :=
  if (0 <=? i) && (i <? py_len l) then POk (update l (Z.to_nat i) v) else PRaise PyIndexError.

(* for i in range(n): body   (n <= 0: no iteration) *)
Fixpoint for_nat {S : Type} (n : nat) (i : Z) (body : Z -> S -> pyres S) (s : S) : pyres S :=
  match n with
  | O => POk s
  | Datatypes.S n' => pbind (body i s) (for_nat n' (i + 1) body)
  end.
Definition for_range {S : Type} (n : Z) (body : Z -> S -> pyres S) (s : S) : pyres S := for_nat (Z.to_nat n) 0 body s.

(* for x in l: body *)
Fixpoint for_each {A S : Type} (l : list A) (body : A -> S -> pyres S) (s : S) : pyres S :=
  match l with
  | [] => POk s
  | x :: l' => pbind (body x s) (for_each l' body)
  end.

(* bytearray(l): every element must be in range(256) *)
Definition py_bytearray (l : list Z) : pyres (list Z) :=
  if forallb (fun b => (0 <=? b) && (b <? 256)) l then POk l else PRaise PyValueError.

(* ---- what the leaf codecs need (gen/PyLeaf.v) ---- *)

(* UnsignedType / SignedType / FloatType / DoubleType objects: only get_length() is used *)
Record pynum := { get_length : Z }.

(* a > b / c for ints a b c: Python divides to a float and compares the int with it exactly; the quotient is exact whenever b / c
   is representable (the one use is 2**length / 2 with length <= 64), so the comparison is that of the rationals *)
Definition py_gt_truediv (a b c : Z) : bool := if 0 <? c then b <? a * c else a * c <? b.

(* little-endian bytes *)
Fixpoint le_bytes (n : nat) (z : Z) : list Z :=
  match n with O => [] | S n' => (z mod 256) :: le_bytes n' (z / 256) end.
Fixpoint le_value (l : list Z) : Z :=
  match l with [] => 0 | b :: l' => b + 256 * le_value l' end.

(* struct.pack("f"/"d", x) and struct.unpack(...)[0] with a float carried as its IEEE bit pattern: the bytes of the pattern,
   little-endian (native order on the platforms fcp targets; DESIGN, trusted base) *)
Definition py_struct_pack_f (bits : Z) : list Z := le_bytes 4 bits.
Definition py_struct_pack_d (bits : Z) : list Z := le_bytes 8 bits.
Definition py_struct_unpack_f (l : list Z) : pyres Z :=
  if Nat.eqb (length l) 4 then POk (le_value l) else PRaise PyValueError.
Definition py_struct_unpack_d (l : list Z) : pyres Z :=
  if Nat.eqb (length l) 8 then POk (le_value l) else PRaise PyValueError.
