(* Refinement of the translated _Buffer (gen/PyBuffer.v, regenerated from
   src/fcp/serde.py on every run) to the bit-string primitives of the wire
   model: push_word appends bits_of_Z, get_buffer is bytes_of_bits, read_word
   is Wire.read_word on the unread bits. *)
From Coq Require Import ZArith List Bool Lia Arith ZifyNat ZifyBool.
From FcpV Require Import Base.Bits Base.BitsProofs Wire.Wire Wire.WireProofs Py.BufferLib gen.PyBuffer.
Import ListNotations.
Open Scope Z_scope.
Ltac Zify.zify_post_hook ::= Z.div_mod_to_equations.

(* ------------------------------------------------------------------ *)
(* bits of a byte list, pointwise *)

Definition bitf (buf : list Z) (i : nat) : bool := Z.testbit (nth (i / 8) buf 0) (Z.of_nat (i mod 8)).
Definition byte_ok (b : Z) : Prop := 0 <= b < 256.

Lemma nth_bits_of_Z : forall n i z, (i < n)%nat -> nth i (bits_of_Z n z) false = Z.testbit z (Z.of_nat i).
Proof.
  induction n as [|n IH]; intros i z Hi; [lia|].
  cbn [bits_of_Z]. destruct i as [|i].
  - cbn [nth]. symmetry. apply Z.bit0_odd.
  - cbn [nth]. rewrite IH by lia. rewrite Z.div2_div. rewrite Z.div2_bits by lia. f_equal. lia.
Qed.

Lemma bits_of_Z_testbit n z : bits_of_Z n z = map (fun i => Z.testbit z (Z.of_nat i)) (seq 0 n).
Proof.
  apply nth_ext with (d := false) (d' := false).
  - now rewrite bits_of_Z_length, map_length, seq_length.
  - intros i Hi. rewrite bits_of_Z_length in Hi. rewrite nth_bits_of_Z by exact Hi.
    set (f := fun i0 : nat => Z.testbit z (Z.of_nat i0)).
    rewrite (nth_indep _ false (f 0%nat)) by (now rewrite map_length, seq_length).
    rewrite map_nth. rewrite seq_nth by exact Hi. reflexivity.
Qed.

Lemma nth_bits_of_bytes : forall bs i, nth i (bits_of_bytes bs) false = bitf bs i.
Proof.
  induction bs as [|b bs IH]; intros i.
  - unfold bitf. cbn [bits_of_bytes]. destruct i; destruct (_ / 8)%nat; cbn [nth]; now rewrite ?Z.testbit_0_l.
  - cbn [bits_of_bytes]. unfold byte_bits. destruct (Nat.lt_ge_cases i 8) as [Hi|Hi].
    + rewrite app_nth1 by (now rewrite bits_of_Z_length). rewrite nth_bits_of_Z by exact Hi.
      unfold bitf. rewrite Nat.div_small, Nat.mod_small by exact Hi. reflexivity.
    + rewrite app_nth2 by (now rewrite bits_of_Z_length). rewrite bits_of_Z_length. rewrite IH.
      unfold bitf. replace (i / 8)%nat with (S ((i - 8) / 8)) by lia. cbn [nth].
      replace ((i - 8) mod 8)%nat with (i mod 8)%nat by lia. reflexivity.
Qed.

Lemma byte_high_bits z m : byte_ok z -> 8 <= m -> Z.testbit z m = false.
Proof.
  intros Hz Hm. rewrite <- (Z.mod_small z (2 ^ 8)) by (unfold byte_ok in Hz; lia).
  apply Z.mod_pow2_bits_high. lia.
Qed.

Lemma bitf_cons x l i : bitf (x :: l) (i + 8) = bitf l i.
Proof.
  unfold bitf. replace ((i + 8) / 8)%nat with (S (i / 8)) by lia. cbn [nth].
  replace ((i + 8) mod 8)%nat with (i mod 8)%nat by lia. reflexivity.
Qed.

Lemma bytes_ext : forall a b, length a = length b -> Forall byte_ok a -> Forall byte_ok b ->
  (forall i, bitf a i = bitf b i) -> a = b.
Proof.
  induction a as [|x a IH]; intros [|y b] Hlen Ha Hb Hbits; try discriminate; [reflexivity|].
  inversion Ha as [|? ? Hx Ha']; inversion Hb as [|? ? Hy Hb']; subst.
  f_equal.
  - apply Z.bits_inj'. intros m Hm. destruct (Z.lt_ge_cases m 8) as [Hlt|Hge].
    + specialize (Hbits (Z.to_nat m)). unfold bitf in Hbits.
      rewrite Nat.div_small, Nat.mod_small in Hbits by lia. cbn [nth] in Hbits. now rewrite Z2Nat.id in Hbits by lia.
    + now rewrite !byte_high_bits.
  - apply IH; auto. intros i. specialize (Hbits (i + 8)%nat). now rewrite !bitf_cons in Hbits.
Qed.

Lemma bytes_of_bits_fuel_ok : forall fuel l, Forall byte_ok (bytes_of_bits_fuel fuel l).
Proof.
  induction fuel as [|f IH]; intros l; cbn [bytes_of_bits_fuel]; [constructor|].
  destruct l as [|b l]; [constructor|]. constructor; [|apply IH].
  pose proof (Z_of_bits_range (firstn 8 (b :: l))) as H. rewrite firstn_length in H.
  unfold byte_ok. split; [lia|]. apply Z.lt_le_trans with (2 ^ Z.of_nat (Nat.min 8 (length (b :: l)))); [lia|].
  change 256 with (2 ^ 8). apply Z.pow_le_mono_r; lia.
Qed.

Lemma bytes_of_bits_ok l : Forall byte_ok (bytes_of_bits l).
Proof. apply bytes_of_bits_fuel_ok. Qed.

Lemma bitf_bytes_of_bits l i : bitf (bytes_of_bits l) i = nth i l false.
Proof.
  rewrite <- nth_bits_of_bytes. rewrite bits_of_bytes_of_bits.
  destruct (Nat.lt_ge_cases i (length l)) as [Hi|Hi].
  - now rewrite app_nth1.
  - rewrite app_nth2 by exact Hi. rewrite (nth_overflow l) by exact Hi. unfold padding.
    destruct (Nat.lt_ge_cases (i - length l) (pad_len (length l))) as [Hp|Hp].
    + now rewrite nth_repeat.
    + apply nth_overflow. now rewrite repeat_length.
Qed.

(* ------------------------------------------------------------------ *)
(* list update *)

Lemma update_length : forall l i v, length (update l i v) = length l.
Proof. induction l as [|x l IH]; intros [|i] v; cbn [update length]; auto. Qed.

Lemma nth_update : forall l i j v d, nth j (update l i v) d = if (Nat.eqb j i && Nat.ltb i (length l))%bool then v else nth j l d.
Proof.
  induction l as [|x l IH]; intros i j v d.
  - cbn [update length]. rewrite Bool.andb_false_r. reflexivity.
  - destruct i as [|i]; destruct j as [|j]; cbn [update nth length]; try reflexivity.
    rewrite IH. change (Nat.eqb (S j) (S i)) with (Nat.eqb j i). change (Nat.ltb (S i) (S (length l))) with (Nat.ltb i (length l)). reflexivity.
Qed.

Lemma update_Forall (Q : Z -> Prop) : forall l i v, Forall Q l -> Q v -> Forall Q (update l i v).
Proof.
  induction l as [|x l IH]; intros [|i] v Hl Hv; cbn [update]; auto; inversion Hl; subst; constructor; auto.
Qed.

(* ------------------------------------------------------------------ *)
(* single bits *)

Lemma land_shiftr_1 w i : 0 <= i -> Z.land (Z.shiftr w i) 1 = Z.b2z (Z.testbit w i).
Proof.
  intros Hi. change 1 with (Z.ones 1). rewrite Z.land_ones by lia. change (2 ^ 1) with 2.
  rewrite <- Z.bit0_mod. rewrite Z.shiftr_spec by lia. now rewrite Z.add_0_l.
Qed.

Lemma testbit_b2z b m : Z.testbit (Z.b2z b) m = (b && (m =? 0))%bool.
Proof.
  destruct b; cbn [Z.b2z andb].
  - destruct (Z.eqb_spec m 0) as [->|Hm]; [reflexivity|]. destruct m; try congruence; reflexivity.
  - apply Z.testbit_0_l.
Qed.

Lemma small_byte z : 0 <= z -> (forall m, 8 <= m -> Z.testbit z m = false) -> byte_ok z.
Proof.
  intros Hz Hhigh. unfold byte_ok. split; [exact Hz|].
  destruct (Z.lt_ge_cases z 256) as [|Hge]; [assumption|exfalso].
  assert (Hlog : 8 <= Z.log2 z) by (change 8 with (Z.log2 256); apply Z.log2_le_mono; lia).
  pose proof (Z.bit_log2 z ltac:(lia)) as Hb. rewrite Hhigh in Hb by exact Hlog. discriminate.
Qed.

(* ------------------------------------------------------------------ *)
(* the written prefix *)

(* n bits written: the buffer has exactly the bytes they need, all in range, and nothing is set beyond them *)
Definition W (n : nat) (buf : list Z) : Prop :=
  length buf = ((n + 7) / 8)%nat /\ Forall byte_ok buf /\ forall i, (n <= i)%nat -> bitf buf i = false.

Definition mk (buf : list Z) (a : Z) : pybuf := {| b_buffer := buf; b_bitaddr := a |}.

Lemma W_init : W 0 [].
Proof. repeat split; [constructor|]. intros i _. unfold bitf. destruct (i / 8)%nat; cbn [nth]; apply Z.testbit_0_l. Qed.

Lemma bitf_app0 buf i : bitf (buf ++ [0]) i = bitf buf i.
Proof.
  unfold bitf. destruct (Nat.lt_ge_cases (i / 8) (length buf)) as [H|H].
  - now rewrite app_nth1.
  - rewrite app_nth2 by exact H. rewrite (nth_overflow buf) by exact H.
    destruct (i / 8 - length buf)%nat as [|[|k]]; cbn [nth]; reflexivity.
Qed.

Lemma set_bit_spec n buf a b :
  W n buf ->
  exists buf',
    py_set_bit (mk buf a) (Z.b2z b) (Z.of_nat n) = POk (mk buf' a, tt) /\
    W (S n) buf' /\
    (forall i, bitf buf' i = if Nat.eqb i n then b else bitf buf i).
Proof.
  intros [Hlen [Hok Hzero]].
  set (j := (n / 8)%nat). set (k := (n mod 8)%nat).
  assert (Hj : Z.shiftr (Z.of_nat n) 3 = Z.of_nat j).
  { rewrite Z.shiftr_div_pow2 by lia. change (2 ^ 3) with 8. subst j. lia. }
  assert (Hk : Z.land (Z.of_nat n) 7 = Z.of_nat k).
  { change 7 with (Z.ones 3). rewrite Z.land_ones by lia. change (2 ^ 3) with 8. subst k. lia. }
  (* the buffer after the optional append *)
  set (buf1 := if (Z.of_nat (length buf) <=? Z.of_nat j) then (buf ++ [0])%list else buf).
  assert (Hlen1 : length buf1 = S j).
  { subst buf1. destruct (Z.leb_spec (Z.of_nat (length buf)) (Z.of_nat j)); [rewrite app_length; cbn [length]|]; subst j; lia. }
  assert (Hok1 : Forall byte_ok buf1).
  { subst buf1. destruct (_ <=? _); [|exact Hok]. apply Forall_app. split; [exact Hok|]. constructor; [unfold byte_ok; lia|constructor]. }
  assert (Hbit1 : forall i, bitf buf1 i = bitf buf i).
  { intros i. subst buf1. destruct (_ <=? _); [apply bitf_app0|reflexivity]. }
  set (x := nth j buf1 0).
  set (x' := Z.lor x (Z.shiftl (Z.b2z b) (Z.of_nat k))).
  exists (update buf1 j x').
  assert (Hx : byte_ok x).
  { subst x. rewrite Forall_forall in Hok1. apply Hok1. apply nth_In. lia. }
  assert (Hxbits : forall m, 0 <= m -> Z.testbit x' m = (Z.testbit x m || (b && (m =? Z.of_nat k)))%bool).
  { intros m Hm. subst x'. rewrite Z.lor_spec. rewrite Z.shiftl_spec by exact Hm. rewrite testbit_b2z.
    f_equal. f_equal. lia. }
  split; [|split].
  - unfold py_set_bit. rewrite Hj, Hk. unfold py_len. cbn [mk b_buffer b_bitaddr].
    fold buf1.
    assert (Hstep1 : (if Z.of_nat (length buf) <=? Z.of_nat j
                      then POk (set_buffer (mk buf a) (buf ++ [0])) else POk (mk buf a)) = POk (mk buf1 a)).
    { subst buf1. destruct (_ <=? _); reflexivity. }
    rewrite Hstep1. cbn [pbind mk b_buffer].
    unfold py_getitem, py_setitem, py_len. rewrite Hlen1.
    replace ((0 <=? Z.of_nat j) && (Z.of_nat j <? Z.of_nat (S j)))%bool with true by lia.
    cbn [pbind]. rewrite Nat2Z.id. fold x. fold x'. reflexivity.
  - repeat split.
    + rewrite update_length, Hlen1. subst j. lia.
    + apply update_Forall; [exact Hok1|]. apply small_byte.
      * subst x'. apply Z.lor_nonneg. split; [unfold byte_ok in Hx; lia|]. apply Z.shiftl_nonneg. destruct b; cbn; lia.
      * intros m Hm. rewrite Hxbits by lia. rewrite (byte_high_bits x m Hx Hm).
        replace (m =? Z.of_nat k) with false by (subst k; lia). now rewrite Bool.andb_false_r.
    + intros i Hi. unfold bitf. rewrite nth_update. rewrite Hlen1.
      destruct (Nat.eqb_spec (i / 8) j) as [Hij|Hij].
      * replace (Nat.ltb j (S j)) with true by (symmetry; apply Nat.ltb_lt; lia). cbn [andb].
        rewrite Hxbits by lia. subst x. rewrite <- Hij.
        change (Z.testbit (nth (i / 8) buf1 0) (Z.of_nat (i mod 8))) with (bitf buf1 i).
        rewrite Hbit1, Hzero by lia. replace (Z.of_nat (i mod 8) =? Z.of_nat k) with false by (subst k j; lia).
        now rewrite Bool.andb_false_r.
      * cbn [andb]. change (Z.testbit (nth (i / 8) buf1 0) (Z.of_nat (i mod 8))) with (bitf buf1 i).
        rewrite Hbit1. apply Hzero. lia.
  - intros i. unfold bitf. rewrite nth_update. rewrite Hlen1.
    destruct (Nat.eqb_spec (i / 8) j) as [Hij|Hij].
    + replace (Nat.ltb j (S j)) with true by (symmetry; apply Nat.ltb_lt; lia). cbn [andb].
      rewrite Hxbits by lia. subst x. rewrite <- Hij.
      change (Z.testbit (nth (i / 8) buf1 0) (Z.of_nat (i mod 8))) with (bitf buf1 i). rewrite Hbit1.
      destruct (Nat.eqb_spec i n) as [->|Hin].
      * rewrite Hzero by lia. fold k. rewrite Z.eqb_refl. now rewrite Bool.andb_true_r.
      * replace (Z.of_nat (i mod 8) =? Z.of_nat k) with false by (subst k j; lia). now rewrite Bool.andb_false_r, Bool.orb_false_r.
    + cbn [andb]. change (Z.testbit (nth (i / 8) buf1 0) (Z.of_nat (i mod 8))) with (bitf buf1 i). rewrite Hbit1.
      destruct (Nat.eqb_spec i n) as [->|Hin]; [subst j; congruence|reflexivity].
Qed.

(* ------------------------------------------------------------------ *)
(* push_word *)

Definition enc_abs (buf : list Z) (n : nat) : list bool := map (bitf buf) (seq 0 n).

Lemma map_seq_shift {A : Type} : forall m (f : nat -> A) n, map f (seq n m) = map (fun i => f (n + i)%nat) (seq 0 m).
Proof.
  induction m as [|m IH]; intros f n; [reflexivity|].
  cbn [seq map]. rewrite Nat.add_0_r. f_equal. rewrite (IH f (S n)). rewrite (IH (fun i => f (n + i)%nat) 1%nat).
  apply map_ext. intros i. f_equal. lia.
Qed.

Lemma push_loop w n : forall r i buf,
  W (n + i) buf ->
  exists buf',
    for_nat r (Z.of_nat i)
      (fun i0 self => pbind (py_set_bit self (Z.land (Z.shiftr w i0) 1) (Z.add (b_bitaddr self) i0)) (fun '(self0, _) => POk self0))
      (mk buf (Z.of_nat n)) = POk (mk buf' (Z.of_nat n)) /\
    W (n + i + r) buf' /\
    (forall t, bitf buf' t = if (Nat.leb (n + i) t && Nat.ltb t (n + i + r))%bool then Z.testbit w (Z.of_nat (t - n)) else bitf buf t).
Proof.
  induction r as [|r IH]; intros i buf HW.
  - exists buf. split; [reflexivity|]. split; [now rewrite Nat.add_0_r|].
    intros t. replace (Nat.leb (n + i) t && Nat.ltb t (n + i + 0))%bool with false by lia. reflexivity.
  - cbn [for_nat]. cbn [mk b_bitaddr].
    rewrite land_shiftr_1 by lia.
    replace (Z.of_nat n + Z.of_nat i) with (Z.of_nat (n + i)) by lia.
    destruct (set_bit_spec (n + i) buf (Z.of_nat n) (Z.testbit w (Z.of_nat i)) HW) as [buf1 [Hrun [HW1 Hbits1]]].
    rewrite Hrun. cbn [pbind].
    replace (Z.of_nat i + 1) with (Z.of_nat (S i)) by lia.
    replace (S (n + i)) with (n + S i)%nat in HW1 by lia.
    destruct (IH (S i) buf1 HW1) as [buf' [Hrun' [HW' Hbits']]].
    exists buf'. split; [exact Hrun'|]. split; [now replace (n + i + S r)%nat with (n + S i + r)%nat by lia|].
    intros t. rewrite Hbits'. rewrite Hbits1.
    destruct (Nat.eqb_spec t (n + i)) as [->|Hne].
    + replace (Nat.leb (n + S i) (n + i) && Nat.ltb (n + i) (n + S i + r))%bool with false by lia.
      replace (Nat.leb (n + i) (n + i) && Nat.ltb (n + i) (n + i + S r))%bool with true by lia.
      f_equal. lia.
    + replace (Nat.leb (n + i) t && Nat.ltb t (n + i + S r))%bool with (Nat.leb (n + S i) t && Nat.ltb t (n + S i + r))%bool by lia.
      reflexivity.
Qed.

(* push_word appends the m low bits of the word (two's complement for a negative word) *)
Theorem push_word_refines n buf w m :
  W n buf ->
  exists buf',
    py_push_word (mk buf (Z.of_nat n)) w (Z.of_nat m) = POk (mk buf' (Z.of_nat (n + m)), tt) /\
    W (n + m) buf' /\
    enc_abs buf' (n + m) = enc_abs buf n ++ bits_of_Z m w.
Proof.
  intros HW. unfold py_push_word, for_range. rewrite Nat2Z.id.
  assert (HW0 : W (n + 0) buf) by now rewrite Nat.add_0_r.
  destruct (push_loop w n m 0%nat buf HW0) as [buf' [Hrun [HW' Hbits]]].
  change (Z.of_nat 0) with 0 in Hrun. rewrite Hrun. cbn [pbind].
  exists buf'. rewrite Nat.add_0_r in HW'. split; [|split; [exact HW'|]].
  - unfold set_bitaddr, mk. cbn [b_buffer b_bitaddr]. do 3 f_equal. lia.
  - unfold enc_abs. rewrite seq_app, map_app. change (0 + n)%nat with n. f_equal.
    + apply map_ext_in. intros t Ht. apply in_seq in Ht. rewrite Hbits.
      replace (Nat.leb (n + 0) t && Nat.ltb t (n + 0 + m))%bool with false by lia. reflexivity.
    + rewrite bits_of_Z_testbit. rewrite map_seq_shift. apply map_ext_in. intros t Ht. apply in_seq in Ht.
      rewrite Hbits. replace (Nat.leb (n + 0) (n + t) && Nat.ltb (n + t) (n + 0 + m))%bool with true by lia.
      f_equal. lia.
Qed.

(* ------------------------------------------------------------------ *)
(* get_buffer: the bytes are the zero-padded packing of the bits written *)

Lemma enc_abs_length buf n : length (enc_abs buf n) = n.
Proof. unfold enc_abs. now rewrite map_length, seq_length. Qed.

Lemma nth_enc_abs buf n i : nth i (enc_abs buf n) false = if Nat.ltb i n then bitf buf i else false.
Proof.
  unfold enc_abs. destruct (Nat.ltb_spec i n) as [Hi|Hi].
  - rewrite (nth_indep _ false (bitf buf 0%nat)) by (now rewrite map_length, seq_length).
    rewrite map_nth. now rewrite seq_nth.
  - apply nth_overflow. now rewrite map_length, seq_length.
Qed.

Lemma W_bytes n buf : W n buf -> buf = bytes_of_bits (enc_abs buf n).
Proof.
  intros [Hlen [Hok Hzero]]. apply bytes_ext.
  - pose proof (bytes_of_bits_length8 (enc_abs buf n)) as H8. rewrite enc_abs_length in H8.
    unfold padding in H8. rewrite repeat_length, enc_abs_length in H8. unfold pad_len in H8. lia.
  - exact Hok.
  - apply bytes_of_bits_ok.
  - intros i. rewrite bitf_bytes_of_bits, nth_enc_abs. destruct (Nat.ltb_spec i n); [reflexivity|now apply Hzero].
Qed.

Theorem get_buffer_refines n buf a :
  W n buf -> py_get_buffer (mk buf a) = POk (mk buf a, bytes_of_bits (enc_abs buf n)).
Proof.
  intros HW. unfold py_get_buffer, py_bytearray. cbn [mk b_buffer].
  destruct HW as [Hlen [Hok Hzero]].
  assert (Hall : forallb (fun b => (0 <=? b) && (b <? 256)) buf = true).
  { apply forallb_forall. intros b Hb. rewrite Forall_forall in Hok. specialize (Hok b Hb). unfold byte_ok in Hok. lia. }
  rewrite Hall. cbn [pbind]. now rewrite <- (W_bytes n buf) by (repeat split; assumption).
Qed.

(* ------------------------------------------------------------------ *)
(* any sequence of push_word calls: the buffer holds the concatenation of the words' bits *)

Definition word_bits (ws : list (Z * nat)) : list bool := flat_map (fun wm => bits_of_Z (snd wm) (fst wm)) ws.

Fixpoint push_all (self : pybuf) (ws : list (Z * nat)) : pyres pybuf :=
  match ws with
  | [] => POk self
  | (w, m) :: ws' => pbind (py_push_word self w (Z.of_nat m)) (fun '(self', _) => push_all self' ws')
  end.

Theorem push_all_refines : forall ws n buf,
  W n buf ->
  exists buf', push_all (mk buf (Z.of_nat n)) ws = POk (mk buf' (Z.of_nat (n + length (word_bits ws)))) /\
               W (n + length (word_bits ws)) buf' /\
               enc_abs buf' (n + length (word_bits ws)) = enc_abs buf n ++ word_bits ws.
Proof.
  induction ws as [|[w m] ws IH]; intros n buf HW.
  - exists buf. cbn [word_bits flat_map length push_all]. rewrite Nat.add_0_r, app_nil_r. auto.
  - cbn [push_all]. destruct (push_word_refines n buf w m HW) as [buf1 [Hrun [HW1 Habs1]]].
    rewrite Hrun. cbn [pbind]. destruct (IH (n + m)%nat buf1 HW1) as [buf' [Hrun' [HW' Habs']]].
    exists buf'. cbn [word_bits flat_map fst snd]. fold (word_bits ws). rewrite app_length, bits_of_Z_length.
    rewrite Nat.add_assoc. split; [exact Hrun'|]. split; [exact HW'|]. rewrite Habs', Habs1. now rewrite app_assoc.
Qed.

(* fcp.serde.encode's shape: a fresh buffer, pushes, get_buffer *)
Corollary encode_bytes ws :
  exists self, push_all py_init ws = POk self /\
               exists self', py_get_buffer self = POk (self', bytes_of_bits (word_bits ws)).
Proof.
  destruct (push_all_refines ws 0%nat [] W_init) as [buf' [Hrun [HW Habs]]].
  exists (mk buf' (Z.of_nat (0 + length (word_bits ws)))). split; [exact Hrun|].
  eexists. rewrite (get_buffer_refines _ _ _ HW). rewrite Habs. reflexivity.
Qed.

(* push_bytes is push_word 8 per byte *)
Lemma push_bytes_push_all : forall bs self,
  py_push_bytes self bs = pbind (push_all self (map (fun b => (b, 8%nat)) bs)) (fun s => POk (s, tt)).
Proof.
  intros bs self. unfold py_push_bytes.
  assert (H : forall bs self, for_each bs (fun byte self0 => pbind (py_push_word self0 byte 8) (fun '(self1, _) => POk self1)) self
                              = push_all self (map (fun b => (b, 8%nat)) bs)).
  { induction bs0 as [|b bs0 IH]; intros self0; [reflexivity|].
    cbn [for_each map push_all]. change (Z.of_nat 8) with 8.
    destruct (py_push_word self0 b 8) as [[s u]|e]; cbn [pbind]; [apply IH|reflexivity]. }
  rewrite H. destruct (push_all self _); reflexivity.
Qed.

(* ------------------------------------------------------------------ *)
(* reading *)

Lemma get_bit_spec buf a0 a :
  py_get_bit (mk buf a0) (Z.of_nat a) =
  if Nat.ltb (a / 8) (length buf) then POk (mk buf a0, Z.b2z (bitf buf a)) else PRaise PyValueError.
Proof.
  unfold py_get_bit. cbn [mk b_buffer].
  assert (Hj : Z.shiftr (Z.of_nat a) 3 = Z.of_nat (a / 8)).
  { rewrite Z.shiftr_div_pow2 by lia. change (2 ^ 3) with 8. lia. }
  assert (Hk : Z.land (Z.of_nat a) 7 = Z.of_nat (a mod 8)).
  { change 7 with (Z.ones 3). rewrite Z.land_ones by lia. change (2 ^ 3) with 8. lia. }
  rewrite Hj, Hk. unfold py_len.
  destruct (Nat.ltb_spec (a / 8) (length buf)) as [Hlt|Hge].
  - replace (Z.of_nat (length buf) <=? Z.of_nat (a / 8)) with false by lia. cbn [pbind b_buffer mk].
    unfold py_getitem, py_len. replace ((0 <=? Z.of_nat (a / 8)) && (Z.of_nat (a / 8) <? Z.of_nat (length buf)))%bool with true by lia.
    cbn [pbind]. rewrite Nat2Z.id. rewrite land_shiftr_1 by lia. reflexivity.
  - replace (Z.of_nat (length buf) <=? Z.of_nat (a / 8)) with true by lia. reflexivity.
Qed.

(* the word the loop accumulates over bit positions i .. i+r-1 *)
Fixpoint acc_word (buf : list Z) (a : nat) (r : nat) (i : nat) (word : Z) : Z :=
  match r with
  | O => word
  | S r' => acc_word buf a r' (S i) (Z.lor word (Z.shiftl (Z.b2z (bitf buf (a + i))) (Z.of_nat i)))
  end.

Lemma read_loop buf a : forall r i word,
  for_nat r (Z.of_nat i)
    (fun i0 '(self, word0) => pbind (py_get_bit self (Z.add (b_bitaddr self) i0))
                                (fun '(self0, t1) => POk (self0, Z.lor word0 (Z.shiftl t1 i0))))
    (mk buf (Z.of_nat a), word) =
  if (Nat.leb (a + i + r) (8 * length buf) || Nat.eqb r 0)%bool then POk (mk buf (Z.of_nat a), acc_word buf a r i word)
  else PRaise PyValueError.
Proof.
  induction r as [|r IH]; intros i word.
  - cbn [for_nat Nat.eqb]. rewrite Bool.orb_true_r. reflexivity.
  - cbn [for_nat mk b_bitaddr]. replace (Z.of_nat a + Z.of_nat i) with (Z.of_nat (a + i)) by lia.
    rewrite get_bit_spec. cbn [Nat.eqb]. rewrite Bool.orb_false_r.
    destruct (Nat.ltb_spec ((a + i) / 8) (length buf)) as [Hlt|Hge].
    + cbn [pbind]. replace (Z.of_nat i + 1) with (Z.of_nat (S i)) by lia. rewrite IH. cbn [acc_word].
      destruct r as [|r'].
      * cbn [Nat.eqb]. rewrite Bool.orb_true_r. replace (Nat.leb (a + i + 1) (8 * length buf)) with true by lia. reflexivity.
      * cbn [Nat.eqb]. rewrite !Bool.orb_false_r.
        replace (Nat.leb (a + S i + S r') (8 * length buf)) with (Nat.leb (a + i + S (S r')) (8 * length buf)) by lia.
        reflexivity.
    + cbn [pbind]. replace (Nat.leb (a + i + S r) (8 * length buf)) with false by lia. reflexivity.
Qed.

Lemma acc_word_bits buf a : forall r i word t, 0 <= t ->
  Z.testbit (acc_word buf a r i word) t =
  (Z.testbit word t || ((Z.of_nat i <=? t) && (t <? Z.of_nat (i + r)) && bitf buf (a + Z.to_nat t)))%bool.
Proof.
  induction r as [|r IH]; intros i word t Ht.
  - cbn [acc_word]. replace ((Z.of_nat i <=? t) && (t <? Z.of_nat (i + 0)))%bool with false by lia. now rewrite Bool.orb_false_r.
  - cbn [acc_word]. rewrite IH by exact Ht. rewrite Z.lor_spec, Z.shiftl_spec by exact Ht. rewrite testbit_b2z.
    destruct (Z.eqb_spec (t - Z.of_nat i) 0) as [He|Hne].
    + assert (t = Z.of_nat i) by lia. subst t. rewrite Nat2Z.id.
      replace ((Z.of_nat (S i) <=? Z.of_nat i) && (Z.of_nat i <? Z.of_nat (S i + r)))%bool with false by lia.
      replace ((Z.of_nat i <=? Z.of_nat i) && (Z.of_nat i <? Z.of_nat (i + S r)))%bool with true by lia.
      cbn [andb]. now rewrite Bool.andb_true_r, Bool.orb_false_r.
    + rewrite Bool.andb_false_r, Bool.orb_false_r.
      replace ((Z.of_nat (S i) <=? t) && (t <? Z.of_nat (S i + r)))%bool with ((Z.of_nat i <=? t) && (t <? Z.of_nat (i + S r)))%bool by lia.
      reflexivity.
Qed.

Lemma testbit_Z_of_bits l t : 0 <= t -> Z.testbit (Z_of_bits l) t = nth (Z.to_nat t) l false.
Proof.
  intros Ht. destruct (Nat.lt_ge_cases (Z.to_nat t) (length l)) as [Hlt|Hge].
  - rewrite <- (bits_of_Z_of_bits_exact l) at 2. rewrite nth_bits_of_Z by exact Hlt. now rewrite Z2Nat.id.
  - rewrite nth_overflow by exact Hge. pose proof (Z_of_bits_range l) as Hr.
    rewrite <- (Z.mod_small (Z_of_bits l) (2 ^ Z.of_nat (length l))) by exact Hr.
    apply Z.mod_pow2_bits_high. lia.
Qed.

(* the unread bits *)
Definition unread (buf : list Z) (a : nat) : list bool := skipn a (bits_of_bytes buf).

Lemma nth_skipn' {A : Type} (d : A) : forall (l : list A) n i, nth i (skipn n l) d = nth (n + i) l d.
Proof.
  induction l as [|x l IH]; intros [|n] i; cbn [skipn nth Nat.add]; try reflexivity.
  - now destruct i.
  - apply IH.
Qed.

Lemma nth_firstn' {A : Type} (d : A) : forall (l : list A) n i, nth i (firstn n l) d = if Nat.ltb i n then nth i l d else d.
Proof.
  induction l as [|x l IH]; intros [|n] i; cbn [firstn nth]; try (destruct i; reflexivity).
  - destruct i; [reflexivity|]. now destruct (Nat.ltb (S i) (S n)).
  - destruct i as [|i]; [reflexivity|]. rewrite IH. reflexivity.
Qed.

Lemma skipn_add {A : Type} : forall (l : list A) n m, skipn m (skipn n l) = skipn (n + m) l.
Proof.
  induction l as [|x l IH]; intros [|n] m; cbn [skipn Nat.add]; try reflexivity.
  - now destruct m.
  - apply IH.
Qed.

Lemma nth_unread buf a i : nth i (unread buf a) false = bitf buf (a + i).
Proof. unfold unread. rewrite nth_skipn'. apply nth_bits_of_bytes. Qed.

Lemma unread_length buf a : length (unread buf a) = (8 * length buf - a)%nat.
Proof. unfold unread. now rewrite skipn_length, bits_of_bytes_length. Qed.

(* read_word is Wire.read_word on the unread bits *)
Theorem read_word_refines buf a m :
  py_read_word (mk buf (Z.of_nat a)) (Z.of_nat m) =
  match Wire.read_word m (unread buf a) with
  | Ok (z, rest) => POk (mk buf (Z.of_nat (a + m)), z)
  | Raise _ => PRaise PyValueError
  end
  /\ (forall z rest, Wire.read_word m (unread buf a) = Ok (z, rest) -> rest = unread buf (a + m)).
Proof.
  split.
  - unfold py_read_word, for_range. rewrite Nat2Z.id.
    pose proof (read_loop buf a m 0%nat 0) as Hloop. change (Z.of_nat 0) with 0 in Hloop. rewrite Hloop. clear Hloop.
    unfold Wire.read_word. rewrite firstn_length, unread_length.
    destruct (Nat.ltb_spec (Nat.min m (8 * length buf - a)) m) as [Hshort|Hfull].
    + replace (Nat.leb (a + 0 + m) (8 * length buf) || Nat.eqb m 0)%bool with false by lia. reflexivity.
    + replace (Nat.leb (a + 0 + m) (8 * length buf) || Nat.eqb m 0)%bool with true by lia. cbn [pbind].
      unfold set_bitaddr, mk. cbn [b_buffer b_bitaddr]. f_equal. f_equal; [f_equal; lia|].
      apply Z.bits_inj'. intros t Ht. rewrite acc_word_bits by exact Ht. rewrite Z.testbit_0_l. cbn [orb].
      rewrite testbit_Z_of_bits by exact Ht.
      destruct (Nat.lt_ge_cases (Z.to_nat t) m) as [Hlt|Hge].
      * rewrite nth_firstn'. replace (Nat.ltb (Z.to_nat t) m) with true by lia. rewrite nth_unread.
        replace ((Z.of_nat 0 <=? t) && (t <? Z.of_nat (0 + m)))%bool with true by lia. reflexivity.
      * rewrite nth_overflow by (rewrite firstn_length; lia).
        replace ((Z.of_nat 0 <=? t) && (t <? Z.of_nat (0 + m)))%bool with false by lia. reflexivity.
  - intros z rest H. unfold Wire.read_word in H. destruct (Nat.ltb _ _); [discriminate|].
    injection H as _ <-. unfold unread. now rewrite skipn_add.
Qed.

(* ------------------------------------------------------------------ *)
(* fcp.serde.decode's start: push_bytes(list(data)); bitaddr = 0 *)

Lemma bytes_of_bits_of_bytes data : Forall byte_ok data -> bytes_of_bits (bits_of_bytes data) = data.
Proof.
  intros Hok. apply bytes_ext.
  - pose proof (bytes_of_bits_length8 (bits_of_bytes data)) as H8. unfold padding in H8.
    rewrite repeat_length, bits_of_bytes_length in H8. unfold pad_len in H8. lia.
  - apply bytes_of_bits_ok.
  - exact Hok.
  - intros i. rewrite bitf_bytes_of_bits. apply nth_bits_of_bytes.
Qed.

Lemma word_bits_bytes data : word_bits (map (fun b => (b, 8%nat)) data) = bits_of_bytes data.
Proof. induction data as [|b data IH]; [reflexivity|]. cbn [map word_bits flat_map fst snd bits_of_bytes]. unfold byte_bits. f_equal. exact IH. Qed.

Theorem decode_init data : Forall byte_ok data ->
  exists self, py_push_bytes py_init data = POk (self, tt) /\ b_buffer self = data /\
               unread (b_buffer (set_bitaddr self 0)) 0 = bits_of_bytes data.
Proof.
  intros Hok. rewrite push_bytes_push_all.
  destruct (push_all_refines (map (fun b => (b, 8%nat)) data) 0%nat [] W_init) as [buf' [Hrun [HW Habs]]].
  change (mk [] (Z.of_nat 0)) with py_init in Hrun. rewrite Hrun. cbn [pbind].
  eexists. split; [reflexivity|]. cbn [mk b_buffer set_bitaddr].
  assert (Hbuf : buf' = data).
  { rewrite (W_bytes _ _ HW). rewrite Habs. cbn [enc_abs seq map app]. rewrite word_bits_bytes. now apply bytes_of_bits_of_bytes. }
  split; [exact Hbuf|]. unfold unread. cbn [skipn]. now rewrite Hbuf.
Qed.

(* read_bytes(k): k consecutive 8-bit words *)
Definition byte_at (buf : list Z) (a j : nat) : Z := Z_of_bits (firstn 8 (unread buf (a + 8 * j))).

Lemma read_bytes_loop buf : forall k a i acc, (a <= 8 * length buf)%nat ->
  for_nat k i
    (fun _ '(self, t2) => pbind (py_read_word self 8) (fun '(self0, t1) => POk (self0, (t2 ++ [t1])%list)))
    (mk buf (Z.of_nat a), acc) =
  if Nat.leb (a + 8 * k) (8 * length buf)
  then POk (mk buf (Z.of_nat (a + 8 * k)), (acc ++ map (byte_at buf a) (seq 0 k))%list)
  else PRaise PyValueError.
Proof.
  induction k as [|k IH]; intros a i acc Ha.
  - cbn [for_nat seq map]. replace (Nat.leb (a + 8 * 0) (8 * length buf)) with true by lia.
    rewrite app_nil_r. do 3 f_equal. lia.
  - cbn [for_nat]. change 8 with (Z.of_nat 8). destruct (read_word_refines buf a 8) as [Hrw _]. rewrite Hrw.
    unfold Wire.read_word. rewrite firstn_length, unread_length.
    destruct (Nat.ltb_spec (Nat.min 8 (8 * length buf - a)) 8) as [Hshort|Hfull].
    + cbn [pbind]. replace (Nat.leb (a + 8 * S k) (8 * length buf)) with false by lia. reflexivity.
    + cbn [pbind]. rewrite IH by lia.
      replace (Nat.leb (a + 8 + 8 * k) (8 * length buf)) with (Nat.leb (a + 8 * S k) (8 * length buf)) by lia.
      destruct (Nat.leb (a + 8 * S k) (8 * length buf)); [|reflexivity].
      f_equal. f_equal; [f_equal; lia|]. rewrite <- app_assoc. f_equal. cbn [app].
      change (seq 0 (S k)) with (0%nat :: seq 1 k). cbn [map]. f_equal.
      * unfold byte_at. now rewrite Nat.mul_0_r, Nat.add_0_r.
      * rewrite (map_seq_shift k _ 1%nat). apply map_ext. intros j. unfold byte_at. f_equal. f_equal. f_equal. lia.
Qed.

Theorem read_bytes_refines buf a k : (a <= 8 * length buf)%nat ->
  py_read_bytes (mk buf (Z.of_nat a)) (Z.of_nat k) =
  if Nat.leb (a + 8 * k) (8 * length buf)
  then POk (mk buf (Z.of_nat (a + 8 * k)), map (byte_at buf a) (seq 0 k))
  else PRaise PyValueError.
Proof.
  intros Ha. unfold py_read_bytes, for_range. rewrite Nat2Z.id. rewrite read_bytes_loop by exact Ha.
  destruct (Nat.leb _ _); reflexivity.
Qed.

(* ------------------------------------------------------------------ *)
(* round trip through the byte buffer: write words, take the bytes, load them, read the words back *)

Fixpoint read_all (self : pybuf) (ms : list nat) : pyres (pybuf * list Z) :=
  match ms with
  | [] => POk (self, [])
  | m :: ms' => pbind (py_read_word self (Z.of_nat m))
                  (fun '(self', z) => pbind (read_all self' ms') (fun '(self'', zs) => POk (self'', z :: zs)))
  end.

Lemma read_all_words buf : forall ws a tail,
  unread buf a = word_bits ws ++ tail ->
  exists self', read_all (mk buf (Z.of_nat a)) (map snd ws) = POk (self', map (fun wm => fst wm mod 2 ^ Z.of_nat (snd wm)) ws).
Proof.
  induction ws as [|[w m] ws IH]; intros a tail Hun.
  - eexists. reflexivity.
  - cbn [map snd fst read_all]. destruct (read_word_refines buf a m) as [Hrw Hrest]. rewrite Hrw.
    cbn [word_bits flat_map fst snd] in Hun. fold (word_bits ws) in Hun. rewrite <- app_assoc in Hun.
    rewrite Hun in *. rewrite read_word_app in *. cbn [pbind].
    specialize (Hrest _ _ eq_refl).
    destruct (IH (a + m)%nat tail (eq_sym Hrest)) as [self' Hall]. rewrite Hall. cbn [pbind]. eexists. reflexivity.
Qed.

Theorem buffer_roundtrip ws :
  exists s1 s2 data s3 s4,
    push_all py_init ws = POk s1 /\ py_get_buffer s1 = POk (s2, data) /\
    py_push_bytes py_init data = POk (s3, tt) /\
    read_all (set_bitaddr s3 0) (map snd ws) = POk (s4, map (fun wm => fst wm mod 2 ^ Z.of_nat (snd wm)) ws).
Proof.
  destruct (encode_bytes ws) as [s1 [H1 [s2 H2]]].
  assert (Hok : Forall byte_ok (bytes_of_bits (word_bits ws))) by apply bytes_of_bits_ok.
  destruct (decode_init _ Hok) as [s3 [H3 [Hbuf Hun]]].
  destruct s3 as [buf3 ba3]. cbn [b_buffer set_bitaddr] in *. subst buf3.
  rewrite bits_of_bytes_of_bits in Hun.
  destruct (read_all_words _ ws 0%nat _ Hun) as [s4 H4].
  exists s1, s2, (bytes_of_bits (word_bits ws)), {| b_buffer := bytes_of_bits (word_bits ws); b_bitaddr := ba3 |}, s4.
  repeat split; assumption.
Qed.
