(* Model of src/fcp/serde.py (as repaired: every read/write goes through the
   bit cursor, struct fields in ascending field id, enums on their packed
   width).  _Buffer is abstracted to the bit string written so far: push_word
   appends the n low bits of the word at the cursor, read_word consumes n bits
   and raises "buffer overrun" on the first missing one; get_buffer() is the
   zero-padded byte packing.  No proofs here. *)
From Coq Require Import String ZArith List Bool.
From FcpV Require Import Base.Bits Schema.Types Wire.Wire.
Import ListNotations.
Open Scope Z_scope.

(* _decode_builtin_signed:  max = 2**length; if word > max / 2: -(max - word) else word
   (max / 2 is a float, exact for powers of two; for length 0 it is 0.5 and
   "word > 0.5" is "word > 0" on integers) *)
Definition py_sdec (n : nat) (w : Z) : Z :=
  let max := 2 ^ Z.of_nat n in if (max / 2 <? w) then - (max - w) else w.

(* signed values the Python decoder gives back unchanged *)
Definition py_okS (n : nat) (z : Z) : bool :=
  in_signed n z && negb (z =? - 2 ^ (Z.of_nat n - 1)).

Definition py_enc : rty -> value -> option bits := wire.
Definition py_dec : rty -> bits -> outcome (value * bits) := gdec py_sdec.

(* fcp.serde.encode(fcp, name, value) -> bytearray ; None = outside the model
   (unknown struct, ill-typed value) *)
Definition py_encode (sc : schema) (name : string) (v : value) : option (list Z) :=
  match resolve sc name with
  | Some t => option_map bytes_of_bits (py_enc t v)
  | None => None
  end.

(* fcp.serde.decode(fcp, name, bytes) *)
Definition py_decode (sc : schema) (name : string) (bytes : list Z) : option (outcome value) :=
  match resolve sc name with
  | Some t => Some (gdecode_bytes py_sdec t bytes)
  | None => None
  end.
