From Coq Require Import String ZArith List Bool Lia.
From FcpV Require Import Base.Bits Base.BitsProofs Schema.Types Wire.Wire Wire.WireProofs Py.PySerde.
Import ListNotations.
Open Scope Z_scope.

Lemma py_sdec_ok n z : py_okS n z = true -> py_sdec n (z mod 2 ^ Z.of_nat n) = z.
Proof.
  unfold py_okS, in_signed, py_sdec. intros H.
  apply andb_true_iff in H. destruct H as [H H4]. apply andb_true_iff in H. destruct H as [H H3].
  apply andb_true_iff in H. destruct H as [H1 H2].
  apply Z.leb_le in H1, H2. apply Z.ltb_lt in H3. apply negb_true_iff, Z.eqb_neq in H4.
  assert (Hn : (1 <= n)%nat) by lia. pose proof (pow2_double n Hn) as Hd.
  assert (Hp : 0 < 2 ^ (Z.of_nat n - 1)) by (apply Z.pow_pos_nonneg; lia).
  set (h := 2 ^ (Z.of_nat n - 1)) in *. cbv zeta. rewrite Hd. clearbody h.
  replace (2 * h / 2) with h by (rewrite Z.mul_comm, Z.div_mul; lia).
  destruct (Z.lt_ge_cases z 0) as [Hneg|Hpos].
  - assert (E : z mod (2 * h) = z + 2 * h) by (symmetry; apply Z.mod_unique_pos with (q := -1); lia).
    rewrite E. destruct (Z.ltb_spec h (z + 2 * h)); lia.
  - rewrite Z.mod_small by lia. destruct (Z.ltb_spec h z); lia.
Qed.

(* the one place where the Python decoder is wrong: the signed minimum *)
Lemma py_sdec_signed_min n : (1 <= n)%nat ->
  py_sdec n ((- 2 ^ (Z.of_nat n - 1)) mod 2 ^ Z.of_nat n) = 2 ^ (Z.of_nat n - 1).
Proof.
  intros Hn. unfold py_sdec. pose proof (pow2_double n Hn) as Hd.
  assert (Hp : 0 < 2 ^ (Z.of_nat n - 1)) by (apply Z.pow_pos_nonneg; lia).
  set (h := 2 ^ (Z.of_nat n - 1)) in *. cbv zeta. rewrite Hd. clearbody h.
  replace (2 * h / 2) with h by (rewrite Z.mul_comm, Z.div_mul; lia).
  assert (E : (- h) mod (2 * h) = h) by (symmetry; apply Z.mod_unique_pos with (q := -1); lia).
  rewrite E. destruct (Z.ltb_spec h h); lia.
Qed.

Lemma has_type_py_weaken t v : has_type t v = true -> has_type_gen any_signed t v = true.
Proof. apply (has_type_weaken in_signed). Qed.

(* ---- whole-message statements (bytes) ---- *)

(* decode(encode v) for EVERY in-range value: v with each signed minimum
   replaced by what py_sdec makes of it *)
Theorem py_decode_encode_norm sc name t v bytes :
  resolve sc name = Some t -> has_type t v = true ->
  py_encode sc name v = Some bytes ->
  py_decode sc name bytes = Some (Ok (norm py_sdec t v)).
Proof.
  intros Hr Hty He. unfold py_encode, py_decode in *. rewrite Hr in *.
  unfold py_enc in He. destruct (wire t v) as [bs|] eqn:Ew; cbn [option_map] in He; [|discriminate].
  some_inv He. unfold gdecode_bytes. rewrite bits_of_bytes_of_bits.
  destruct (gdec_wire py_sdec t v bs (has_type_py_weaken t v Hty) Ew) as [Hrt _].
  now rewrite Hrt.
Qed.

Theorem py_roundtrip_partial_lemma sc name t v bytes :
  resolve sc name = Some t -> has_type_gen py_okS t v = true ->
  py_encode sc name v = Some bytes ->
  py_decode sc name bytes = Some (Ok v).
Proof.
  intros Hr Hty He. unfold py_encode, py_decode in *. rewrite Hr in *.
  unfold py_enc in He. destruct (wire t v) as [bs|] eqn:Ew; cbn [option_map] in He; [|discriminate].
  some_inv He. unfold gdecode_bytes. rewrite bits_of_bytes_of_bits.
  destruct (gdec_wire py_sdec t v bs (has_type_weaken py_okS t v Hty) Ew) as [Hrt _].
  rewrite Hrt. cbn [bind]. now rewrite (norm_id py_okS py_sdec py_sdec_ok t v Hty).
Qed.

(* encode never fails on an in-range value *)
Theorem py_encode_total_lemma sc name t v :
  resolve sc name = Some t -> has_type t v = true -> exists bytes, py_encode sc name v = Some bytes.
Proof.
  intros Hr Hty. unfold py_encode. rewrite Hr.
  destruct (wire_total t v (has_type_py_weaken t v Hty)) as [bs Hb].
  unfold py_enc. rewrite Hb. eexists; reflexivity.
Qed.

(* every strict byte prefix of an encoding overruns *)
Theorem py_decode_prefix_fails_lemma sc name t v bytes k :
  resolve sc name = Some t -> has_type t v = true ->
  py_encode sc name v = Some bytes -> (k < length bytes)%nat ->
  py_decode sc name (firstn k bytes) = Some (Raise Overrun).
Proof.
  intros Hr Hty He Hk. unfold py_encode, py_decode in *. rewrite Hr in *.
  unfold py_enc in He. destruct (wire t v) as [bs|] eqn:Ew; cbn [option_map] in He; [|discriminate].
  some_inv He. unfold gdecode_bytes.
  destruct (byte_prefix_is_bit_prefix bs k Hk) as [Hb Hlt]. rewrite Hb.
  destruct (gdec_wire py_sdec t v bs (has_type_py_weaken t v Hty) Ew) as [_ Hpre].
  rewrite Hpre; [reflexivity|].
  exists (skipn (8 * k) bs). split.
  - intros Hnil. apply (f_equal (@length bool)) in Hnil. rewrite skipn_length in Hnil. cbn in Hnil. lia.
  - symmetry. apply firstn_skipn.
Qed.
