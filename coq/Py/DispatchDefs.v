(* Definitions that relate the translated dispatch layer of serde.py (gen/PyDispatch.v) to the wire model: the Python image of
   a model value, what a syntactic type denotes under the schema's run-time lookups, and the side conditions of the refinement
   theorems (Py/DispatchProofs.v).  No proofs here. *)
From Coq Require Import String ZArith List Bool.
From FcpV Require Import Schema.Types Wire.Wire Py.BufferLib Py.DispatchLib.
Import ListNotations.
Open Scope Z_scope.

(* ---------- the Python image of a model value (type-directed: Some x is x, so Some None cannot be told from None) ---------- *)
Definition embed : rty -> value -> pyval :=
  fix em (t : rty) (v : value) {struct t} : pyval :=
  match t, v with
  | ROpt t', VSome v' => em t' v'
  | RArr t' _, VList vs => PList (map (em t') vs)
  | RDyn t', VList vs => PList (map (em t') vs)
  | RStruct fs, VStruct kvs => PDict (map2 (fun (f : string * rty) (kv : string * value) => (fst kv, em (snd f) (snd kv))) fs kvs)
  | _, VInt z => PInt z
  | _, VBits b => PFlt b
  | _, VStr cs => PStr cs
  | _, _ => PNone
  end.

(* values Python can represent: no Some whose content is (the image of) None *)
Definition repr : rty -> value -> bool :=
  fix rp (t : rty) (v : value) {struct t} : bool :=
  match t, v with
  | ROpt t', VSome v' => negb (py_is_none (embed t' v')) && rp t' v'
  | RArr t' _, VList vs => forallb (rp t') vs
  | RDyn t', VList vs => forallb (rp t') vs
  | RStruct fs, VStruct kvs => forallb2 (fun (f : string * rty) (kv : string * value) => rp (snd f) (snd kv)) fs kvs
  | _, _ => true
  end.

(* field names are unique within every struct (what makes data[field.name] the positional access of the model) *)
Definition uniq : rty -> Prop :=
  fix uq (t : rty) : Prop :=
  match t with
  | RArr t' _ | RDyn t' | ROpt t' => uq t'
  | RStruct fs => NoDup (map fst fs) /\ fold_right (fun f P => uq (snd f) /\ P) True fs
  | _ => True
  end.

(* call depth of _encode / _decode on a type *)
Definition depth : rty -> nat :=
  fix dp (t : rty) : nat :=
  match t with
  | RStr => 3%nat
  | RArr t' _ | RDyn t' | ROpt t' => (2 + dp t')%nat
  | RStruct fs => (2 + fold_right (fun f m => Nat.max (dp (snd f)) m) 0%nat fs)%nat
  | _ => 1%nat
  end.

(* ---------- a syntactic type denotes a closed type tree under the run-time lookups of the schema ---------- *)
Definition Forall2p {A B : Type} (P : A -> B -> Prop) : list A -> list B -> Prop :=
  fix go (a : list A) (b : list B) {struct a} : Prop :=
  match a, b with
  | [], [] => True
  | x :: a', y :: b' => P x y /\ go a' b'
  | _, _ => False
  end.

Definition den (sc : schema) : rty -> sty -> Prop :=
  fix dn (t : rty) (st : sty) {struct t} : Prop :=
  match t with
  | RU n => st = SU n
  | RI n => st = SI n
  | RF32 => st = SF32
  | RF64 => st = SF64
  | RStr => st = SStr
  | REnum w => exists s e, st = SEnumRef s /\ py_get_enum sc s = POk e /\ w = packed_size (enum_max e)
  | RArr t' n => exists st', st = SArr st' n /\ dn t' st'
  | RDyn t' => exists st', st = SDyn st' /\ dn t' st'
  | ROpt t' => exists st', st = SOpt st' /\ dn t' st'
  | RStruct fs => exists s str, st = SStructRef s /\ py_get_struct sc s = POk str /\
                                Forall2p (fun (f : string * rty) (sf : sfield) => fname sf = fst f /\ dn (snd f) (fty sf)) fs (sort_by fid (sfields str))
  end.


(* the exception the code raises where the model raises *)
Definition exn_py (e : exn) : pyexn := match e with Overrun => PyValueError | BadAscii => PyUnicodeError end.
