(* The Python run-time the translated src/fcp/codegen.py (gen/PyCodegen.v) runs on: a state-and-exception monad over the output
   directory, the results a plug-in hands back, and the few file operations _handle_file performs.  Hand-written (trusted; DESIGN
   §23).  No proofs here. *)
From Coq Require Import String ZArith List Bool.
From FcpV Require Import Schema.Types Layout.Packed Verifier.Checks Codegen.Pipeline.
Import ListNotations.

(* a statement: from the directory before to (how it ended, the directory after) *)
Definition st (A : Type) := fsys -> comp A * fsys.

Definition sret {A : Type} (a : A) : st A := fun fs => (Ret a, fs).

(* s1; s2   - an exception in s1 skips s2, the directory stays as s1 left it *)
Definition sbind {A B : Type} (m : st A) (k : A -> st B) : st B :=
  fun fs => match m fs with
            | (Ret a, fs') => k a fs'
            | (AttemptErr e, fs') => (AttemptErr e, fs')
            | (Exn, fs') => (Exn, fs')
            end.

(* a computation that does not touch the directory *)
Definition lift {A : Type} (c : comp A) : st A := fun fs => (c, fs).

(* for x in l: body *)
Fixpoint sfor {A : Type} (l : list A) (body : A -> st unit) : st unit :=
  match l with
  | [] => sret tt
  | x :: l' => sbind (body x) (fun _ => sfor l' body)
  end.

(* the @catch decorator around a whole function *)
Definition catch_st {A : Type} (m : st (result A)) : st (result A) :=
  fun fs => let '(c, fs') := m fs in (catch c, fs').

(* one entry of what a plug-in's generate() returns: {"type": ..., "path": ..., "contents": ...} (contents as opaque ids) *)
Record gres := { g_type : string; g_path : string; g_contents : Z }.

Definition results_of (files : list (string * Z)) : list gres :=
  map (fun f => {| g_type := "file"; g_path := fst f; g_contents := snd f |}) files.

(* the plug-in's generate(fcp, ctx): it raises, or returns its results; the C plug-in deletes the *.h / *.c files of the output
   directory before it renders (Pipeline.preclean) *)
Definition plugin_generate (pl : plugin) (out : plugin_out) : st (list gres) :=
  fun fs => match out with
            | PRaise => (Exn, fs)
            | PFiles files => (Ret (results_of files), preclean pl fs)
            end.

(* path.parent.mkdir(exist_ok=True): the output directory is flat and exists *)
Definition mkdir_parent (path : string) : st unit := sret tt.
(* path.write_text(contents): afterwards the file holds exactly these contents, whatever it held before *)
Definition write_text (path : string) (contents : Z) : st unit := fun fs => (Ret tt, fs_write path contents fs).
(* print(...) *)
Definition py_print (contents : Z) : st unit := sret tt.
