(* The translated src/fcp/codegen.py (gen/PyCodegen.v) is the model of C10 (Codegen/Pipeline.v): GeneratorManager.generate, run from
   any directory, ends the way manager_generate says and leaves the directory manager_generate says. *)
From Coq Require Import String ZArith List Bool.
From FcpV Require Import Schema.Types Layout.Packed Verifier.Checks Codegen.Pipeline Codegen.CodegenLib gen.PyCodegen.
Import ListNotations.

(* writing the results one by one is fs_write_all *)
Lemma handle_results_write_all files : forall fs,
  sfor (results_of files) (fun r => py_handle_result r) fs = (Ret tt, fs_write_all files fs).
Proof.
  induction files as [|f files IH]; intros fs; [reflexivity|].
  cbn [results_of map sfor]. unfold sbind at 1. unfold py_handle_result at 1. cbn [g_type String.eqb Ascii.eqb Bool.eqb].
  unfold py_handle_file, sbind, mkdir_parent, sret, write_text. cbn [g_path g_contents].
  fold (results_of files). rewrite IH. unfold fs_write_all. reflexivity.
Qed.

Theorem gen_is_model pl out fs : py_gen pl out fs = gen_comp pl out fs.
Proof.
  unfold py_gen, gen_comp, sbind, plugin_generate. destruct out as [files|]; [|reflexivity].
  apply handle_results_write_all.
Qed.

Theorem manager_generate_is_model pl t out fs : py_manager_generate pl t out fs = manager_generate pl t out fs.
Proof.
  unfold py_manager_generate, manager_generate, catch_st. cbv zeta.
  unfold sbind at 1. unfold lift. destruct (cbind (verify_comp pl t) attempt) as [u|e|]; [|reflexivity|reflexivity].
  unfold sbind. rewrite gen_is_model. destruct (gen_comp pl out fs) as [[u'|e|] fs']; reflexivity.
Qed.

(* the gate, stated about the translated source *)
Theorem source_gate pl t out fs :
  match verify pl t with
  | VErr c => py_manager_generate pl t out fs = (Ret (RErr c), fs)
  | VRaise => py_manager_generate pl t out fs = (Exn, fs)
  | VOk => match out with
           | PFiles files => py_manager_generate pl t out fs = (Ret (ROk tt), fs_write_all files (preclean pl fs))
           | PRaise => py_manager_generate pl t out fs = (Exn, fs)
           end
  end.
Proof.
  rewrite manager_generate_is_model. unfold manager_generate, verify_comp.
  destruct (verify pl t); cbn; [|reflexivity|reflexivity]. destruct out; reflexivity.
Qed.
