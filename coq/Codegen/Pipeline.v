(* Model of src/fcp/codegen.py: GeneratorManager.generate under @catch, with
   the Result/attempt algebra of src/fcp/result.py and maybe.py made explicit.

     @catch
     def generate(...):
         generator = self._get_generator(name).Generator()
         generator.register_checks(self.verifier)
         self.verifier.verify(fcp).attempt()      # Err -> ResultAttemptError
         ...
         generator.gen(fcp, templates, skels, output_path)   # generate(); then handle_result per file
         return Ok(())

   A computation either returns, raises the attempt error carrying an FCP
   error value (which @catch turns back into Err), or lets another exception
   escape.  No proofs here. *)
From Coq Require Import String ZArith List Bool.
From FcpV Require Import Schema.Types Layout.Packed Verifier.Checks.
Import ListNotations.
Open Scope Z_scope.

(* the output directory: file name -> content (contents are opaque ids) *)
Definition fsys := list (string * Z).

Fixpoint fs_write (name : string) (c : Z) (fs : fsys) : fsys :=
  match fs with
  | [] => [(name, c)]
  | (n, c') :: fs' => if String.eqb n name then (n, c) :: fs' else (n, c') :: fs_write name c fs'
  end.

Definition fs_write_all (files : list (string * Z)) (fs : fsys) : fsys :=
  fold_left (fun acc f => fs_write (fst f) (snd f) acc) files fs.

Definition fs_remove_if (p : string -> bool) (fs : fsys) : fsys :=
  filter (fun f => negb (p (fst f))) fs.

(* ---------- the exception algebra ---------- *)
Inductive comp (A : Type) :=
| Ret (a : A)                   (* normal return *)
| AttemptErr (e : check_id)     (* ResultAttemptError / MaybeAttemptError in flight *)
| Exn.                          (* any other exception in flight *)
Arguments Ret {A} a. Arguments AttemptErr {A} e. Arguments Exn {A}.

Inductive result (A : Type) := ROk (a : A) | RErr (e : check_id).
Arguments ROk {A} a. Arguments RErr {A} e.

(* Result.attempt() *)
Definition attempt {A} (r : result A) : comp A :=
  match r with ROk a => Ret a | RErr e => AttemptErr e end.

(* the @catch decorator: only the attempt errors are turned into values *)
Definition catch {A} (c : comp (result A)) : comp (result A) :=
  match c with
  | Ret r => Ret r
  | AttemptErr e => Ret (RErr e)
  | Exn => Exn
  end.

Definition cbind {A B} (c : comp A) (k : A -> comp B) : comp B :=
  match c with Ret a => k a | AttemptErr e => AttemptErr e | Exn => Exn end.

(* Verifier.verify is itself @catch-decorated: verdict -> computation of a Result *)
Definition verify_comp (pl : plugin) (t : ftree) : comp (result unit) :=
  match verify pl t with
  | VOk => Ret (ROk tt)
  | VErr c => Ret (RErr c)
  | VRaise => Exn
  end.

(* what the plug-in's generate() does: returns files, or raises; the C plug-in
   first deletes the *.h / *.c files of the output directory *)
Inductive plugin_out := PFiles (files : list (string * Z)) | PRaise.

Definition ends_with (suffix s : string) : bool :=
  let n := String.length s in let m := String.length suffix in
  Nat.leb m n && String.eqb (substring (n - m) m s) suffix.

Definition is_c_source (name : string) : bool := ends_with ".h" name || ends_with ".c" name.

Definition preclean (pl : plugin) (fs : fsys) : fsys :=
  match pl with CanC => fs_remove_if is_c_source fs | _ => fs end.

(* generator.gen: for result in generate(...): handle_result(result) *)
Definition gen_comp (pl : plugin) (out : plugin_out) (fs : fsys) : comp unit * fsys :=
  match out with
  | PRaise => (Exn, fs)
  | PFiles files => (Ret tt, fs_write_all files (preclean pl fs))
  end.

(* GeneratorManager.generate *)
Definition manager_generate (pl : plugin) (t : ftree) (out : plugin_out) (fs : fsys)
  : comp (result unit) * fsys :=
  let body : comp (result unit) * fsys :=
    match cbind (verify_comp pl t) attempt with        (* self.verifier.verify(fcp).attempt() *)
    | Ret _ =>
        let '(c, fs') := gen_comp pl out fs in
        (cbind c (fun _ => Ret (ROk tt)), fs')
    | AttemptErr e => (AttemptErr e, fs)
    | Exn => (Exn, fs)
    end in
  (catch (fst body), snd body).
