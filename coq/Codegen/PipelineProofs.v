From Coq Require Import String ZArith List Bool.
From FcpV Require Import Schema.Types Layout.Packed Verifier.Checks Codegen.Pipeline.
Import ListNotations.

(* a rejected schema: the error of the failing check comes back as a value and
   the directory is untouched, whatever the plug-in would have produced *)
Theorem rejected_writes_nothing_lemma pl t out fs c :
  verify pl t = VErr c -> manager_generate pl t out fs = (Ret (RErr c), fs).
Proof. intros H. unfold manager_generate, verify_comp. rewrite H. reflexivity. Qed.

(* a check that raises: the exception escapes, the directory is untouched *)
Theorem raising_check_writes_nothing_lemma pl t out fs :
  verify pl t = VRaise -> manager_generate pl t out fs = (Exn, fs).
Proof. intros H. unfold manager_generate, verify_comp. rewrite H. reflexivity. Qed.

(* accepted: exactly the returned files are written with the returned contents *)
Theorem accepted_writes_exactly_lemma pl t files fs :
  verify pl t = VOk ->
  manager_generate pl t (PFiles files) fs = (Ret (ROk tt), fs_write_all files (preclean pl fs)).
Proof. intros H. unfold manager_generate, verify_comp. rewrite H. reflexivity. Qed.

Theorem accepted_plugin_raises_lemma pl t fs :
  verify pl t = VOk -> manager_generate pl t PRaise fs = (Exn, fs).
Proof. intros H. unfold manager_generate, verify_comp. rewrite H. reflexivity. Qed.

(* the result is Ok only if verification succeeded *)
Theorem ok_only_if_verified_lemma pl t out fs fs' :
  manager_generate pl t out fs = (Ret (ROk tt), fs') -> verify pl t = VOk.
Proof.
  unfold manager_generate, verify_comp. destruct (verify pl t); cbn; [reflexivity| |]; intros H; inversion H.
Qed.

(* ---- what fs_write_all means as a finite map ---- *)
Fixpoint fs_get (name : string) (fs : fsys) : option Z :=
  match fs with
  | [] => None
  | (n, c) :: fs' => if String.eqb n name then Some c else fs_get name fs'
  end.

Lemma fs_get_write_same name c fs : fs_get name (fs_write name c fs) = Some c.
Proof.
  induction fs as [|[n c'] fs IH]; cbn; [now rewrite String.eqb_refl|].
  destruct (String.eqb n name) eqn:E; cbn; rewrite E; [reflexivity|exact IH].
Qed.

Lemma fs_get_write_other name name' c fs : name' <> name -> fs_get name' (fs_write name c fs) = fs_get name' fs.
Proof.
  intros Hne. induction fs as [|[n c'] fs IH]; cbn.
  - destruct (String.eqb name name') eqn:E; [apply String.eqb_eq in E; congruence|reflexivity].
  - destruct (String.eqb n name) eqn:E; cbn.
    + apply String.eqb_eq in E. subst n.
      destruct (String.eqb name name') eqn:E2; [apply String.eqb_eq in E2; congruence|reflexivity].
    + destruct (String.eqb n name'); [reflexivity|exact IH].
Qed.

(* a name not among the written ones keeps its old content (or absence) *)
Theorem untouched_names_keep_content files : forall fs name,
  ~ In name (map fst files) -> fs_get name (fs_write_all files fs) = fs_get name fs.
Proof.
  unfold fs_write_all. induction files as [|[n c] files IH]; intros fs name Hn; [reflexivity|].
  cbn [fold_left fst snd]. rewrite IH by (intros Hc; apply Hn; now right).
  apply fs_get_write_other. intros ->. apply Hn. now left.
Qed.

(* the last write to a name wins *)
Theorem written_name_has_last_content files : forall fs name c,
  fs_get name (fs_write_all (files ++ [(name, c)]) fs) = Some c.
Proof.
  intros fs name c. unfold fs_write_all. rewrite fold_left_app. cbn. apply fs_get_write_same.
Qed.
