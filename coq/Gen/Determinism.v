(* C17: the sources of non-determinism the generators contain, as Gallina.
   - FcpV2.get_protocols() is list(set(...)): SOME permutation of the distinct
     protocol names, different from process to process (hash seed);
   - the C++ generator emits one fcp_<protocol>.h per element of that list
     (plus fixed files and two per service);
   - Generator.generate (C++) extends the schema with the RPC types; as repaired
     it does so on a copy, so the caller's schema object is left unchanged.
   No proofs here. *)
From Coq Require Import String Ascii ZArith List Bool.
From FcpV Require Import Schema.Types.
Import ListNotations.
Open Scope string_scope.

(* to_snake_case: first character lowered, every later upper-case letter becomes "_" + lower *)
Definition is_upper (c : ascii) : bool := let n := nat_of_ascii c in Nat.leb 65 n && Nat.leb n 90.
Definition lower (c : ascii) : ascii := if is_upper c then ascii_of_nat (nat_of_ascii c + 32) else c.
Fixpoint snake_tail (s : string) : string :=
  match s with
  | EmptyString => EmptyString
  | String c s' => if is_upper c then String "_" (String (lower c) (snake_tail s')) else String c (snake_tail s')
  end.
Definition to_snake_case (s : string) : string :=
  match s with EmptyString => EmptyString | String c s' => String (lower c) (snake_tail s') end.

Definition fixed_files : list string :=
  ["fcp.h"; "buffer.h"; "decoders.h"; "dynamic.h"; "reflection.h"; "can.h"; "i_can_schema.h";
   "can_static_schema.h"; "can_dynamic_schema.h"; "i_schema.h"; "rpc.h"].

(* the names of the files the C++ generator returns, in the order it returns them *)
Definition cpp_file_names (protocols : list string) (services : list string) : list string :=
  (fixed_files ++ map (fun p => ("fcp_" ++ p ++ ".h")%string) protocols ++
   flat_map (fun s => [(to_snake_case s ++ "_server.h")%string; (to_snake_case s ++ "_client.h")%string]) services)%list.

(* files as a finite map: what ends up on disk *)
Definition files_of {C : Type} (content : string -> C) (names : list string) : list (string * C) :=
  map (fun n => (n, content n)) names.

(* distinct protocol names in first-appearance order (a canonical representative of the set) *)
Fixpoint dedup (l : list string) : list string :=
  match l with
  | [] => []
  | x :: l' => if existsb (String.eqb x) l' then dedup l' else x :: dedup l'
  end.

(* ---- the generator as a step on the caller's schema object ---- *)
Section Step.
  Context {T F : Type}.
  Context (rpc_extend : T -> T) (render : T -> F).
  (* as repaired: generate works on a copy *)
  Definition gen_step (t : T) : T * F := (t, render (rpc_extend t)).
  (* as it was: generate_rpc mutated its argument *)
  Definition gen_step_mutating (t : T) : T * F := (rpc_extend t, render (rpc_extend t)).

  Fixpoint gen_history (step : T -> T * F) (n : nat) (t : T) : list F :=
    match n with
    | O => []
    | S n' => let '(t', f) := step t in f :: gen_history step n' t'
    end.
End Step.
