From Coq Require Import String Ascii ZArith List Bool Permutation.
From FcpV Require Import Schema.Types Gen.Determinism.
Import ListNotations.
Open Scope string_scope.

(* looking a path up in the file list *)
Lemma lookup_files_of {C} (content : string -> C) names n :
  lookup n (files_of content names) = if existsb (String.eqb n) names then Some (content n) else None.
Proof.
  induction names as [|x names IH]; [reflexivity|]. cbn. destruct (String.eqb n x) eqn:E.
  - apply String.eqb_eq in E. now subst.
  - exact IH.
Qed.

Lemma existsb_perm (p : string -> bool) l l' : Permutation l l' -> existsb p l = existsb p l'.
Proof.
  induction 1 as [|x l l' _ IH|x y l|l l' l'' _ IH1 _ IH2]; cbn.
  - reflexivity.
  - now rewrite IH.
  - destruct (p x), (p y); reflexivity.
  - congruence.
Qed.

(* the files on disk do not depend on the order get_protocols() happens to
   return: any permutation of the protocol list gives the same path -> contents map *)
Theorem file_set_perm_invariant_lemma {C} (content : string -> C) ps ps' services :
  Permutation ps ps' ->
  forall path, lookup path (files_of content (cpp_file_names ps services)) =
               lookup path (files_of content (cpp_file_names ps' services)).
Proof.
  intros Hp path. rewrite !lookup_files_of. unfold cpp_file_names.
  rewrite !existsb_app.
  rewrite (existsb_perm (String.eqb path) _ _ (Permutation_map (fun p : string => ("fcp_" ++ p ++ ".h")%string) Hp)).
  reflexivity.
Qed.

(* and the number of files is the same *)
Theorem file_count_perm_invariant {C} (content : string -> C) ps ps' services :
  Permutation ps ps' -> length (files_of content (cpp_file_names ps services)) = length (files_of content (cpp_file_names ps' services)).
Proof.
  intros Hp. unfold files_of, cpp_file_names. rewrite !map_length, !app_length, !map_length.
  now rewrite (Permutation_length Hp).
Qed.

(* a generator that works on a copy returns the same artefacts on every call of any history *)
Theorem gen_history_constant {T F} (rpc_extend : T -> T) (render : T -> F) n t :
  gen_history (gen_step rpc_extend render) n t = repeat (render (rpc_extend t)) n.
Proof. induction n as [|n IH]; [reflexivity|]. cbn. now rewrite IH. Qed.

(* one that mutates its argument does not, as soon as extending twice differs from extending once *)
Theorem gen_history_mutating_differs {T F} (rpc_extend : T -> T) (render : T -> F) t :
  render (rpc_extend (rpc_extend t)) <> render (rpc_extend t) ->
  exists a b, gen_history (gen_step_mutating rpc_extend render) 2 t = [a; b] /\ a <> b.
Proof. intros H. eexists. eexists. split; [reflexivity|]. cbn. congruence. Qed.
