(* The translated reflection() methods (gen/PyRefl.v) are the model (Reflect/Reflection.v): every class's method returns the model's
   value for the corresponding node, and the model's type chain satisfies the translated method of every Type class. *)
From Coq Require Import String ZArith List Bool.
From FcpV Require Import Schema.Types Reflect.Reflection Reflect.ReflLib gen.PyRefl.
Import ListNotations.
Local Open Scope string_scope.

(* ---------- the Type classes ---------- *)
Lemma numeric_type name kind : py_NumericType_reflection name kind = refl_type (TLeaf name kind).
Proof. reflexivity. Qed.
Lemma string_type : py_StringType_reflection = refl_type (TLeaf "str" "str").
Proof. reflexivity. Qed.
Lemma enum_type name : py_EnumType_reflection name = refl_type (TLeaf name "Enum").
Proof. reflexivity. Qed.
Lemma struct_type name : py_StructType_reflection name = refl_type (TLeaf name "Struct").
Proof. reflexivity. Qed.
Lemma array_type t n : py_ArrayType_reflection n (py_type_reflection t) = py_type_reflection (TArr t n).
Proof. reflexivity. Qed.
Lemma dynamic_array_type t : py_DynamicArrayType_reflection (py_type_reflection t) = py_type_reflection (TDyn t).
Proof. reflexivity. Qed.
Lemma optional_type t : py_OptionalType_reflection (py_type_reflection t) = py_type_reflection (TOpt t).
Proof. reflexivity. Qed.

(* ---------- the nodes ---------- *)
Lemma meta_is_model m : py_MetaData_reflection m = refl_meta m.
Proof. reflexivity. Qed.

Lemma vopt_ext {A : Type} (f g : A -> value) o : (forall a, f a = g a) -> vopt f o = vopt g o.
Proof. intros H. destruct o; cbn; [now rewrite H|reflexivity]. Qed.

Lemma field_is_model f : py_StructField_reflection f = refl_field f.
Proof. reflexivity. Qed.

Lemma struct_is_model s : py_Struct_reflection s = refl_struct s.
Proof. reflexivity. Qed.

Lemma enumeration_is_model e : py_Enumeration_reflection e = refl_enumeration e.
Proof. reflexivity. Qed.

Lemma enum_is_model e : py_Enum_reflection e = refl_enum e.
Proof. reflexivity. Qed.

Lemma signal_is_model g : py_SignalBlock_reflection g = refl_signal g.
Proof. reflexivity. Qed.

Lemma impl_is_model i : py_Impl_reflection i = refl_impl i.
Proof. reflexivity. Qed.

Lemma method_is_model m : py_Method_reflection m = refl_method m.
Proof. reflexivity. Qed.

Lemma service_is_model s : py_Service_reflection s = refl_service s.
Proof. reflexivity. Qed.

Theorem reflection_is_model t : py_FcpV2_reflection t = reflection t.
Proof. reflexivity. Qed.
