(* The Python run-time the translated reflection() methods (gen/PyRefl.v) run on.  Hand-written (trusted; DESIGN §25).  No proofs here. *)
From Coq Require Import String ZArith List Bool.
From FcpV Require Import Schema.Types Reflect.Reflection.
Import ListNotations.

(* a dict literal handed to the codec as a value of struct <tyname> of the built-in reflection schema: the codec reads it BY KEY, field
   after field in ascending field id; a key the literal lacks would be a KeyError there (VNone here: it then differs from every model
   value, whose fields are never absent), a key the schema lacks is never read *)
Definition py_dict (tyname : string) (kvs : list (string * value)) : value :=
  match find (fun s => String.eqb (sname s) tyname) (structs expected_schema) with
  | Some s => VStruct (map (fun f => (fname f, match lookup (fname f) kvs with Some v => v | None => VNone end)) (sort_by fid (sfields s)))
  | None => VStruct kvs
  end.

(* self.type.reflection(): dynamic dispatch on the class of the type object.  The tree's type carries that class (TLeaf for the
   numeric / str / enum / struct classes, TArr / TDyn / TOpt for the containers) and the model's refl_type is the dispatch;
   Reflect/ReflSrcProofs.v shows that it satisfies the translated method of every class *)
Definition py_type_reflection (t : rtype) : list value := refl_type t.
