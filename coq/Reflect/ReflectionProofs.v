From Coq Require Import String Ascii ZArith List Bool Lia.
From FcpV Require Import Schema.Types Reflect.Reflection.
Import ListNotations.
Open Scope Z_scope.

Lemma of_codes_codes s : of_codes (codes s) = s.
Proof.
  induction s as [|a s IH]; [reflexivity|]. cbn [codes of_codes].
  now rewrite Nat2Z.id, ascii_nat_embedding, IH.
Qed.

Lemma omap_map {A B} (f : B -> option A) (g : A -> B) l :
  (forall x, f (g x) = Some x) -> omap f (map g l) = Some l.
Proof. intros H. induction l as [|x l IH]; [reflexivity|]. cbn. now rewrite H, IH. Qed.

Lemma un_meta_refl m : un_meta (refl_meta m) = Some m.
Proof. destruct m. cbn. now rewrite of_codes_codes. Qed.

Lemma un_opt_vopt {A} (f : A -> value) (g : value -> option A) o :
  (forall a, g (f a) = Some a) -> (forall a, f a <> VNone) -> un_opt g (vopt f o) = Some o.
Proof. intros H Hn. destruct o as [a|]; cbn; [now rewrite H|reflexivity]. Qed.

Lemma un_opt_meta o : un_opt un_meta (vopt refl_meta o) = Some o.
Proof. destruct o as [m|]; cbn [vopt un_opt]; [now rewrite un_meta_refl|reflexivity]. Qed.

Lemma un_opt_str o : un_opt un_str (vopt vstr o) = Some o.
Proof. destruct o as [s|]; cbn; [now rewrite of_codes_codes|reflexivity]. Qed.

Lemma un_opt_bits o : un_opt un_bits (vopt VBits o) = Some o.
Proof. destruct o; reflexivity. Qed.

Lemma un_entry_type n k s : un_entry (type_entry n k s) = Some (n, s, k).
Proof. cbn. now rewrite !of_codes_codes. Qed.

(* entries of a type chain *)
Fixpoint chain (t : rtype) : list (string * Z * string) :=
  match t with
  | TLeaf n k => [(n, 1, k)]
  | TArr t' n => ("Array"%string, n, "Array"%string) :: chain t'
  | TDyn t' => ("DynamicArray"%string, 1, "DynamicArray"%string) :: chain t'
  | TOpt t' => ("Optional"%string, 1, "Optional"%string) :: chain t'
  end.

Lemma un_list_entries t : omap un_entry (refl_type t) = Some (chain t).
Proof.
  induction t as [n k|t IH n|t IH|t IH]; cbn [refl_type chain omap]; rewrite ?un_entry_type, ?IH; reflexivity.
Qed.

Lemma chain_nonempty t : chain t <> [].
Proof. destruct t; discriminate. Qed.

Lemma un_chain_chain t : un_chain (chain t) = Some t.
Proof.
  induction t as [n k|t IH n|t IH|t IH]; cbn [chain]; [reflexivity| | |];
    (destruct (chain t) as [|e es] eqn:E; [exfalso; eapply chain_nonempty; eauto|]);
    cbn [un_chain String.eqb Ascii.eqb Bool.eqb] in *; cbn; rewrite IH; reflexivity.
Qed.

Lemma un_field_refl f : un_field (refl_field f) = Some f.
Proof.
  destruct f as [n i t u mn mx me]. unfold refl_field, un_field. cbn [rf_name rf_id rf_type rf_unit rf_min rf_max rf_meta].
  cbn [un_str vstr un_int un_list bind2]. rewrite of_codes_codes, un_list_entries. cbn [bind2].
  rewrite un_chain_chain. cbn [bind2]. rewrite un_opt_str, !un_opt_bits, un_opt_meta. reflexivity.
Qed.

Lemma un_struct_refl s : un_struct (refl_struct s) = Some s.
Proof.
  destruct s as [n fs me]. unfold refl_struct, un_struct. cbn [rs_name rs_fields rs_meta un_str vstr un_list bind2].
  rewrite of_codes_codes, (omap_map un_field refl_field fs un_field_refl). cbn [bind2]. now rewrite un_opt_meta.
Qed.

Lemma un_enumeration_refl e : un_enumeration (refl_enumeration e) = Some e.
Proof. destruct e as [n v me]. unfold refl_enumeration, un_enumeration. cbn [re_name re_value re_meta un_str vstr un_int bind2].
  rewrite of_codes_codes. cbn [bind2]. now rewrite un_opt_meta. Qed.

Lemma un_enum_refl e : un_enum (refl_enum e) = Some e.
Proof.
  destruct e as [n vs me]. unfold refl_enum, un_enum. cbn [rn_name rn_vals rn_meta un_str vstr un_list bind2].
  rewrite of_codes_codes, (omap_map un_enumeration refl_enumeration vs un_enumeration_refl). cbn [bind2]. now rewrite un_opt_meta.
Qed.

Lemma un_dict_refl kv : un_dict (refl_dict kv) = Some kv.
Proof. destruct kv. cbn. now rewrite !of_codes_codes. Qed.

Lemma un_signal_refl g : un_signal (refl_signal g) = Some g.
Proof.
  destruct g as [n fs me]. unfold refl_signal, un_signal. cbn [rg_name rg_fields rg_meta un_str vstr un_list bind2].
  rewrite of_codes_codes, (omap_map un_dict refl_dict fs un_dict_refl). cbn [bind2]. now rewrite un_opt_meta.
Qed.

Lemma un_impl_refl i : un_impl (refl_impl i) = Some i.
Proof.
  destruct i as [n p t fs ss me]. unfold refl_impl, un_impl.
  cbn [ri_name ri_protocol ri_type ri_fields ri_signals ri_meta un_str vstr un_list bind2].
  rewrite !of_codes_codes. cbn [bind2].
  rewrite (omap_map un_dict refl_dict fs un_dict_refl). cbn [bind2].
  rewrite (omap_map un_signal refl_signal ss un_signal_refl). cbn [bind2]. now rewrite un_opt_meta.
Qed.

Lemma un_method_refl m : un_method (refl_method m) = Some m.
Proof.
  destruct m as [n i a b me]. unfold refl_method, un_method. cbn [rm_name rm_id rm_input rm_output rm_meta un_str vstr un_int bind2].
  rewrite !of_codes_codes. cbn [bind2]. now rewrite un_opt_meta.
Qed.

Lemma un_service_refl s : un_service (refl_service s) = Some s.
Proof.
  destruct s as [n i ms me]. unfold refl_service, un_service. cbn [rv_name rv_id rv_methods rv_meta un_str vstr un_int un_list bind2].
  rewrite of_codes_codes. cbn [bind2]. rewrite (omap_map un_method refl_method ms un_method_refl). cbn [bind2]. now rewrite un_opt_meta.
Qed.

(* the reflection record determines the schema: every struct, field (name, id,
   type chain, unit, range, position), enumerator, binding (extension fields,
   signal blocks) and service can be read back exactly *)
Theorem reflection_faithful_lemma t : unreflect (reflection t) = Some t.
Proof.
  destruct t as [ver ss es is svs]. unfold reflection, unreflect.
  cbn [r_version r_structs r_enums r_impls r_services un_int un_list bind2].
  rewrite (omap_map un_struct refl_struct ss un_struct_refl). cbn [bind2].
  rewrite (omap_map un_enum refl_enum es un_enum_refl). cbn [bind2].
  rewrite (omap_map un_impl refl_impl is un_impl_refl). cbn [bind2].
  rewrite (omap_map un_service refl_service svs un_service_refl). reflexivity.
Qed.

Corollary reflection_injective_lemma t1 t2 : reflection t1 = reflection t2 -> t1 = t2.
Proof.
  intros H. pose proof (reflection_faithful_lemma t1) as A. rewrite H, reflection_faithful_lemma in A. now inversion A.
Qed.
