(* Model of the reflection() methods of src/fcp/specs/*.py: the record that
   describes a schema, as a value of the built-in reflection schema
   (src/fcp/reflection/reflection.fcp), and its inverse.  No proofs here. *)
From Coq Require Import String Ascii ZArith List Bool.
From FcpV Require Import Schema.Types.
Import ListNotations.
Open Scope Z_scope.

(* ---------- the schema tree with everything reflection reports ---------- *)
Record rmeta := { m_line : Z; m_end_line : Z; m_col : Z; m_end_col : Z; m_start : Z; m_end : Z; m_file : string }.

(* types as reflection sees them: a leaf carries the name/type strings of the
   Python object, containers nest *)
Inductive rtype :=
| TLeaf (name kind : string)
| TArr (t : rtype) (n : Z) | TDyn (t : rtype) | TOpt (t : rtype).

Record rfield := { rf_name : string; rf_id : Z; rf_type : rtype; rf_unit : option string;
                   rf_min : option Z; rf_max : option Z; rf_meta : option rmeta }.
Record rstruct := { rs_name : string; rs_fields : list rfield; rs_meta : option rmeta }.
Record renumeration := { re_name : string; re_value : Z; re_meta : option rmeta }.
Record renum := { rn_name : string; rn_vals : list renumeration; rn_meta : option rmeta }.
Record rsignal := { rg_name : string; rg_fields : list (string * string); rg_meta : option rmeta }.
Record rimpl := { ri_name : string; ri_protocol : string; ri_type : string;
                  ri_fields : list (string * string); ri_signals : list rsignal; ri_meta : option rmeta }.
Record rmethod := { rm_name : string; rm_id : Z; rm_input : string; rm_output : string; rm_meta : option rmeta }.
Record rservice := { rv_name : string; rv_id : Z; rv_methods : list rmethod; rv_meta : option rmeta }.
Record rtree := { r_version : Z; r_structs : list rstruct; r_enums : list renum;
                  r_impls : list rimpl; r_services : list rservice }.

(* ---------- strings as character codes ---------- *)
Fixpoint codes (s : string) : list Z :=
  match s with EmptyString => [] | String a s' => Z.of_nat (nat_of_ascii a) :: codes s' end.
Fixpoint of_codes (l : list Z) : string :=
  match l with [] => EmptyString | c :: l' => String (ascii_of_nat (Z.to_nat c)) (of_codes l') end.
Definition vstr (s : string) : value := VStr (codes s).

Definition vopt {A} (f : A -> value) (o : option A) : value :=
  match o with None => VNone | Some a => VSome (f a) end.

(* ---------- reflection(), fields in wire order (ascending field id) ---------- *)
Definition refl_meta (m : rmeta) : value :=
  VStruct [("line", VInt (m_line m)); ("end_line", VInt (m_end_line m)); ("column", VInt (m_col m));
           ("end_column", VInt (m_end_col m)); ("start_pos", VInt (m_start m)); ("end_pos", VInt (m_end m));
           ("filename", vstr (m_file m))]%string.

Definition type_entry (name kind : string) (size : Z) : value :=
  VStruct [("name", vstr name); ("size", VInt size); ("type", vstr kind)]%string.

(* the type chain, outermost first *)
Fixpoint refl_type (t : rtype) : list value :=
  match t with
  | TLeaf name kind => [type_entry name kind 1]
  | TArr t' n => type_entry "Array" "Array" n :: refl_type t'
  | TDyn t' => type_entry "DynamicArray" "DynamicArray" 1 :: refl_type t'
  | TOpt t' => type_entry "Optional" "Optional" 1 :: refl_type t'
  end.

Definition refl_field (f : rfield) : value :=
  VStruct [("name", vstr (rf_name f)); ("field_id", VInt (rf_id f)); ("type", VList (refl_type (rf_type f)));
           ("unit", vopt vstr (rf_unit f)); ("min_value", vopt VBits (rf_min f)); ("max_value", vopt VBits (rf_max f));
           ("meta", vopt refl_meta (rf_meta f))]%string.

Definition refl_struct (s : rstruct) : value :=
  VStruct [("name", vstr (rs_name s)); ("fields", VList (map refl_field (rs_fields s)));
           ("meta", vopt refl_meta (rs_meta s))]%string.

Definition refl_enumeration (e : renumeration) : value :=
  VStruct [("name", vstr (re_name e)); ("value", VInt (re_value e)); ("meta", vopt refl_meta (re_meta e))]%string.

Definition refl_enum (e : renum) : value :=
  VStruct [("name", vstr (rn_name e)); ("enumeration", VList (map refl_enumeration (rn_vals e)));
           ("meta", vopt refl_meta (rn_meta e))]%string.

Definition refl_dict (kv : string * string) : value :=
  VStruct [("name", vstr (fst kv)); ("value", vstr (snd kv))]%string.

Definition refl_signal (g : rsignal) : value :=
  VStruct [("name", vstr (rg_name g)); ("fields", VList (map refl_dict (rg_fields g)));
           ("meta", vopt refl_meta (rg_meta g))]%string.

Definition refl_impl (i : rimpl) : value :=
  VStruct [("name", vstr (ri_name i)); ("protocol", vstr (ri_protocol i)); ("type", vstr (ri_type i));
           ("fields", VList (map refl_dict (ri_fields i))); ("signals", VList (map refl_signal (ri_signals i)));
           ("meta", vopt refl_meta (ri_meta i))]%string.

Definition refl_method (m : rmethod) : value :=
  VStruct [("name", vstr (rm_name m)); ("id", VInt (rm_id m)); ("input", vstr (rm_input m));
           ("output", vstr (rm_output m)); ("meta", vopt refl_meta (rm_meta m))]%string.

Definition refl_service (s : rservice) : value :=
  VStruct [("name", vstr (rv_name s)); ("id", VInt (rv_id s)); ("methods", VList (map refl_method (rv_methods s)));
           ("meta", vopt refl_meta (rv_meta s))]%string.

(* FcpV2.reflection(): tag "fcp", encode_version(version) = major*1000 + minor *)
Definition reflection (t : rtree) : value :=
  VStruct [("tag", VList [VInt 102; VInt 99; VInt 112]); ("version", VInt (r_version t));
           ("structs", VList (map refl_struct (r_structs t))); ("enums", VList (map refl_enum (r_enums t)));
           ("impls", VList (map refl_impl (r_impls t))); ("services", VList (map refl_service (r_services t)))]%string.

(* ---------- reading a reflection record back ---------- *)
Definition omap {A B} (f : A -> option B) : list A -> option (list B) :=
  fix go l := match l with [] => Some [] | x :: l' => match f x, go l' with Some y, Some ys => Some (y :: ys) | _, _ => None end end.

Definition un_str (v : value) : option string := match v with VStr cs => Some (of_codes cs) | _ => None end.
Definition un_int (v : value) : option Z := match v with VInt z => Some z | _ => None end.
Definition un_bits (v : value) : option Z := match v with VBits z => Some z | _ => None end.
Definition un_opt {A} (f : value -> option A) (v : value) : option (option A) :=
  match v with VNone => Some None | VSome x => option_map Some (f x) | _ => None end.
Definition un_list {A} (f : value -> option A) (v : value) : option (list A) :=
  match v with VList vs => omap f vs | _ => None end.

Definition un_meta (v : value) : option rmeta :=
  match v with
  | VStruct [(_, VInt a); (_, VInt b); (_, VInt c); (_, VInt d); (_, VInt e); (_, VInt f); (_, VStr fn)] =>
      Some {| m_line := a; m_end_line := b; m_col := c; m_end_col := d; m_start := e; m_end := f; m_file := of_codes fn |}
  | _ => None
  end.

Definition un_entry (v : value) : option (string * Z * string) :=
  match v with
  | VStruct [(_, VStr n); (_, VInt s); (_, VStr k)] => Some (of_codes n, s, of_codes k)
  | _ => None
  end.

(* rebuild the type from its chain *)
Fixpoint un_chain (es : list (string * Z * string)) : option rtype :=
  match es with
  | [] => None
  | [(n, _, k)] => Some (TLeaf n k)
  | (n, s, k) :: rest =>
      if String.eqb k "Array" then option_map (fun t => TArr t s) (un_chain rest)
      else if String.eqb k "DynamicArray" then option_map TDyn (un_chain rest)
      else if String.eqb k "Optional" then option_map TOpt (un_chain rest)
      else None
  end.

Definition bind2 {A B} (o : option A) (f : A -> option B) : option B := match o with Some a => f a | None => None end.
Notation "'do' x <- o ; k" := (bind2 o (fun x => k)) (at level 200, x pattern, o at level 100, k at level 200).

Definition un_field (v : value) : option rfield :=
  match v with
  | VStruct [(_, n); (_, i); (_, ty); (_, u); (_, mn); (_, mx); (_, me)] =>
      do n' <- un_str n; do i' <- un_int i; do es <- un_list un_entry ty; do t <- un_chain es;
      do u' <- un_opt un_str u; do mn' <- un_opt un_bits mn; do mx' <- un_opt un_bits mx; do me' <- un_opt un_meta me;
      Some {| rf_name := n'; rf_id := i'; rf_type := t; rf_unit := u'; rf_min := mn'; rf_max := mx'; rf_meta := me' |}
  | _ => None
  end.

Definition un_struct (v : value) : option rstruct :=
  match v with
  | VStruct [(_, n); (_, fs); (_, me)] =>
      do n' <- un_str n; do fs' <- un_list un_field fs; do me' <- un_opt un_meta me;
      Some {| rs_name := n'; rs_fields := fs'; rs_meta := me' |}
  | _ => None
  end.

Definition un_enumeration (v : value) : option renumeration :=
  match v with
  | VStruct [(_, n); (_, x); (_, me)] =>
      do n' <- un_str n; do x' <- un_int x; do me' <- un_opt un_meta me;
      Some {| re_name := n'; re_value := x'; re_meta := me' |}
  | _ => None
  end.

Definition un_enum (v : value) : option renum :=
  match v with
  | VStruct [(_, n); (_, xs); (_, me)] =>
      do n' <- un_str n; do xs' <- un_list un_enumeration xs; do me' <- un_opt un_meta me;
      Some {| rn_name := n'; rn_vals := xs'; rn_meta := me' |}
  | _ => None
  end.

Definition un_dict (v : value) : option (string * string) :=
  match v with VStruct [(_, VStr k); (_, VStr x)] => Some (of_codes k, of_codes x) | _ => None end.

Definition un_signal (v : value) : option rsignal :=
  match v with
  | VStruct [(_, n); (_, fs); (_, me)] =>
      do n' <- un_str n; do fs' <- un_list un_dict fs; do me' <- un_opt un_meta me;
      Some {| rg_name := n'; rg_fields := fs'; rg_meta := me' |}
  | _ => None
  end.

Definition un_impl (v : value) : option rimpl :=
  match v with
  | VStruct [(_, n); (_, p); (_, t); (_, fs); (_, ss); (_, me)] =>
      do n' <- un_str n; do p' <- un_str p; do t' <- un_str t; do fs' <- un_list un_dict fs;
      do ss' <- un_list un_signal ss; do me' <- un_opt un_meta me;
      Some {| ri_name := n'; ri_protocol := p'; ri_type := t'; ri_fields := fs'; ri_signals := ss'; ri_meta := me' |}
  | _ => None
  end.

Definition un_method (v : value) : option rmethod :=
  match v with
  | VStruct [(_, n); (_, i); (_, a); (_, b); (_, me)] =>
      do n' <- un_str n; do i' <- un_int i; do a' <- un_str a; do b' <- un_str b; do me' <- un_opt un_meta me;
      Some {| rm_name := n'; rm_id := i'; rm_input := a'; rm_output := b'; rm_meta := me' |}
  | _ => None
  end.

Definition un_service (v : value) : option rservice :=
  match v with
  | VStruct [(_, n); (_, i); (_, ms); (_, me)] =>
      do n' <- un_str n; do i' <- un_int i; do ms' <- un_list un_method ms; do me' <- un_opt un_meta me;
      Some {| rv_name := n'; rv_id := i'; rv_methods := ms'; rv_meta := me' |}
  | _ => None
  end.

Definition unreflect (v : value) : option rtree :=
  match v with
  | VStruct [(_, _); (_, ver); (_, ss); (_, es); (_, is); (_, svs)] =>
      do ver' <- un_int ver; do ss' <- un_list un_struct ss; do es' <- un_list un_enum es;
      do is' <- un_list un_impl is; do svs' <- un_list un_service svs;
      Some {| r_version := ver'; r_structs := ss'; r_enums := es'; r_impls := is'; r_services := svs' |}
  | _ => None
  end.

(* what the built-in reflection schema must be for the above to be typed
   (compared with the regenerated gen/ReflSchema.v by reflexivity) *)
Definition mk (n : string) (i : Z) (t : sty) : sfield := {| fname := n; fid := i; fty := t; funit := None |}.
Definition ometa := SOpt (SStructRef "MetaData").
Definition expected_schema : schema :=
  {| structs := [
     {| sname := "MetaData"; sfields := [mk "line" 0 (SI 32); mk "end_line" 1 (SI 32); mk "column" 2 (SI 32);
          mk "end_column" 3 (SI 32); mk "start_pos" 4 (SI 32); mk "end_pos" 5 (SI 32); mk "filename" 6 SStr] |};
     {| sname := "Type"; sfields := [mk "name" 0 SStr; mk "size" 1 (SU 32); mk "type" 2 SStr] |};
     {| sname := "StructField"; sfields := [mk "name" 0 SStr; mk "field_id" 1 (SU 32); mk "type" 2 (SDyn (SStructRef "Type"));
          mk "unit" 3 (SOpt SStr); mk "min_value" 4 (SOpt SF64); mk "max_value" 5 (SOpt SF64); mk "meta" 6 ometa] |};
     {| sname := "Struct"; sfields := [mk "name" 0 SStr; mk "fields" 1 (SDyn (SStructRef "StructField")); mk "meta" 2 ometa] |};
     {| sname := "Enumeration"; sfields := [mk "name" 0 SStr; mk "value" 1 (SI 32); mk "meta" 2 ometa] |};
     {| sname := "Enum"; sfields := [mk "name" 0 SStr; mk "enumeration" 1 (SDyn (SStructRef "Enumeration")); mk "meta" 2 ometa] |};
     {| sname := "DictField"; sfields := [mk "name" 0 SStr; mk "value" 1 SStr] |};
     {| sname := "SignalBlock"; sfields := [mk "name" 0 SStr; mk "fields" 1 (SDyn (SStructRef "DictField")); mk "meta" 2 ometa] |};
     {| sname := "Impl"; sfields := [mk "name" 0 SStr; mk "protocol" 1 SStr; mk "type" 3 SStr;
          mk "fields" 4 (SDyn (SStructRef "DictField")); mk "signals" 5 (SDyn (SStructRef "SignalBlock")); mk "meta" 6 ometa] |};
     {| sname := "Method"; sfields := [mk "name" 0 SStr; mk "id" 1 (SU 32); mk "input" 2 SStr; mk "output" 3 SStr; mk "meta" 4 ometa] |};
     {| sname := "Service"; sfields := [mk "name" 0 SStr; mk "id" 1 (SU 32); mk "methods" 2 (SDyn (SStructRef "Method")); mk "meta" 3 ometa] |};
     {| sname := "Fcp"; sfields := [mk "tag" 0 (SArr (SU 8) 3); mk "version" 1 (SU 16); mk "structs" 2 (SDyn (SStructRef "Struct"));
          mk "enums" 3 (SDyn (SStructRef "Enum")); mk "impls" 4 (SDyn (SStructRef "Impl")); mk "services" 5 (SDyn (SStructRef "Service"))] |} ];
     enums := [] |}.
