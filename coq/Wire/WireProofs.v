From Coq Require Import String ZArith List Bool Lia.
From FcpV Require Import Base.Bits Base.BitsProofs Schema.Types Wire.Wire.
Import ListNotations.
Open Scope Z_scope.

(* ---------- induction principle with Forall on struct fields ---------- *)
Lemma rty_ind2 (P : rty -> Prop)
  (HU : forall n, P (RU n)) (HI : forall n, P (RI n)) (HF32 : P RF32) (HF64 : P RF64)
  (HStr : P RStr) (HE : forall w, P (REnum w))
  (HA : forall t n, P t -> P (RArr t n)) (HD : forall t, P t -> P (RDyn t))
  (HO : forall t, P t -> P (ROpt t))
  (HS : forall fs, Forall (fun f => P (snd f)) fs -> P (RStruct fs)) : forall t, P t.
Proof.
  fix IH 1. intros t. destruct t as [n|n| | | |w|t n|t|t|fs].
  - apply HU. - apply HI. - apply HF32. - apply HF64. - apply HStr. - apply HE.
  - apply HA. apply IH. - apply HD. apply IH. - apply HO. apply IH.
  - apply HS. induction fs as [|f fs IHfs]; constructor; [apply IH|exact IHfs].
Qed.

(* ---------- strict prefixes ---------- *)
Definition sprefix (p b : bits) : Prop := exists q, q <> [] /\ b = p ++ q.

Lemma sprefix_app p a b :
  sprefix p (a ++ b) -> sprefix p a \/ exists p', p = a ++ p' /\ sprefix p' b.
Proof.
  intros (q & Hq & Heq). symmetry in Heq. apply app_eq_app in Heq.
  destruct Heq as (l & [[-> ->]|[-> ->]]).
  - right. exists l. split; [reflexivity|]. exists q. split; [exact Hq|reflexivity].
  - destruct l as [|x l].
    + right. exists []. split; [now rewrite !app_nil_r|]. exists b. cbn in Hq. split; [exact Hq|reflexivity].
    + left. exists (x :: l). split; [discriminate|reflexivity].
Qed.

Lemma sprefix_length p b : sprefix p b -> (length p < length b)%nat.
Proof.
  intros (q & Hq & ->). rewrite app_length. destruct q; [contradiction|cbn; lia].
Qed.

Lemma sprefix_nil_r p : ~ sprefix p [].
Proof. intros H. apply sprefix_length in H. cbn in H. lia. Qed.

(* ---------- read_word ---------- *)
Lemma read_word_app n z rest :
  read_word n (bits_of_Z n z ++ rest) = Ok (z mod 2 ^ Z.of_nat n, rest).
Proof.
  unfold read_word.
  assert (Hf : firstn n (bits_of_Z n z ++ rest) = bits_of_Z n z).
  { rewrite <- (bits_of_Z_length n z) at 1. rewrite firstn_app, firstn_all, Nat.sub_diag. cbn [firstn]. apply app_nil_r. }
  rewrite Hf, bits_of_Z_length, Nat.ltb_irrefl.
  assert (Hs : skipn n (bits_of_Z n z ++ rest) = rest).
  { rewrite <- (bits_of_Z_length n z) at 1. rewrite skipn_app, skipn_all, Nat.sub_diag. reflexivity. }
  rewrite Hs, Z_of_bits_of_Z. reflexivity.
Qed.

Lemma read_word_short n p : (length p < n)%nat -> read_word n p = Raise Overrun.
Proof.
  intros H. unfold read_word. rewrite firstn_all2 by lia. apply Nat.ltb_lt in H. now rewrite H.
Qed.

Lemma read_word_sprefix n z p : sprefix p (bits_of_Z n z) -> read_word n p = Raise Overrun.
Proof. intros H. apply sprefix_length in H. rewrite bits_of_Z_length in H. now apply read_word_short. Qed.

Lemma read_word_unsigned n z rest :
  in_unsigned n z = true -> read_word n (bits_of_Z n z ++ rest) = Ok (z, rest).
Proof.
  intros H. rewrite read_word_app. unfold in_unsigned in H.
  apply andb_true_iff in H. destruct H as [H1 H2]. apply Z.leb_le in H1. apply Z.ltb_lt in H2.
  now rewrite Z.mod_small by lia.
Qed.

Lemma in_unsigned_le n m z : (n <= m)%nat -> in_unsigned n z = true -> in_unsigned m z = true.
Proof.
  unfold in_unsigned. intros Hnm H. apply andb_true_iff in H. destruct H as [H1 H2].
  apply Z.leb_le in H1. apply Z.ltb_lt in H2. apply andb_true_iff. split; [now apply Z.leb_le|].
  apply Z.ltb_lt. eapply Z.lt_le_trans; [exact H2|]. apply Z.pow_le_mono_r; lia.
Qed.

(* ---------- enc_list / dec_rep ---------- *)
Section Rep.
  Context (f : value -> option bits) (g : bits -> outcome (value * bits)) (h : value -> value).

  Lemma rep_roundtrip vs : forall bs rest,
    Forall (fun v => forall b r, f v = Some b -> g (b ++ r) = Ok (h v, r)) vs ->
    enc_list f vs = Some bs ->
    dec_rep g (length vs) (bs ++ rest) = Ok (map h vs, rest).
  Proof.
    induction vs as [|v vs IH]; intros bs rest HF He.
    - cbn in He. inversion He; subst. reflexivity.
    - inversion HF as [|? ? Hv HF']; subst. cbn [enc_list] in He.
      destruct (f v) as [a|] eqn:Ea; [|discriminate].
      destruct (enc_list f vs) as [b|] eqn:Eb; [|discriminate].
      inversion He; subst. cbn [length dec_rep]. rewrite <- app_assoc, (Hv a _ eq_refl).
      cbn [bind]. rewrite (IH b rest HF' eq_refl). reflexivity.
  Qed.

  Lemma rep_prefix vs : forall bs p,
    Forall (fun v => forall b, f v = Some b ->
              (forall r, g (b ++ r) = Ok (h v, r)) /\ (forall p, sprefix p b -> g p = Raise Overrun)) vs ->
    enc_list f vs = Some bs -> sprefix p bs ->
    dec_rep g (length vs) p = Raise Overrun.
  Proof.
    induction vs as [|v vs IH]; intros bs p HF He Hp.
    - cbn in He. inversion He; subst. now apply sprefix_nil_r in Hp.
    - inversion HF as [|? ? Hv HF']; subst. cbn [enc_list] in He.
      destruct (f v) as [a|] eqn:Ea; [|discriminate].
      destruct (enc_list f vs) as [b|] eqn:Eb; [|discriminate].
      inversion He; subst. destruct (Hv a eq_refl) as [Hrt Hpre].
      cbn [length dec_rep].
      apply sprefix_app in Hp. destruct Hp as [Hp|(p' & -> & Hp')].
      + rewrite (Hpre p Hp). reflexivity.
      + rewrite Hrt. cbn [bind]. rewrite (IH b p' HF' eq_refl Hp'). reflexivity.
  Qed.

  Lemma enc_list_total vs :
    Forall (fun v => exists b, f v = Some b) vs -> exists bs, enc_list f vs = Some bs.
  Proof.
    induction vs as [|v vs IH]; intros HF; [exists []; reflexivity|].
    inversion HF as [|? ? [a Ha] HF']; subst. destruct (IH HF') as [b Hb].
    exists (a ++ b). cbn [enc_list]. now rewrite Ha, Hb.
  Qed.
End Rep.

(* ---------- strings ---------- *)
Lemma str_roundtrip cs : forall rest,
  forallb (in_unsigned 7) cs = true ->
  dec_rep (read_word 8) (length cs) (str_bits cs ++ rest) = Ok (cs, rest).
Proof.
  induction cs as [|c cs IH]; intros rest H; [reflexivity|].
  cbn [forallb] in H. apply andb_true_iff in H. destruct H as [Hc H].
  cbn [str_bits flat_map length dec_rep]. rewrite <- app_assoc.
  rewrite read_word_unsigned by (eapply in_unsigned_le; [|exact Hc]; lia).
  cbn [bind]. fold (str_bits cs). rewrite IH by exact H. reflexivity.
Qed.

Lemma str_prefix cs : forall p,
  forallb (in_unsigned 7) cs = true -> sprefix p (str_bits cs) ->
  dec_rep (read_word 8) (length cs) p = Raise Overrun.
Proof.
  induction cs as [|c cs IH]; intros p H Hp; [now apply sprefix_nil_r in Hp|].
  cbn [forallb] in H. apply andb_true_iff in H. destruct H as [Hc H].
  cbn [str_bits flat_map length dec_rep] in *. fold (str_bits cs) in Hp.
  apply sprefix_app in Hp. destruct Hp as [Hp|(p' & -> & Hp')].
  - now rewrite (read_word_sprefix _ _ _ Hp).
  - rewrite read_word_unsigned by (eapply in_unsigned_le; [|exact Hc]; lia).
    cbn [bind]. now rewrite IH.
Qed.

Lemma ascii_ok cs : forallb (in_unsigned 7) cs = true -> forallb (fun c => c <? 128) cs = true.
Proof.
  induction cs as [|c cs IH]; intros H; [reflexivity|].
  cbn [forallb] in *. apply andb_true_iff in H. destruct H as [Hc H].
  rewrite IH by exact H. unfold in_unsigned in Hc. apply andb_true_iff in Hc. destruct Hc as [_ Hc].
  change (2 ^ Z.of_nat 7) with 128 in Hc. now rewrite Hc.
Qed.

Lemma count_roundtrip (n : nat) :
  Z.of_nat n <? 2 ^ 32 = true -> Z.to_nat (Z.of_nat n mod 2 ^ Z.of_nat 32) = n.
Proof.
  intros H. apply Z.ltb_lt in H. change (Z.of_nat 32) with 32.
  rewrite Z.mod_small by lia. apply Nat2Z.id.
Qed.

(* ---------- struct fields ---------- *)
Definition any_signed : nat -> Z -> bool := fun _ _ => true.

Section Seq.
  Context (sdec : nat -> Z -> Z).
  Let ht := has_type_gen any_signed.
  Let dec := gdec sdec.
  Let nm := norm sdec.
  Let F := (fun (f : string * rty) (kv : string * value) =>
              if String.eqb (fst f) (fst kv) then wire (snd f) (snd kv) else None).
  Let G := (fun (f : string * rty) (b : bits) =>
              bind (dec (snd f) b) (fun '(v, r) => Ok ((fst f, v), r))).
  Let H2 := (fun (f : string * rty) (kv : string * value) =>
              String.eqb (fst f) (fst kv) && ht (snd f) (snd kv)).
  Let N := (fun (f : string * rty) (kv : string * value) => (fst kv, nm (snd f) (snd kv))).

  Lemma seq_roundtrip fs : forall kvs bs rest,
    Forall (fun f => forall v b r, ht (snd f) v = true -> wire (snd f) v = Some b ->
                                   dec (snd f) (b ++ r) = Ok (nm (snd f) v, r)) fs ->
    forallb2 H2 fs kvs = true -> enc_seq F fs kvs = Some bs ->
    dec_seq G fs (bs ++ rest) = Ok (map2 N fs kvs, rest).
  Proof.
    induction fs as [|f fs IH]; intros kvs bs rest HF Ht He.
    - destruct kvs; cbn in *; [|discriminate]. inversion He; subst. reflexivity.
    - destruct kvs as [|kv kvs]; [cbn in Ht; discriminate|].
      inversion HF as [|? ? Hv HF']; subst.
      cbn [forallb2] in Ht. apply andb_true_iff in Ht. destruct Ht as [Ht1 Ht].
      unfold H2 in Ht1. apply andb_true_iff in Ht1. destruct Ht1 as [Hn Hty].
      cbn [enc_seq] in He. unfold F in He at 1. rewrite Hn in He.
      destruct (wire (snd f) (snd kv)) as [a|] eqn:Ea; [|discriminate].
      destruct (enc_seq F fs kvs) as [b|] eqn:Eb; [|discriminate].
      inversion He; subst. cbn [dec_seq]. unfold G at 1.
      rewrite <- app_assoc, (Hv _ _ _ Hty Ea). cbn [bind].
      rewrite (IH kvs b rest HF' Ht Eb). cbn [bind map2].
      apply String.eqb_eq in Hn. unfold N at 2. now rewrite Hn.
  Qed.

  Lemma seq_prefix fs : forall kvs bs p,
    Forall (fun f => forall v b, ht (snd f) v = true -> wire (snd f) v = Some b ->
              (forall r, dec (snd f) (b ++ r) = Ok (nm (snd f) v, r)) /\
              (forall p, sprefix p b -> dec (snd f) p = Raise Overrun)) fs ->
    forallb2 H2 fs kvs = true -> enc_seq F fs kvs = Some bs -> sprefix p bs ->
    dec_seq G fs p = Raise Overrun.
  Proof.
    induction fs as [|f fs IH]; intros kvs bs p HF Ht He Hp.
    - destruct kvs; cbn in *; [|discriminate]. inversion He; subst. now apply sprefix_nil_r in Hp.
    - destruct kvs as [|kv kvs]; [cbn in Ht; discriminate|].
      inversion HF as [|? ? Hv HF']; subst.
      cbn [forallb2] in Ht. apply andb_true_iff in Ht. destruct Ht as [Ht1 Ht].
      unfold H2 in Ht1. apply andb_true_iff in Ht1. destruct Ht1 as [Hn Hty].
      cbn [enc_seq] in He. unfold F in He at 1. rewrite Hn in He.
      destruct (wire (snd f) (snd kv)) as [a|] eqn:Ea; [|discriminate].
      destruct (enc_seq F fs kvs) as [b|] eqn:Eb; [|discriminate].
      inversion He; subst. destruct (Hv _ _ Hty Ea) as [Hrt Hpre].
      cbn [dec_seq]. unfold G at 1.
      apply sprefix_app in Hp. destruct Hp as [Hp|(p' & -> & Hp')].
      + now rewrite (Hpre p Hp).
      + rewrite Hrt. cbn [bind]. now rewrite (IH kvs b p' HF' Ht Eb Hp').
  Qed.

  Lemma seq_total fs : forall kvs,
    Forall (fun f => forall v, ht (snd f) v = true -> exists b, wire (snd f) v = Some b) fs ->
    forallb2 H2 fs kvs = true -> exists bs, enc_seq F fs kvs = Some bs.
  Proof.
    induction fs as [|f fs IH]; intros kvs HF Ht.
    - destruct kvs; cbn in *; [|discriminate]. now exists [].
    - destruct kvs as [|kv kvs]; [cbn in Ht; discriminate|].
      inversion HF as [|? ? Hv HF']; subst.
      cbn [forallb2] in Ht. apply andb_true_iff in Ht. destruct Ht as [Ht1 Ht].
      unfold H2 in Ht1. apply andb_true_iff in Ht1. destruct Ht1 as [Hn Hty].
      destruct (Hv _ Hty) as [a Ha]. destruct (IH kvs HF' Ht) as [b Hb].
      exists (a ++ b). cbn [enc_seq]. unfold F at 1. now rewrite Hn, Ha, Hb.
  Qed.
End Seq.

Ltac some_inv H :=
  match type of H with
  | Some ?a = Some ?b => let E := fresh in assert (E : a = b) by congruence; clear H; subst b
  end.

Lemma forallb_Forall {A} (p : A -> bool) l : forallb p l = true -> Forall (fun x => p x = true) l.
Proof. intros H. apply Forall_forall. intros x Hx. eapply forallb_forall in H; eauto. Qed.

(* ---------- main generic theorems ---------- *)
Section Generic.
  Context (sdec : nat -> Z -> Z).

  (* typing that puts no constraint on signed leaves: enough for the wire
     format to be decodable; what comes back is [norm sdec t v] *)
  Let ht := has_type_gen any_signed.
  Let dec := gdec sdec.
  Let nm := norm sdec.

  Theorem wire_total : forall t v, ht t v = true -> exists bs, wire t v = Some bs.
  Proof.
    induction t as [n|n| | | |w|t n IH|t IH|t IH|fs IH] using rty_ind2; intros v Hty;
      destruct v as [z|b|cs|vs| |v|kvs]; cbn in Hty; try discriminate; cbn [wire];
      try (eexists; reflexivity).
    - apply andb_true_iff in Hty. destruct Hty as [Hl Hv]. rewrite Hl.
      apply enc_list_total. apply forallb_Forall in Hv.
      eapply Forall_impl; [|exact Hv]. intros x Hx. now apply IH.
    - apply andb_true_iff in Hty. destruct Hty as [Hl Hv].
      destruct (enc_list_total (wire t) vs) as [b Hb].
      { apply forallb_Forall in Hv. eapply Forall_impl; [|exact Hv]. intros x Hx. now apply IH. }
      rewrite Hb. eexists; reflexivity.
    - destruct (IH v Hty) as [b Hb]. rewrite Hb. eexists; reflexivity.
    - apply (seq_total fs kvs); [|exact Hty].
      eapply Forall_impl; [|exact IH]. intros f Hf v Hv. now apply Hf.
  Qed.

  (* decoding the canonical encoding (followed by anything) returns the
     normalised value and exactly the rest; decoding any strict prefix overruns *)
  Theorem gdec_wire : forall t v bs,
    ht t v = true -> wire t v = Some bs ->
    (forall rest, dec t (bs ++ rest) = Ok (nm t v, rest)) /\
    (forall p, sprefix p bs -> dec t p = Raise Overrun).
  Proof.
    induction t as [n|n| | | |w|t n IH|t IH|t IH|fs IH] using rty_ind2; intros v bs Hty He;
      destruct v as [z|b|cs|vs| |v|kvs]; cbn in Hty; try discriminate; cbn [wire] in He.
    - (* RU *) some_inv He. split.
      + intros rest. unfold dec; cbn [gdec]. now rewrite read_word_unsigned.
      + intros p Hp. unfold dec; cbn [gdec]. now rewrite (read_word_sprefix _ _ _ Hp).
    - (* RI *) some_inv He. split.
      + intros rest. unfold dec; cbn [gdec]. rewrite read_word_app. reflexivity.
      + intros p Hp. unfold dec; cbn [gdec]. now rewrite (read_word_sprefix _ _ _ Hp).
    - (* RF32 *) some_inv He. split.
      + intros rest. unfold dec; cbn [gdec]. now rewrite read_word_unsigned.
      + intros p Hp. unfold dec; cbn [gdec]. now rewrite (read_word_sprefix _ _ _ Hp).
    - (* RF64 *) some_inv He. split.
      + intros rest. unfold dec; cbn [gdec]. now rewrite read_word_unsigned.
      + intros p Hp. unfold dec; cbn [gdec]. now rewrite (read_word_sprefix _ _ _ Hp).
    - (* RStr *) some_inv He. apply andb_true_iff in Hty. destruct Hty as [Hc Hl]. split.
      + intros rest. unfold dec; cbn [gdec]. rewrite <- app_assoc, read_word_app. cbn [bind].
        rewrite count_roundtrip by exact Hl. rewrite str_roundtrip by exact Hc. cbn [bind].
        now rewrite ascii_ok.
      + intros p Hp. unfold dec; cbn [gdec].
        apply sprefix_app in Hp. destruct Hp as [Hp|(p' & -> & Hp')].
        * now rewrite (read_word_sprefix _ _ _ Hp).
        * rewrite read_word_app. cbn [bind]. rewrite count_roundtrip by exact Hl.
          now rewrite (str_prefix _ _ Hc Hp').
    - (* REnum *) some_inv He. split.
      + intros rest. unfold dec; cbn [gdec]. now rewrite read_word_unsigned.
      + intros p Hp. unfold dec; cbn [gdec]. now rewrite (read_word_sprefix _ _ _ Hp).
    - (* RArr *) apply andb_true_iff in Hty. destruct Hty as [Hl Hv]. rewrite Hl in He.
      apply Nat.eqb_eq in Hl. subst n. apply forallb_Forall in Hv. split.
      + intros rest. unfold dec; cbn [gdec]. fold dec.
        rewrite (rep_roundtrip (wire t) (dec t) (nm t) vs bs rest); [reflexivity| |exact He].
        eapply Forall_impl; [|exact Hv]. intros x Hx b r Hb. now apply (IH x b Hx Hb).
      + intros p Hp. unfold dec; cbn [gdec]. fold dec.
        rewrite (rep_prefix (wire t) (dec t) (nm t) vs bs p); [reflexivity| |exact He|exact Hp].
        eapply Forall_impl; [|exact Hv]. intros x Hx b Hb. now apply IH.
    - (* RDyn *) apply andb_true_iff in Hty. destruct Hty as [Hl Hv].
      destruct (enc_list (wire t) vs) as [b|] eqn:Eb; cbn [option_map] in He; [|discriminate].
      some_inv He. apply forallb_Forall in Hv. split.
      + intros rest. unfold dec; cbn [gdec]. fold dec. rewrite <- app_assoc, read_word_app. cbn [bind].
        rewrite count_roundtrip by exact Hl.
        rewrite (rep_roundtrip (wire t) (dec t) (nm t) vs b rest); [reflexivity| |exact Eb].
        eapply Forall_impl; [|exact Hv]. intros x Hx b' r Hb. now apply (IH x b' Hx Hb).
      + intros p Hp. unfold dec; cbn [gdec]. fold dec.
        apply sprefix_app in Hp. destruct Hp as [Hp|(p' & -> & Hp')].
        * now rewrite (read_word_sprefix _ _ _ Hp).
        * rewrite read_word_app. cbn [bind]. rewrite count_roundtrip by exact Hl.
          rewrite (rep_prefix (wire t) (dec t) (nm t) vs b p'); [reflexivity| |exact Eb|exact Hp'].
          eapply Forall_impl; [|exact Hv]. intros x Hx b' Hb. now apply IH.
    - (* ROpt None *) some_inv He. split.
      + intros rest. unfold dec; cbn [gdec]. rewrite read_word_app. reflexivity.
      + intros p Hp. unfold dec; cbn [gdec]. now rewrite (read_word_sprefix _ _ _ Hp).
    - (* ROpt Some *) destruct (wire t v) as [b|] eqn:Eb; cbn [option_map] in He; [|discriminate].
      some_inv He. destruct (IH v b Hty Eb) as [Hrt Hpre]. split.
      + intros rest. unfold dec; cbn [gdec]. fold dec. rewrite <- app_assoc, read_word_app. cbn [bind].
        change (1 mod 2 ^ Z.of_nat 8 =? 0) with false. cbv iota. now rewrite Hrt.
      + intros p Hp. unfold dec; cbn [gdec]. fold dec.
        apply sprefix_app in Hp. destruct Hp as [Hp|(p' & -> & Hp')].
        * now rewrite (read_word_sprefix _ _ _ Hp).
        * rewrite read_word_app. cbn [bind].
          change (1 mod 2 ^ Z.of_nat 8 =? 0) with false. cbv iota. now rewrite (Hpre p' Hp').
    - (* RStruct *) split.
      + intros rest. unfold dec; cbn [gdec].
        rewrite (seq_roundtrip sdec fs kvs bs rest); [reflexivity| |exact Hty|exact He].
        eapply Forall_impl; [|exact IH]. intros f Hf v b r Hv Hb. now apply (Hf v b Hv Hb).
      + intros p Hp. unfold dec; cbn [gdec].
        rewrite (seq_prefix sdec fs kvs bs p); [reflexivity| |exact Hty|exact He|exact Hp].
        eapply Forall_impl; [|exact IH]. intros f Hf v b Hv Hb. now apply Hf.
  Qed.
End Generic.

(* ---------- when the sign reconstruction is right, norm is the identity ---------- *)
Section NormId.
  Context (okS : nat -> Z -> bool) (sdec : nat -> Z -> Z).
  Context (sdec_ok : forall n z, okS n z = true -> sdec n (z mod 2 ^ Z.of_nat n) = z).

  Lemma map_id_Forall {A} (f : A -> A) l : Forall (fun x => f x = x) l -> map f l = l.
  Proof. induction 1 as [|x l Hx _ IH]; cbn; [reflexivity|now rewrite Hx, IH]. Qed.

  Theorem norm_id : forall t v, has_type_gen okS t v = true -> norm sdec t v = v.
  Proof.
    induction t as [n|n| | | |w|t n IH|t IH|t IH|fs IH] using rty_ind2; intros v Hty;
      destruct v as [z|b|cs|vs| |v|kvs]; cbn in Hty; try discriminate; cbn [norm]; try reflexivity.
    - now rewrite sdec_ok.
    - apply andb_true_iff in Hty. destruct Hty as [_ Hv]. f_equal. apply map_id_Forall.
      apply forallb_Forall in Hv. eapply Forall_impl; [|exact Hv]. intros x Hx. now apply IH.
    - apply andb_true_iff in Hty. destruct Hty as [_ Hv]. f_equal. apply map_id_Forall.
      apply forallb_Forall in Hv. eapply Forall_impl; [|exact Hv]. intros x Hx. now apply IH.
    - now rewrite IH.
    - f_equal. revert kvs Hty. induction fs as [|f fs IHfs]; intros kvs Hty.
      + destruct kvs; [reflexivity|discriminate].
      + destruct kvs as [|kv kvs]; [discriminate|].
        inversion IH as [|? ? Hf IH']; subst.
        cbn [forallb2] in Hty. apply andb_true_iff in Hty. destruct Hty as [H1 Hty].
        apply andb_true_iff in H1. destruct H1 as [_ H1].
        cbn [map2]. rewrite (Hf _ H1), (IHfs IH' kvs Hty). now destruct kv.
  Qed.

  Theorem has_type_weaken : forall t v, has_type_gen okS t v = true -> has_type_gen any_signed t v = true.
  Proof.
    induction t as [n|n| | | |w|t n IH|t IH|t IH|fs IH] using rty_ind2; intros v Hty;
      destruct v as [z|b|cs|vs| |v|kvs]; cbn in Hty |- *; try discriminate; try exact Hty; try reflexivity.
    - apply andb_true_iff in Hty. destruct Hty as [Hl Hv]. rewrite Hl. cbn [andb].
      apply forallb_forall. intros x Hx. apply IH. eapply forallb_forall in Hv; eauto.
    - apply andb_true_iff in Hty. destruct Hty as [Hl Hv]. rewrite Hl. cbn [andb].
      apply forallb_forall. intros x Hx. apply IH. eapply forallb_forall in Hv; eauto.
    - now apply IH.
    - revert kvs Hty. induction fs as [|f fs IHfs]; intros kvs Hty.
      + exact Hty.
      + destruct kvs as [|kv kvs]; [discriminate|].
        inversion IH as [|? ? Hf IH']; subst.
        cbn [forallb2] in Hty |- *. apply andb_true_iff in Hty. destruct Hty as [H1 Hty].
        apply andb_true_iff in H1. destruct H1 as [Hn H1].
        rewrite Hn, (Hf _ H1). cbn [andb]. now apply IHfs.
  Qed.
End NormId.

(* ---------- the specification decoder inverts the specification encoder ---------- *)
Lemma pow2_double n : (1 <= n)%nat -> 2 ^ Z.of_nat n = 2 * 2 ^ (Z.of_nat n - 1).
Proof.
  intros H. replace (Z.of_nat n) with (Z.succ (Z.of_nat n - 1)) at 1 by lia.
  rewrite Z.pow_succ_r by lia. reflexivity.
Qed.

Lemma sdec_spec_ok n z : in_signed n z = true -> sdec_spec n (z mod 2 ^ Z.of_nat n) = z.
Proof.
  unfold in_signed, sdec_spec. intros H.
  apply andb_true_iff in H. destruct H as [H H3]. apply andb_true_iff in H. destruct H as [H1 H2].
  apply Z.leb_le in H1, H2. apply Z.ltb_lt in H3.
  assert (Hn : (1 <= n)%nat) by lia. pose proof (pow2_double n Hn) as Hd.
  assert (Hp : 0 < 2 ^ (Z.of_nat n - 1)) by (apply Z.pow_pos_nonneg; lia).
  set (h := 2 ^ (Z.of_nat n - 1)) in *. rewrite Hd. clearbody h.
  destruct (Z.leb_spec h (z mod (2 * h))) as [Hc|Hc].
  - assert (z < 0) by (destruct (Z.lt_ge_cases z 0); [assumption|rewrite Z.mod_small in Hc; lia]).
    assert (E : z mod (2 * h) = z + 2 * h).
    { symmetry. apply Z.mod_unique_pos with (q := -1); lia. }
    rewrite E in *. lia.
  - assert (0 <= z).
    { destruct (Z.lt_ge_cases z 0); [|assumption].
      assert (E : z mod (2 * h) = z + 2 * h) by (symmetry; apply Z.mod_unique_pos with (q := -1); lia).
      rewrite E in Hc. lia. }
    apply Z.mod_small. lia.
Qed.

Theorem unwire_wire_lemma t v bs rest :
  has_type t v = true -> wire t v = Some bs -> unwire t (bs ++ rest) = Ok (v, rest).
Proof.
  intros Hty He. unfold unwire.
  pose proof (has_type_weaken in_signed t v Hty) as Hw.
  destruct (gdec_wire sdec_spec t v bs Hw He) as [Hrt _].
  rewrite Hrt. now rewrite (norm_id in_signed sdec_spec sdec_spec_ok t v Hty).
Qed.

(* hence the wire format is injective on in-range values *)
Theorem wire_injective_lemma t v1 v2 bs :
  has_type t v1 = true -> has_type t v2 = true ->
  wire t v1 = Some bs -> wire t v2 = Some bs -> v1 = v2.
Proof.
  intros H1 H2 E1 E2.
  pose proof (unwire_wire_lemma t v1 bs [] H1 E1) as A.
  pose proof (unwire_wire_lemma t v2 bs [] H2 E2) as B.
  rewrite A in B. now inversion B.
Qed.
