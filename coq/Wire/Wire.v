(* The canonical FCP wire format (the specification) and the generic decoder
   the codec models instantiate.  Short on purpose.  No proofs here.

   fields in ascending field id (the order of an [RStruct]); every scalar
   bit-packed LSB first with no padding; two's complement integers; enums on
   their packed width; f32/f64 as their 32/64 IEEE-754 bits; a u32 count
   before strings (8 bits per character) and dynamic arrays; a one-byte
   presence flag (1/0) before optionals; zero padding only in the last byte. *)
From Coq Require Import String ZArith List Bool.
From FcpV Require Import Base.Bits Schema.Types.
Import ListNotations.
Open Scope Z_scope.

Definition bits := list bool.

(* ---------- encoder combinators (function argument outside the fix) ---------- *)
Definition enc_list (f : value -> option bits) : list value -> option bits :=
  fix go (vs : list value) : option bits :=
  match vs with
  | [] => Some []
  | v :: vs' => match f v, go vs' with Some a, Some b => Some (a ++ b) | _, _ => None end
  end.

Definition enc_seq {A : Type} (f : A -> string * value -> option bits)
  : list A -> list (string * value) -> option bits :=
  fix go (ts : list A) (kvs : list (string * value)) {struct ts} : option bits :=
  match ts with
  | [] => match kvs with [] => Some [] | _ => None end
  | t :: ts' =>
      match kvs with
      | [] => None
      | kv :: kvs' => match f t kv, go ts' kvs' with Some a, Some b => Some (a ++ b) | _, _ => None end
      end
  end.

Definition str_bits (cs : list Z) : bits := flat_map (bits_of_Z 8) cs.

(* ---------- the specification ---------- *)
Fixpoint wire (t : rty) (v : value) {struct t} : option bits :=
  match t, v with
  | RU n, VInt z => Some (bits_of_Z n z)
  | RI n, VInt z => Some (bits_of_Z n z)
  | REnum n, VInt z => Some (bits_of_Z n z)
  | RF32, VBits b => Some (bits_of_Z 32 b)
  | RF64, VBits b => Some (bits_of_Z 64 b)
  | RStr, VStr cs => Some (bits_of_Z 32 (Z.of_nat (length cs)) ++ str_bits cs)
  | RArr t n, VList vs => if Nat.eqb (length vs) n then enc_list (wire t) vs else None
  | RDyn t, VList vs =>
      option_map (app (bits_of_Z 32 (Z.of_nat (length vs)))) (enc_list (wire t) vs)
  | ROpt t, VNone => Some (bits_of_Z 8 0)
  | ROpt t, VSome v => option_map (app (bits_of_Z 8 1)) (wire t v)
  | RStruct fs, VStruct kvs =>
      enc_seq (fun (f : string * rty) (kv : string * value) =>
                 if String.eqb (fst f) (fst kv) then wire (snd f) (snd kv) else None) fs kvs
  | _, _ => None
  end.

Definition wire_bytes (t : rty) (v : value) : option (list Z) :=
  option_map bytes_of_bits (wire t v).

(* ---------- decoding ---------- *)
Inductive exn := Overrun | BadAscii.
Inductive outcome (A : Type) := Ok (a : A) | Raise (e : exn).
Arguments Ok {A} a.
Arguments Raise {A} e.

Definition bind {A B : Type} (o : outcome A) (f : A -> outcome B) : outcome B :=
  match o with Ok a => f a | Raise e => Raise e end.

(* read n bits; a missing bit is an overrun (only the first n bits are
   inspected, so that evaluation stays linear in the message length) *)
Definition read_word (n : nat) (bs : bits) : outcome (Z * bits) :=
  if (length (firstn n bs) <? n)%nat then Raise Overrun else Ok (Z_of_bits (firstn n bs), skipn n bs).

Definition dec_rep {V : Type} (f : bits -> outcome (V * bits))
  : nat -> bits -> outcome (list V * bits) :=
  fix go (n : nat) (bs : bits) : outcome (list V * bits) :=
  match n with
  | O => Ok ([], bs)
  | S n' =>
      bind (f bs) (fun '(v, bs') => bind (go n' bs') (fun '(vs, bs'') => Ok (v :: vs, bs'')))
  end.

Definition dec_seq {A V : Type} (f : A -> bits -> outcome (V * bits))
  : list A -> bits -> outcome (list V * bits) :=
  fix go (ts : list A) (bs : bits) : outcome (list V * bits) :=
  match ts with
  | [] => Ok ([], bs)
  | t :: ts' =>
      bind (f t bs) (fun '(v, bs') => bind (go ts' bs') (fun '(vs, bs'') => Ok (v :: vs, bs'')))
  end.

(* generic decoder; [sdec n w] rebuilds a signed value from the n-bit word w *)
Definition gdec (sdec : nat -> Z -> Z) : rty -> bits -> outcome (value * bits) :=
  fix dec (t : rty) (bs : bits) {struct t} : outcome (value * bits) :=
  match t with
  | RU n => bind (read_word n bs) (fun '(w, r) => Ok (VInt w, r))
  | RI n => bind (read_word n bs) (fun '(w, r) => Ok (VInt (sdec n w), r))
  | REnum n => bind (read_word n bs) (fun '(w, r) => Ok (VInt w, r))
  | RF32 => bind (read_word 32 bs) (fun '(w, r) => Ok (VBits w, r))
  | RF64 => bind (read_word 64 bs) (fun '(w, r) => Ok (VBits w, r))
  | RStr =>
      bind (read_word 32 bs) (fun '(len, r) =>
      bind (dec_rep (read_word 8) (Z.to_nat len) r) (fun '(cs, r') =>
      if forallb (fun c => c <? 128) cs then Ok (VStr cs, r') else Raise BadAscii))
  | RArr t n => bind (dec_rep (dec t) n bs) (fun '(vs, r) => Ok (VList vs, r))
  | RDyn t =>
      bind (read_word 32 bs) (fun '(len, r) =>
      bind (dec_rep (dec t) (Z.to_nat len) r) (fun '(vs, r') => Ok (VList vs, r')))
  | ROpt t =>
      bind (read_word 8 bs) (fun '(w, r) =>
      if w =? 0 then Ok (VNone, r) else bind (dec t r) (fun '(v, r') => Ok (VSome v, r')))
  | RStruct fs =>
      bind (dec_seq (fun (f : string * rty) (b : bits) =>
                       bind (dec (snd f) b) (fun '(v, r) => Ok ((fst f, v), r))) fs bs)
           (fun '(kvs, r) => Ok (VStruct kvs, r))
  end.

(* what a decoder with sign reconstruction [sdec] returns for the canonical
   encoding of v: v with every signed leaf z replaced by sdec n (z mod 2^n) *)
Definition map2 {A B C : Type} (f : A -> B -> C) : list A -> list B -> list C :=
  fix go (a : list A) (b : list B) {struct a} : list C :=
  match a with
  | [] => []
  | x :: a' => match b with [] => [] | y :: b' => f x y :: go a' b' end
  end.

Definition norm (sdec : nat -> Z -> Z) : rty -> value -> value :=
  fix nm (t : rty) (v : value) {struct t} : value :=
  match t, v with
  | RI n, VInt z => VInt (sdec n (z mod 2 ^ Z.of_nat n))
  | RArr t _, VList vs => VList (map (nm t) vs)
  | RDyn t, VList vs => VList (map (nm t) vs)
  | ROpt t, VSome v => VSome (nm t v)
  | RStruct fs, VStruct kvs =>
      VStruct (map2 (fun (f : string * rty) (kv : string * value) =>
                       (fst kv, nm (snd f) (snd kv))) fs kvs)
  | _, _ => v
  end.

(* the canonical sign reconstruction *)
Definition sdec_spec (n : nat) (w : Z) : Z :=
  if (2 ^ (Z.of_nat n - 1) <=? w) then w - 2 ^ Z.of_nat n else w.

Definition unwire : rty -> bits -> outcome (value * bits) := gdec sdec_spec.

(* decode a whole message: bytes -> bits, decode, ignore what is left *)
Definition gdecode_bytes (sdec : nat -> Z -> Z) (t : rty) (bytes : list Z) : outcome value :=
  bind (gdec sdec t (bits_of_bytes bytes)) (fun '(v, _) => Ok v).
