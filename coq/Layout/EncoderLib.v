(* The Python run-time the translated PackedEncoder (gen/PyEncoder.v, from src/fcp/encoding.py on every run) runs on, beyond
   Py/BufferLib.v and Py/DispatchLib.v: the encoder object, encoding.Value, strings, the Maybe-returning lookups and the float
   expressions of the enum widths.  Hand-written; what it assumes of Python is listed in DESIGN (trusted base).  No proofs here. *)
From Coq Require Import String Ascii ZArith List Bool.
From FcpV Require Import Schema.Types Py.BufferLib Py.DispatchLib Layout.Packed.
Import ListNotations.
Open Scope Z_scope.

(* encoding.Value *)
Record pvalue := {
  v_name : string; v_type : sty; v_bitstart : Z; v_bitlength : Z; v_endianess : string;
  v_unit : option string; v_extended_data : list (string * xval); v_composite_type : option string }.

(* the PackedEncoder object: fcp, ctx.unroll_arrays, encoding, bitstart *)
Record penc := { pe_fcp : schema; pe_unroll : bool; pe_encoding : list pvalue; pe_bitstart : Z }.
Definition set_encoding (e : penc) (l : list pvalue) : penc :=
  {| pe_fcp := pe_fcp e; pe_unroll := pe_unroll e; pe_encoding := l; pe_bitstart := pe_bitstart e |}.
Definition set_bitstart (e : penc) (b : Z) : penc :=
  {| pe_fcp := pe_fcp e; pe_unroll := pe_unroll e; pe_encoding := pe_encoding e; pe_bitstart := b |}.
(* PackedEncoder(fcp, ctx) *)
Definition penc_init (fcp : schema) (unroll : bool) : penc :=
  {| pe_fcp := fcp; pe_unroll := unroll; pe_encoding := []; pe_bitstart := 0 |}.

(* copy(field) followed by attribute assignment: a functional update *)
Definition set_fty (f : sfield) (t : sty) : sfield := {| fname := fname f; fid := fid f; fty := t; funit := funit f |}.
Definition set_fname (f : sfield) (n : string) : sfield := {| fname := n; fid := fid f; fty := fty f; funit := funit f |}.

(* Type.get_length() of specs/type.py: numeric types int(name[1:]); arrays size * element; everything else raises ValueError *)
Fixpoint py_get_length (t : sty) : pyres Z :=
  match t with
  | SU n | SI n => POk (Z.of_nat n)
  | SF32 => POk 32
  | SF64 => POk 64
  | SArr u n => pbind (py_get_length u) (fun l => POk (l * Z.of_nat n))
  | _ => PRaise PyValueError
  end.

(* FcpV2.get_type(type).unwrap(): the first struct, else the first enum, of that name - for StructType / EnumType only *)
Inductive ptype := PTStruct (s : sstruct) | PTEnum (e : senum).
Definition py_get_type (fcp : schema) (t : sty) : pyres ptype :=
  match t with
  | SStructRef n | SEnumRef n =>
      match find (fun s => String.eqb (sname s) n) (structs fcp) with
      | Some s => POk (PTStruct s)
      | None => match find (fun e => String.eqb (ename e) n) (enums fcp) with
                | Some e => POk (PTEnum e)
                | None => PRaise PyUnwrapError
                end
      end
  | _ => PRaise PyUnwrapError
  end.
Definition is_PTStruct (x : ptype) : bool := match x with PTStruct _ => true | _ => false end.
Definition is_PTEnum (x : ptype) : bool := match x with PTEnum _ => true | _ => false end.
Definition is_PTField (x : ptype) : bool := false.          (* get_type never returns a StructField *)
Definition as_struct (x : ptype) : pyres sstruct := match x with PTStruct s => POk s | _ => PRaise PyTypeError end.
Definition as_enum (x : ptype) : pyres senum := match x with PTEnum e => POk e | _ => PRaise PyTypeError end.
Definition as_field (x : ptype) : pyres sfield := PRaise PyTypeError.

(* dict.get(k) on a signal block's fields, and  x or "lit"  when the result is used as a string: a non-empty string is itself,
   None / "" / 0 give the literal; any other truthy value would be carried as it is by Python (not a string: TypeError here) *)
Definition xdict_get (d : list (string * xval)) (k : string) : option xval := lookup k d.
Definition py_or_str (x : option xval) (lit : string) : pyres string :=
  match x with
  | None => POk lit
  | Some (XStr s) => POk (if String.eqb s "" then lit else s)
  | Some (XInt 0) => POk lit
  | Some _ => PRaise PyTypeError
  end.

(* str(i) for an int i >= 0 (the only use is the index of an unrolled array element) *)
Definition py_str_int (i : Z) : pyres string := if 0 <=? i then POk (dec_str (Z.to_nat i)) else PRaise PyValueError.

(* s[:-k] *)
Fixpoint str_take (n : nat) (s : string) : string :=
  match n, s with
  | S n', String c s' => String c (str_take n' s')
  | _, _ => EmptyString
  end.
Definition str_drop_last (k : nat) (s : string) : string := str_take (String.length s - k) s.

(* 2 ** ceil(log2(n)) and ceil(log2(n)) for an int n: log2 of a non-positive number raises ValueError; on positive n the float
   evaluation is exact for the sizes that occur (n <= 64 for packed sizes; enumerator maxima below 2^48, see the known finding
   enum-size-float) *)
Definition py_pow2_ceil_log2 (n : Z) : pyres Z := if 0 <? n then POk (2 ^ Z.log2_up n) else PRaise PyValueError.
Definition py_ceil_log2 (n : Z) : pyres Z := if 0 <? n then POk (Z.log2_up n) else PRaise PyValueError.

(* max([e.value for e in enum.enumeration]): max() of an empty list raises ValueError *)
Definition py_max_enumeration (e : senum) : pyres Z :=
  match map snd (evals e) with
  | [] => PRaise PyValueError
  | v :: vs => POk (fold_left Z.max vs v)
  end.
