(* The failure direction for the translated PackedEncoder: where the model's emission fails (a field whose type has no static
   length: string, dynamic array, optional, a struct reference inside a non-unrolled array, an unknown enum), the translated
   generate() raises.  Together with Layout/EncoderProofs.v: on every binding whose struct resolves, the translated generate()
   returns the model's pieces or raises, exactly as the model says. *)
From Coq Require Import String ZArith List Bool Lia Arith ZifyNat ZifyBool.
From FcpV Require Import Schema.Types Layout.Packed Layout.PackedProofs Py.BufferLib Py.DispatchLib Layout.EncoderLib gen.PyEncoder
  Layout.EncoderProofs.
Import ListNotations.
Open Scope Z_scope.

Lemma find_enum_none es s : find_enum es s = None -> find (fun e0 => String.eqb (ename e0) s) es = None.
Proof.
  unfold find_enum. induction es as [|e0 es IH]; cbn [find]; [reflexivity|].
  rewrite (String.eqb_sym (ename e0) s). destruct (String.eqb s (ename e0)); [discriminate|exact IH].
Qed.

Lemma type_length_raises sc self : pe_fcp self = sc -> forall t fuel, type_length (enums sc) t = None ->
  exists e, py__get_type_length fuel self sc t = PRaise e.
Proof.
  intros Hsc. induction t as [n|n| | | |s|s|t IH n|t IH|t IH]; intros fuel H; cbn [type_length] in H; try discriminate;
    (destruct fuel as [|fuel]; [eexists; reflexivity|]); try (eexists; reflexivity).
  - destruct (find_enum (enums sc) s) as [e|] eqn:E; [discriminate|].
    cbn [py__get_type_length is_UnsignedType is_SignedType is_FloatType is_DoubleType is_ArrayType is_EnumType orb py_type_name pbind].
    unfold py_get_enum. rewrite (find_enum_none _ _ E). eexists. reflexivity.
  - destruct (type_length (enums sc) t) as [l|] eqn:E; [discriminate|].
    destruct (IH fuel eq_refl) as [e He].
    cbn [py__get_type_length is_UnsignedType is_SignedType is_FloatType is_DoubleType is_ArrayType orb py_array_size py_underlying pbind].
    rewrite He. eexists. reflexivity.
Qed.

Section Fail.
  Context (sc : schema) (unroll : bool) (im : simpl) (Hsig : sig_ok im).

  Definition sig_fail_spec (l : lty) : Prop :=
    forall (sf : sfield) prefix ps cur fuel,
      lden unroll sc l (fty sf) ->
      emit im l prefix (fname sf) (funit sf) (Some (ps, cur)) = None ->
      (ldepth l <= fuel)%nat ->
      exists e, py__generate_signal fuel (mkenc sc unroll ps cur) sf im (prefix_str prefix) = PRaise e.

  Lemma struct_walk_fails fuel path : forall fs sfs k ps cur,
    Forall (fun f => sig_fail_spec (snd f)) fs ->
    Forall2q (fun (f : string * option string * lty) (sf : sfield) =>
                fst (fst f) = fname sf /\ snd (fst f) = funit sf /\ lden unroll sc (snd f) (fty sf)) fs sfs ->
    emit_idx (fun _ (f : string * option string * lty) st' => emit im (snd f) path (fst (fst f)) (snd (fst f)) st') k fs (Some (ps, cur)) = None ->
    (fold_right (fun f m => Nat.max (ldepth (snd f)) m) 0%nat fs <= fuel)%nat ->
    exists e, for_each sfs (fun field self => pbind (py__generate_signal fuel self field im (prefix_str path)) (fun '(self0, _) => POk self0))
                       (mkenc sc unroll ps cur) = PRaise e.
  Proof.
    induction fs as [|f fs IH]; intros sfs k ps cur HIH Hd He Hf.
    - cbn [emit_idx] in He. discriminate.
    - destruct sfs as [|sf sfs]; [destruct Hd|]. cbn [Forall2q] in Hd. destruct Hd as [[Hn [Hu Hl]] Hd].
      inversion HIH as [|? ? Hspec HIH']; subst. cbn [fold_right] in Hf.
      cbn [emit_idx] in He. rewrite Hn, Hu in He. cbn [for_each].
      destruct (emit im (snd f) path (fname sf) (funit sf) (Some (ps, cur))) as [[ps1 cur1]|] eqn:E1.
      + rewrite (signal_refines sc unroll im Hsig (snd f) sf path ps cur ps1 cur1 fuel Hl E1) by lia. cbn [pbind].
        apply (IH sfs (S k) ps1 cur1 HIH' Hd He). lia.
      + destruct (Hspec sf path ps cur fuel Hl E1) as [e He']; [lia|]. rewrite He'. eexists. reflexivity.
  Qed.

  Theorem signal_fails : forall l, sig_fail_spec l.
  Proof.
    induction l as [t0 len| |e n IH|fs IH] using lty_ind2; intros sf prefix ps cur fuel Hd He Hf.
    - cbn [emit emit_leaf] in He. discriminate.
    - (* no static length *)
      cbn [lden] in Hd. destruct Hd as [Hns [Hna Hlen]].
      destruct fuel as [|fuel]; [cbn [ldepth] in Hf; lia|].
      cbn [py__generate_signal]. rewrite Hns. change (pe_unroll (mkenc sc unroll ps cur)) with unroll. rewrite Hna.
      change (pe_fcp (mkenc sc unroll ps cur)) with sc.
      destruct (type_length_raises sc (mkenc sc unroll ps cur) eq_refl (fty sf) fuel Hlen) as [e He']. rewrite He'. eexists. reflexivity.
    - (* unrolled array: some element fails *)
      cbn [lden] in Hd. destruct Hd as [Hun [t' [Ht Hd]]]. cbn [emit] in He.
      destruct fuel as [|[|fuel]]; try (cbn [ldepth] in Hf; lia). cbn [ldepth] in Hf.
      cbn [py__generate_signal]. rewrite Ht. cbn [is_StructType is_ArrayType]. change (pe_unroll (mkenc sc unroll ps cur)) with unroll.
      replace (true && unroll)%bool with true by now rewrite Hun.
      cbn [py__generate_array_type py_array_size py_underlying pbind]. unfold for_range. rewrite Nat2Z.id.
      assert (Hloop : forall k i ps0 cur0,
                 emit_rep (fun j st' => emit im e prefix (fname sf ++ "_" ++ dec_str j)%string (funit sf) st') i k (Some (ps0, cur0)) = None ->
                 exists ex, for_nat k (Z.of_nat i)
                   (fun i0 self => pbind (py_str_int i0) (fun t3 =>
                      pbind (py__generate_signal fuel self (set_fname (set_fty sf t') ((fname sf ++ "_") ++ t3)%string) im (prefix_str prefix))
                            (fun '(self0, _) => POk self0)))
                   (mkenc sc unroll ps0 cur0) = PRaise ex).
      { induction k as [|k IHk]; intros i ps0 cur0 Hk; cbn [emit_rep] in Hk; [discriminate|].
        cbn [for_nat]. unfold py_str_int. replace (0 <=? Z.of_nat i) with true by lia. rewrite Nat2Z.id. cbn [pbind].
        destruct (emit im e prefix (fname sf ++ "_" ++ dec_str i)%string (funit sf) (Some (ps0, cur0))) as [[ps1 cur1]|] eqn:E1.
        - rewrite (signal_refines sc unroll im Hsig e (set_fname (set_fty sf t') ((fname sf ++ "_") ++ dec_str i)%string) prefix ps0 cur0 ps1 cur1 fuel);
            [|exact Hd|cbn [set_fname set_fty fname funit]; rewrite append_assoc; exact E1|lia].
          cbn [pbind]. replace (Z.of_nat i + 1) with (Z.of_nat (S i)) by lia. now apply IHk.
        - destruct (IH (set_fname (set_fty sf t') ((fname sf ++ "_") ++ dec_str i)%string) prefix ps0 cur0 fuel) as [ex Hex];
            [exact Hd|cbn [set_fname set_fty fname funit]; rewrite append_assoc; exact E1|lia|].
          rewrite Hex. eexists. reflexivity. }
      destruct (Hloop n 0%nat ps cur He) as [ex HL]. cbn [Z.of_nat] in HL. rewrite HL. eexists. reflexivity.
    - (* nested struct: some field fails *)
      cbn [lden] in Hd. destruct Hd as [s [str [Ht [Hfind Hd]]]]. cbn [emit] in He.
      destruct fuel as [|[|[|[|fuel]]]]; try (cbn [ldepth] in Hf; lia). cbn [ldepth] in Hf.
      cbn [py__generate_signal]. rewrite Ht. cbn [is_StructType].
      cbn [py__generate is_StructType orb py__generate_compound_type]. change (pe_fcp (mkenc sc unroll ps cur)) with sc. unfold py_get_type. rewrite Hfind.
      cbn [pbind is_PTStruct as_struct py__generate_struct]. rewrite append_assoc, <- prefix_str_snoc.
      destruct (struct_walk_fails fuel (prefix ++ [fname sf]) fs (sort_by fid (sfields str)) 0%nat ps cur IH Hd He) as [ex Hex]; [lia|].
      rewrite Hex. eexists. reflexivity.
  Qed.
End Fail.

(* ---------- generate(impl) ---------- *)
Theorem generate_fails sc unroll im l (e0 : penc) fuel :
  pe_fcp e0 = sc -> pe_unroll e0 = unroll -> sig_ok im ->
  lden unroll sc l (SStructRef (itype im)) -> emit_top im l (Some ([], 0)) = None -> (ldepth l <= fuel)%nat ->
  exists e, py_generate fuel e0 im = PRaise e.
Proof.
  intros Hsc Hun Hsig Hd He Hf. destruct l as [t0 len| |el n|fs]; cbn [lden] in Hd.
  - destruct Hd as [_ [Hd _]]. cbn [is_StructType] in Hd. discriminate.
  - destruct Hd as [Hd _]. cbn [is_StructType] in Hd. discriminate.
  - destruct Hd as [_ [t' [Hd _]]]. discriminate.
  - cbn [emit_top] in He. destruct Hd as [s [str [Ht [Hfind Hd]]]]. assert (s = itype im) by congruence. subst s.
    destruct fuel as [|[|[|fuel]]]; try (cbn [ldepth] in Hf; lia). cbn [ldepth] in Hf.
    unfold py_generate.
    assert (Hreset : set_bitstart (set_encoding e0 []) 0 = mkenc sc unroll [] 0).
    { destruct e0 as [f u en b]. cbn [pe_fcp pe_unroll] in Hsc, Hun. subst f u. reflexivity. }
    rewrite Hreset. cbn [py__generate is_StructType orb py__generate_compound_type].
    change (pe_fcp (mkenc sc unroll [] 0)) with sc. unfold py_get_type. rewrite Hfind.
    cbn [pbind is_PTStruct as_struct py__generate_struct]. change ""%string with (prefix_str []).
    assert (HIH : Forall (fun f : string * option string * lty => sig_fail_spec sc unroll im (snd f)) fs).
    { apply Forall_forall. intros f _. now apply signal_fails. }
    destruct (struct_walk_fails sc unroll im Hsig fuel [] fs (sort_by fid (sfields str)) 0%nat [] 0 HIH Hd He) as [ex Hex]; [lia|].
    rewrite Hex. eexists. reflexivity.
Qed.

(* the translated generate() against the model's generate(), both directions, on every binding whose struct resolves *)
Theorem translated_generate_agrees sc unroll (e : encoder) im (e0 : penc) fuel l :
  NoDup (map sname (structs sc)) -> sig_ok im -> pe_fcp e0 = sc -> pe_unroll e0 = unroll ->
  lresolve unroll sc (itype im) = Some l -> (ldepth l <= fuel)%nat ->
  match snd (generate unroll sc e im) with
  | Some ps => exists e1, py_generate fuel e0 im = POk (e1, map pv ps)
  | None => exists ex, py_generate fuel e0 im = PRaise ex
  end.
Proof.
  intros Hn Hsig Hsc Hun Hl Hf. destruct (generate unroll sc e im) as [e' r] eqn:Eg. cbn [snd]. destruct r as [ps|].
  - eexists. exact (translated_generate_is_model sc unroll e im e' ps e0 fuel l Hn Hsig Hsc Hun Hl Hf Eg).
  - unfold generate in Eg. rewrite Hl in Eg. destruct (emit_top im l (Some ([], 0))) as [[ps0 cur0]|] eqn:Ee; [discriminate|].
    apply (generate_fails sc unroll im l e0 fuel); auto. now apply lresolve_lden.
Qed.
