(* Class PackedEncoder of encoding.py (gen/PyEncoder.v, translated from the source on every run by harness/py2coq_enc.py)
   refines the layout model Layout/Packed.v: whenever the model's generate() returns pieces, the translated generate() run on an
   encoder object in ANY earlier state returns exactly those pieces (as encoding.Value records) and leaves them, and the final
   bit cursor, in the object.  Every theorem about the model's successful layouts (tiling, history independence, permutation
   invariance: Layout/PackedProofs.v, Schema/PermProofs.v) is thereby a theorem about the source. *)
From Coq Require Import String ZArith List Bool Lia Arith ZifyNat ZifyBool.
From FcpV Require Import Schema.Types Layout.Packed Layout.PackedProofs Py.BufferLib Py.DispatchLib Layout.EncoderLib gen.PyEncoder.
Import ListNotations.
Open Scope Z_scope.

(* ---------- the image of the model's objects ---------- *)
Definition pv (p : piece) : pvalue :=
  {| v_name := pname p; v_type := pty p; v_bitstart := pstart p; v_bitlength := plen p; v_endianess := pend p;
     v_unit := punit p; v_extended_data := pext p; v_composite_type := None |}.

Definition mkenc (sc : schema) (unroll : bool) (ps : list piece) (cur : Z) : penc :=
  {| pe_fcp := sc; pe_unroll := unroll; pe_encoding := map pv ps; pe_bitstart := cur |}.

(* the prefix string the code carries for a path: every component followed by "::" *)
Definition prefix_str (path : list string) : string := fold_right (fun x acc => (x ++ "::" ++ acc)%string) ""%string path.

Lemma append_assoc (a b c : string) : ((a ++ b) ++ c = a ++ (b ++ c))%string.
Proof. induction a as [|ch a IH]; cbn [String.append]; [reflexivity|]. now rewrite IH. Qed.

Lemma append_nil_r (a : string) : (a ++ "" = a)%string.
Proof. induction a as [|ch a IH]; cbn [String.append]; [reflexivity|]. now rewrite IH. Qed.

Lemma prefix_str_snoc path name : prefix_str (path ++ [name]) = (prefix_str path ++ name ++ "::")%string.
Proof.
  induction path as [|x path IH]; cbn [app prefix_str fold_right].
  - now rewrite append_nil_r.
  - fold (prefix_str (path ++ [name])). fold (prefix_str path). rewrite IH. now rewrite !append_assoc.
Qed.

Lemma render_path_snoc path name : render_path (path ++ [name]) = (prefix_str path ++ name)%string.
Proof.
  unfold render_path. induction path as [|x path IH]; [reflexivity|].
  cbn [app prefix_str fold_right]. fold (prefix_str path).
  assert (Hc : String.concat "::" (x :: path ++ [name]) = (x ++ "::" ++ String.concat "::" (path ++ [name]))%string).
  { cbn [String.concat]. destruct (path ++ [name]) eqn:E; [destruct path; discriminate|reflexivity]. }
  rewrite Hc, IH. now rewrite !append_assoc.
Qed.

(* ---------- side conditions ---------- *)
(* "endianess" of a signal block is a string (or 0 / absent): what  fields.get("endianess") or "little"  needs to be a string *)
Definition end_ok (fields : list (string * xval)) : Prop :=
  match lookup "endianess"%string fields with
  | Some (XInt z) => z = 0
  | Some XOther => False
  | _ => True
  end.
Definition sig_ok (im : simpl) : Prop := forall name, end_ok (sig_fields im name).

Lemma or_str_endianess fields : end_ok fields ->
  py_or_str (xdict_get fields "endianess"%string) "little"%string = POk (endianess_of fields).
Proof.
  unfold end_ok, py_or_str, xdict_get, endianess_of. destruct (lookup "endianess"%string fields) as [[z|s|]|]; try reflexivity.
  - intros ->. reflexivity.
  - intros [].
Qed.

(* call depth: of _get_type_length on a type, of _generate_signal on a field of a layout *)
Fixpoint tdepth (t : sty) : nat := match t with SArr u _ => S (tdepth u) | _ => 1%nat end.
Definition ldepth : lty -> nat :=
  fix ld (l : lty) : nat :=
  match l with
  | LLeaf t _ => S (tdepth t)
  | LBad => 1%nat
  | LArr e _ => (2 + ld e)%nat
  | LStruct fs => (4 + fold_right (fun f m => Nat.max (ld (snd f)) m) 0%nat fs)%nat
  end.

(* a layout tree is what a syntactic type yields under the run-time lookups of the schema *)
Definition Forall2q {A B : Type} (P : A -> B -> Prop) : list A -> list B -> Prop :=
  fix go (a : list A) (b : list B) {struct a} : Prop :=
  match a, b with
  | [], [] => True
  | x :: a', y :: b' => P x y /\ go a' b'
  | _, _ => False
  end.

Definition lden (unroll : bool) (sc : schema) : lty -> sty -> Prop :=
  fix ld (l : lty) (t : sty) {struct l} : Prop :=
  match l with
  | LLeaf t0 len => t = t0 /\ is_StructType t = false /\ andb (is_ArrayType t) unroll = false /\ type_length (enums sc) t = Some len
  | LBad => is_StructType t = false /\ andb (is_ArrayType t) unroll = false /\ type_length (enums sc) t = None
  | LArr e n => unroll = true /\ exists t', t = SArr t' n /\ ld e t'
  | LStruct fs =>
      exists s str, t = SStructRef s /\ find (fun s0 => String.eqb (sname s0) s) (structs sc) = Some str /\
                    Forall2q (fun (f : string * option string * lty) (sf : sfield) =>
                                fst (fst f) = fname sf /\ snd (fst f) = funit sf /\ ld (snd f) (fty sf)) fs (sort_by fid (sfields str))
  end.

(* ---------- _get_type_length ---------- *)
Lemma find_enum_get' es s e : find_enum es s = Some e -> find (fun e0 => String.eqb (ename e0) s) es = Some e.
Proof.
  unfold find_enum. induction es as [|e0 es IH]; cbn [find]; [discriminate|].
  rewrite (String.eqb_sym (ename e0) s). destruct (String.eqb s (ename e0)); auto.
Qed.

Lemma pow2_ceil_log2 n : py_pow2_ceil_log2 (Z.of_nat n) = if (0 <? Z.of_nat n) then POk (pow2_ceil n) else PRaise PyValueError.
Proof.
  unfold py_pow2_ceil_log2, pow2_ceil. destruct (0 <? Z.of_nat n) eqn:E; [|reflexivity]. f_equal.
  destruct (Z.of_nat n <=? 1) eqn:E1; [|reflexivity].
  assert (Z.of_nat n = 1) by lia. rewrite H. reflexivity.
Qed.

Lemma packed_size_pos m : (1 <= packed_size m)%nat.
Proof.
  unfold packed_size. destruct (m <=? 1) eqn:E; [lia|]. pose proof (Z.log2_nonneg m). lia.
Qed.

Lemma type_length_refines sc self : pe_fcp self = sc -> forall t len fuel, type_length (enums sc) t = Some len -> (tdepth t <= fuel)%nat ->
  py__get_type_length fuel self sc t = POk (self, len).
Proof.
  intros Hsc. induction t as [n|n| | | |s|s|t IH n|t IH|t IH]; intros len fuel H Hf; cbn [type_length] in H; try discriminate;
    (destruct fuel as [|fuel]; [cbn [tdepth] in Hf; lia|]).
  1-4: (injection H as <-; reflexivity).
  - destruct (find_enum (enums sc) s) as [e|] eqn:E; [|discriminate]. cbn [option_map] in H. assert (len = enum_layout_len e) by congruence. subst len.
    cbn [py__get_type_length is_UnsignedType is_SignedType is_FloatType is_DoubleType is_ArrayType is_EnumType orb py_type_name pbind].
    unfold py_get_enum. rewrite (find_enum_get' _ _ _ E). cbn [pbind]. unfold enum_packed_size. rewrite pow2_ceil_log2.
    pose proof (packed_size_pos (enum_max e)). replace (0 <? Z.of_nat (packed_size (enum_max e))) with true by lia. reflexivity.
  - destruct (type_length (enums sc) t) as [l|] eqn:E; [|discriminate]. cbn [option_map] in H. assert (len = Z.of_nat n * l) by congruence. subst len.
    cbn [py__get_type_length is_UnsignedType is_SignedType is_FloatType is_DoubleType is_ArrayType orb py_array_size py_underlying pbind].
    cbn [tdepth] in Hf. rewrite (IH l fuel eq_refl) by lia. reflexivity.
Qed.

(* ---------- _generate_signal and everything below it ---------- *)
Section Emit.
  Context (sc : schema) (unroll : bool) (im : simpl) (Hsig : sig_ok im).

  Definition sig_spec (l : lty) : Prop :=
    forall (sf : sfield) prefix ps cur ps' cur' fuel,
      lden unroll sc l (fty sf) ->
      emit im l prefix (fname sf) (funit sf) (Some (ps, cur)) = Some (ps', cur') ->
      (ldepth l <= fuel)%nat ->
      py__generate_signal fuel (mkenc sc unroll ps cur) sf im (prefix_str prefix) = POk (mkenc sc unroll ps' cur', tt).

  (* for field in sorted(struct.fields, ...): self._generate_signal(field, extension, prefix) *)
  Lemma struct_walk fuel path : forall fs sfs k ps cur ps' cur',
    Forall (fun f => sig_spec (snd f)) fs ->
    Forall2q (fun (f : string * option string * lty) (sf : sfield) =>
                fst (fst f) = fname sf /\ snd (fst f) = funit sf /\ lden unroll sc (snd f) (fty sf)) fs sfs ->
    emit_idx (fun _ (f : string * option string * lty) st' => emit im (snd f) path (fst (fst f)) (snd (fst f)) st') k fs (Some (ps, cur))
      = Some (ps', cur') ->
    (fold_right (fun f m => Nat.max (ldepth (snd f)) m) 0%nat fs <= fuel)%nat ->
    for_each sfs (fun field self => pbind (py__generate_signal fuel self field im (prefix_str path)) (fun '(self0, _) => POk self0))
             (mkenc sc unroll ps cur) = POk (mkenc sc unroll ps' cur').
  Proof.
    induction fs as [|f fs IH]; intros sfs k ps cur ps' cur' HIH Hd He Hf.
    - destruct sfs; [|destruct Hd]. cbn [emit_idx] in He. injection He as <- <-. reflexivity.
    - destruct sfs as [|sf sfs]; [destruct Hd|]. cbn [Forall2q] in Hd. destruct Hd as [[Hn [Hu Hl]] Hd].
      inversion HIH as [|? ? Hspec HIH']; subst. cbn [fold_right] in Hf.
      cbn [emit_idx] in He. rewrite Hn, Hu in He.
      destruct (emit im (snd f) path (fname sf) (funit sf) (Some (ps, cur))) as [[ps1 cur1]|] eqn:E1.
      + cbn [for_each]. rewrite (Hspec sf path ps cur ps1 cur1 fuel Hl E1) by lia. cbn [pbind].
        apply (IH sfs (S k) ps1 cur1 ps' cur' HIH' Hd He). lia.
      + rewrite emit_idx_none in He; [discriminate|]. intros i x. apply emit_none.
  Qed.

  Theorem signal_refines : forall l, sig_spec l.
  Proof.
    induction l as [t0 len| |e n IH|fs IH] using lty_ind2; intros sf prefix ps cur ps' cur' fuel Hd He Hf.
    - (* one Value *)
      cbn [lden] in Hd. destruct Hd as [Ht [Hns [Hna Hlen]]]. cbn [emit emit_leaf] in He.
      assert (ps' = ps ++ [ {| ppath := prefix ++ [fname sf]; pname := render_path (prefix ++ [fname sf]); pty := t0; pstart := cur; plen := len;
                               pend := endianess_of (sig_fields im (fname sf)); punit := funit sf; pext := sig_fields im (fname sf) |} ]
              /\ cur' = cur + len) as [-> ->] by (split; congruence).
      destruct fuel as [|fuel]; [cbn [ldepth] in Hf; lia|]. cbn [ldepth] in Hf.
      cbn [py__generate_signal]. rewrite Hns. change (pe_unroll (mkenc sc unroll ps cur)) with unroll. rewrite Hna.
      change (pe_fcp (mkenc sc unroll ps cur)) with sc.
      rewrite (type_length_refines sc (mkenc sc unroll ps cur) eq_refl (fty sf) len fuel); [|exact Hlen|subst t0; lia]. cbn [pbind].
      rewrite (or_str_endianess _ (Hsig (fname sf))). cbn [pbind].
      unfold mkenc, set_encoding, set_bitstart. cbn [pe_fcp pe_unroll pe_encoding pe_bitstart].
      rewrite map_app. cbn [map]. unfold pv at 2. cbn [pname pty pstart plen pend punit pext]. rewrite render_path_snoc. subst t0. reflexivity.
    - (* emission fails *) cbn [emit] in He. discriminate.
    - (* unrolled array *)
      cbn [lden] in Hd. destruct Hd as [Hun [t' [Ht Hd]]]. cbn [emit] in He.
      destruct fuel as [|[|fuel]]; try (cbn [ldepth] in Hf; lia). cbn [ldepth] in Hf.
      cbn [py__generate_signal]. rewrite Ht. cbn [is_StructType is_ArrayType]. change (pe_unroll (mkenc sc unroll ps cur)) with unroll. replace (true && unroll)%bool with true by now rewrite Hun.
      cbn [py__generate_array_type py_array_size py_underlying pbind]. unfold for_range. rewrite Nat2Z.id.
      assert (Hloop : forall k i ps0 cur0,
                 emit_rep (fun j st' => emit im e prefix (fname sf ++ "_" ++ dec_str j)%string (funit sf) st') i k (Some (ps0, cur0)) = Some (ps', cur') ->
                 for_nat k (Z.of_nat i)
                   (fun i0 self => pbind (py_str_int i0) (fun t3 =>
                      pbind (py__generate_signal fuel self (set_fname (set_fty sf t') ((fname sf ++ "_") ++ t3)%string) im (prefix_str prefix))
                            (fun '(self0, _) => POk self0)))
                   (mkenc sc unroll ps0 cur0) = POk (mkenc sc unroll ps' cur')).
      { induction k as [|k IHk]; intros i ps0 cur0 Hk; cbn [emit_rep] in Hk.
        - injection Hk as <- <-. reflexivity.
        - cbn [for_nat]. unfold py_str_int. replace (0 <=? Z.of_nat i) with true by lia. rewrite Nat2Z.id. cbn [pbind].
          destruct (emit im e prefix (fname sf ++ "_" ++ dec_str i)%string (funit sf) (Some (ps0, cur0))) as [[ps1 cur1]|] eqn:E1.
          + rewrite (IH (set_fname (set_fty sf t') ((fname sf ++ "_") ++ dec_str i)%string) prefix ps0 cur0 ps1 cur1 fuel);
              [|exact Hd|cbn [set_fname set_fty fname funit]; rewrite append_assoc; exact E1|lia].
            cbn [pbind]. replace (Z.of_nat i + 1) with (Z.of_nat (S i)) by lia. now apply IHk.
          + rewrite emit_rep_none in Hk; [discriminate|]. intros j. apply emit_none. }
      pose proof (Hloop n 0%nat ps cur He) as HL. cbn [Z.of_nat] in HL. rewrite HL. reflexivity.
    - (* nested struct *)
      cbn [lden] in Hd. destruct Hd as [s [str [Ht [Hfind Hd]]]]. cbn [emit] in He.
      destruct fuel as [|[|[|[|fuel]]]]; try (cbn [ldepth] in Hf; lia). cbn [ldepth] in Hf.
      cbn [py__generate_signal]. rewrite Ht. cbn [is_StructType].
      cbn [py__generate is_StructType orb py__generate_compound_type]. change (pe_fcp (mkenc sc unroll ps cur)) with sc. unfold py_get_type. rewrite Hfind.
      cbn [pbind is_PTStruct as_struct py__generate_struct].
      rewrite append_assoc, <- prefix_str_snoc.
      rewrite (struct_walk fuel (prefix ++ [fname sf]) fs (sort_by fid (sfields str)) 0%nat ps cur ps' cur' IH Hd He) by lia.
      reflexivity.
  Qed.
End Emit.

(* ---------- generate(impl) ---------- *)
Theorem generate_refines sc unroll im l ps cur (e0 : penc) fuel :
  pe_fcp e0 = sc -> pe_unroll e0 = unroll -> sig_ok im ->
  lden unroll sc l (SStructRef (itype im)) -> emit_top im l (Some ([], 0)) = Some (ps, cur) -> (ldepth l <= fuel)%nat ->
  py_generate fuel e0 im = POk (mkenc sc unroll ps cur, map pv ps).
Proof.
  intros Hsc Hun Hsig Hd He Hf. destruct l as [| | |fs]; cbn [emit_top] in He; try discriminate.
  cbn [lden] in Hd. destruct Hd as [s [str [Ht [Hfind Hd]]]]. assert (s = itype im) by congruence. subst s.
  destruct fuel as [|[|[|fuel]]]; try (cbn [ldepth] in Hf; lia). cbn [ldepth] in Hf.
  unfold py_generate.
  assert (Hreset : set_bitstart (set_encoding e0 []) 0 = mkenc sc unroll [] 0).
  { destruct e0 as [f u en b]. cbn [pe_fcp pe_unroll] in Hsc, Hun. subst f u. reflexivity. }
  rewrite Hreset. cbn [py__generate is_StructType orb py__generate_compound_type].
  change (pe_fcp (mkenc sc unroll [] 0)) with sc. unfold py_get_type. rewrite Hfind.
  cbn [pbind is_PTStruct as_struct py__generate_struct].
  change ""%string with (prefix_str []).
  assert (HIH : Forall (fun f : string * option string * lty => sig_spec sc unroll im (snd f)) fs).
  { apply Forall_forall. intros f _. now apply signal_refines. }
  rewrite (struct_walk sc unroll im fuel [] fs (sort_by fid (sfields str)) 0%nat [] 0 ps cur HIH Hd He) by lia.
  reflexivity.
Qed.

(* ---------- what Layout.Packed.lresolve computes is what the run-time lookups denote ---------- *)
Section LResolve.
  Context (sc : schema) (unroll : bool) (Hnames : NoDup (map sname (structs sc))).

  Definition lenv_ok (en : lenv) : Prop := forall nm l, lookup nm en = Some l -> lden unroll sc l (SStructRef nm).

  Lemma leaf_of_lden t : is_StructType t = false -> andb (is_ArrayType t) unroll = false -> lden unroll sc (leaf_of (enums sc) t) t.
  Proof.
    intros Hs Ha. unfold leaf_of. destruct (type_length (enums sc) t) as [len|] eqn:E; cbn [lden]; repeat split; assumption.
  Qed.

  Lemma lresolve_ty_lden en : lenv_ok en -> forall t l, lresolve_ty unroll en (enums sc) t = Some l -> lden unroll sc l t.
  Proof.
    intros Hen. induction t as [n|n| | | |s|s|t IH n|t IH|t IH]; intros l H; cbn [lresolve_ty] in H;
      try (injection H as <-; apply leaf_of_lden; reflexivity).
    - now apply Hen.
    - destruct (Bool.bool_dec unroll true) as [Eu|Eu].
      + rewrite Eu in H. destruct (lresolve_ty true en (enums sc) t) as [e|] eqn:Ee; [|discriminate]. cbn [option_map] in H. injection H as <-.
        cbn [lden]. split; [exact Eu|]. exists t. split; [reflexivity|]. apply IH. now rewrite Eu.
      + apply Bool.not_true_is_false in Eu. rewrite Eu in H. injection H as <-. apply leaf_of_lden; [reflexivity|]. cbn [is_ArrayType]. now rewrite Eu.
  Qed.

  Lemma lresolve_fields_lden en : lenv_ok en -> forall sfs fs, lresolve_fields unroll en (enums sc) sfs = Some fs ->
    Forall2q (fun (f : string * option string * lty) (sf : sfield) =>
                fst (fst f) = fname sf /\ snd (fst f) = funit sf /\ lden unroll sc (snd f) (fty sf)) fs sfs.
  Proof.
    intros Hen. induction sfs as [|sf sfs IH]; intros fs H; cbn [lresolve_fields] in H.
    - injection H as <-. exact I.
    - destruct (lresolve_ty unroll en (enums sc) (fty sf)) as [r|] eqn:Er; [|discriminate].
      destruct (lresolve_fields unroll en (enums sc) sfs) as [rs|] eqn:Ers; [|discriminate]. injection H as <-.
      cbn [Forall2q fst snd]. repeat split; [now apply (lresolve_ty_lden en Hen)|now apply IH].
  Qed.

  Lemma find_first_named' : forall ss s, NoDup (map sname ss) -> In s ss ->
    find (fun s0 => String.eqb (sname s0) (sname s)) ss = Some s.
  Proof.
    induction ss as [|s0 ss IH]; intros s Hnd Hin; [destruct Hin|]. cbn [map] in Hnd. inversion Hnd as [|? ? Hni Hnd']; subst.
    cbn [find]. destruct Hin as [->|Hin]; [now rewrite String.eqb_refl|].
    destruct (String.eqb (sname s0) (sname s)) eqn:E; [|now apply IH].
    exfalso. apply Hni. apply String.eqb_eq in E. rewrite E. now apply in_map.
  Qed.

  Lemma lookup_app' {A : Type} k : forall (l1 l2 : list (string * A)),
    lookup k (l1 ++ l2) = match lookup k l1 with Some a => Some a | None => lookup k l2 end.
  Proof. induction l1 as [|[k' a] l1 IH]; intros l2; cbn [app lookup]; [reflexivity|]. destruct (String.eqb k k'); auto. Qed.

  Lemma lbuild_env_ok : forall ss en, (forall s, In s ss -> In s (structs sc)) -> lenv_ok en -> lenv_ok (lbuild_env unroll en (enums sc) ss).
  Proof.
    induction ss as [|s ss IH]; intros en Hin Hen; cbn [lbuild_env]; [exact Hen|].
    destruct (lresolve_struct unroll en (enums sc) s) as [r|] eqn:Er; apply IH; try (intros s' Hs'; apply Hin; now right); try exact Hen.
    intros nm r0 Hl. rewrite lookup_app' in Hl. destruct (lookup nm en) as [r1|] eqn:El.
    - injection Hl as <-. now apply Hen.
    - cbn [lookup] in Hl. destruct (String.eqb nm (sname s)) eqn:E; [|discriminate]. injection Hl as <-. apply String.eqb_eq in E. subst nm.
      unfold lresolve_struct in Er. destruct (lresolve_fields unroll en (enums sc) (sort_by fid (sfields s))) as [fs|] eqn:Ef; [|discriminate].
      cbn [option_map] in Er. injection Er as <-. cbn [lden]. exists (sname s), s. split; [reflexivity|]. split.
      + apply (find_first_named' (structs sc) s Hnames). apply Hin. now left.
      + now apply (lresolve_fields_lden en Hen).
  Qed.

  Theorem lresolve_lden name l : lresolve unroll sc name = Some l -> lden unroll sc l (SStructRef name).
  Proof.
    unfold lresolve. intros H. refine (lbuild_env_ok (structs sc) [] (fun s Hs => Hs) _ name l H). intros nm r Hl. discriminate Hl.
  Qed.
End LResolve.

(* ---------- the translated generate() against the model's generate() ---------- *)
Theorem translated_generate_is_model sc unroll (e : encoder) im (e' : encoder) ps (e0 : penc) fuel l :
  NoDup (map sname (structs sc)) -> sig_ok im -> pe_fcp e0 = sc -> pe_unroll e0 = unroll ->
  lresolve unroll sc (itype im) = Some l -> (ldepth l <= fuel)%nat ->
  generate unroll sc e im = (e', Some ps) ->
  py_generate fuel e0 im = POk (mkenc sc unroll ps (enc_bitstart e'), map pv ps).
Proof.
  intros Hn Hsig Hsc Hun Hl Hf Hg. unfold generate in Hg. rewrite Hl in Hg.
  destruct (emit_top im l (Some ([], 0))) as [[ps0 cur0]|] eqn:Ee; [|discriminate].
  assert (ps0 = ps /\ e' = {| enc_pieces := ps0; enc_bitstart := cur0 |}) as [-> ->] by (split; congruence).
  cbn [enc_bitstart]. apply (generate_refines sc unroll im l ps cur0 e0 fuel); auto. now apply lresolve_lden.
Qed.

(* ---------- C04 / C15 for the translated source ---------- *)
Theorem translated_layout_tiles sc unroll im ps (e0 : penc) fuel l :
  NoDup (map sname (structs sc)) -> sig_ok im -> pe_fcp e0 = sc -> pe_unroll e0 = unroll ->
  lresolve unroll sc (itype im) = Some l -> (ldepth l <= fuel)%nat ->
  snd (generate unroll sc encoder_init im) = Some ps ->
  (exists e1, py_generate fuel e0 im = POk (e1, map pv ps)) /\ contiguous 0 ps (total_bits ps) /\ Forall (piece_ok im) ps.
Proof.
  intros Hn Hsig Hsc Hun Hl Hf Hg. split; [|exact (layout_tiles_lemma unroll sc encoder_init im ps Hg)].
  destruct (generate unroll sc encoder_init im) as [e' r] eqn:Eg. cbn [snd] in Hg. subst r.
  eexists. exact (translated_generate_is_model sc unroll encoder_init im e' ps e0 fuel l Hn Hsig Hsc Hun Hl Hf Eg).
Qed.

(* the object's earlier state does not matter: two encoder objects of the same schema and context, whatever they hold,
   return the same Values *)
Theorem translated_generate_history_independent sc unroll im ps (e1 e2 : penc) fuel l :
  NoDup (map sname (structs sc)) -> sig_ok im -> pe_fcp e1 = sc -> pe_unroll e1 = unroll -> pe_fcp e2 = sc -> pe_unroll e2 = unroll ->
  lresolve unroll sc (itype im) = Some l -> (ldepth l <= fuel)%nat ->
  snd (generate unroll sc encoder_init im) = Some ps ->
  py_generate fuel e1 im = py_generate fuel e2 im.
Proof.
  intros Hn Hsig H1 H1' H2 H2' Hl Hf Hg.
  destruct (generate unroll sc encoder_init im) as [e' r] eqn:Eg. cbn [snd] in Hg. subst r.
  rewrite (translated_generate_is_model sc unroll encoder_init im e' ps e1 fuel l Hn Hsig H1 H1' Hl Hf Eg).
  now rewrite (translated_generate_is_model sc unroll encoder_init im e' ps e2 fuel l Hn Hsig H2 H2' Hl Hf Eg).
Qed.
