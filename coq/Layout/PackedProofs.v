From Coq Require Import String ZArith List Bool Lia.
From FcpV Require Import Schema.Types Layout.Packed.
Import ListNotations.
Open Scope Z_scope.

Lemma lty_ind2 (P : lty -> Prop)
  (HL : forall t len, P (LLeaf t len)) (HB : P LBad)
  (HA : forall e n, P e -> P (LArr e n))
  (HS : forall fs, Forall (fun f => P (snd f)) fs -> P (LStruct fs)) : forall l, P l.
Proof.
  fix IH 1. intros l. destruct l as [t len| |e n|fs].
  - apply HL. - apply HB. - apply HA. apply IH.
  - apply HS. induction fs as [|f fs IHfs]; constructor; [apply IH|exact IHfs].
Qed.

(* pieces tile [s, e): each starts where the previous one ended *)
Fixpoint contiguous (s : Z) (l : list piece) (e : Z) : Prop :=
  match l with
  | [] => s = e
  | p :: l' => pstart p = s /\ contiguous (s + plen p) l' e
  end.

Lemma contiguous_app s l1 m l2 e :
  contiguous s l1 m -> contiguous m l2 e -> contiguous s (l1 ++ l2) e.
Proof.
  revert s. induction l1 as [|p l1 IH]; intros s H1 H2; cbn in *.
  - now subst.
  - destruct H1 as [Hs H1]. split; [exact Hs|]. now apply IH.
Qed.

(* what one emission step does to the state: appends pieces that tile from the
   old cursor to the new one, each carrying the options of its own field name *)
Definition piece_ok (im : simpl) (p : piece) : Prop :=
  pext p = sig_fields im (last (ppath p) ""%string) /\
  pend p = endianess_of (pext p) /\
  pname p = render_path (ppath p).

Definition step_ok (im : simpl) (f : est -> est) : Prop :=
  forall ps cur ps' cur',
    f (Some (ps, cur)) = Some (ps', cur') ->
    exists new, ps' = ps ++ new /\ contiguous cur new cur' /\ Forall (piece_ok im) new.


Lemma last_snoc {A} (l : list A) x d : last (l ++ [x]) d = x.
Proof. apply last_last. Qed.

Lemma emit_leaf_ok im prefix name unit t len : step_ok im (emit_leaf im prefix name unit t len).
Proof.
  intros ps cur ps' cur' H. cbn in H. inversion H; subst; clear H.
  eexists. split; [reflexivity|]. split.
  - cbn. split; [reflexivity|reflexivity].
  - constructor; [|constructor]. unfold piece_ok. cbn. rewrite last_snoc. auto.
Qed.

Lemma emit_idx_none {A} (f : nat -> A -> est -> est) :
  (forall i x, f i x None = None) -> forall l i, emit_idx f i l None = None.
Proof. intros Hf. induction l as [|x l IH]; intros i; cbn [emit_idx]; [reflexivity|]. now rewrite Hf. Qed.

Lemma emit_rep_none (f : nat -> est -> est) :
  (forall i, f i None = None) -> forall n i, emit_rep f i n None = None.
Proof. intros Hf. induction n as [|n IH]; intros i; cbn [emit_rep]; [reflexivity|]. now rewrite Hf. Qed.

(* emission never resurrects a failed state *)
Lemma emit_none im l : forall prefix name unit, emit im l prefix name unit None = None.
Proof.
  induction l as [t len| |e n IH|fs IH] using lty_ind2; intros prefix name unit; cbn [emit]; try reflexivity.
  - generalize 0%nat. induction n as [|n IHn]; intros i; cbn [emit_rep]; [reflexivity|]. rewrite IH. apply IHn.
  - generalize 0%nat. induction fs as [|f fs IHfs]; intros i; cbn [emit_idx]; [reflexivity|].
    inversion IH as [|? ? Hf IH']; subst. rewrite Hf. now apply IHfs.
Qed.

Lemma step_ok_id im : step_ok im (fun st => st).
Proof. intros ps cur ps' cur' H. inversion H; subst. exists []. rewrite app_nil_r. repeat split; constructor. Qed.

Lemma step_ok_comp im (f g : est -> est) :
  step_ok im f -> step_ok im g -> g None = None -> step_ok im (fun st => g (f st)).
Proof.
  intros Hf Hg Hn ps cur ps' cur' H.
  destruct (f (Some (ps, cur))) as [[ps1 cur1]|] eqn:E1; [|rewrite Hn in H; discriminate].
  destruct (Hf _ _ _ _ E1) as (n1 & -> & Hc1 & Hp1).
  destruct (Hg _ _ _ _ H) as (n2 & -> & Hc2 & Hp2).
  exists (n1 ++ n2). rewrite app_assoc. split; [reflexivity|]. split.
  - eapply contiguous_app; eauto.
  - apply Forall_app; auto.
Qed.

Lemma emit_idx_ok {A} im (f : nat -> A -> est -> est) l :
  (forall i x, f i x None = None) ->
  Forall (fun x => forall i, step_ok im (f i x)) l -> forall i, step_ok im (emit_idx f i l).
Proof.
  intros Hn. induction l as [|x l IH]; intros HF i; cbn [emit_idx]; [apply step_ok_id|].
  inversion HF as [|? ? Hx HF']; subst.
  apply (step_ok_comp im (f i x) (emit_idx f (S i) l)); [apply Hx|now apply IH|now apply emit_idx_none].
Qed.

Lemma emit_rep_ok im (f : nat -> est -> est) :
  (forall i, f i None = None) -> (forall i, step_ok im (f i)) -> forall n i, step_ok im (emit_rep f i n).
Proof.
  intros Hn Hf. induction n as [|n IH]; intros i; cbn [emit_rep]; [apply step_ok_id|].
  apply (step_ok_comp im (f i) (emit_rep f (S i) n)); [apply Hf|apply IH|now apply emit_rep_none].
Qed.

Lemma emit_ok im l : forall prefix name unit, step_ok im (emit im l prefix name unit).
Proof.
  induction l as [t len| |e n IH|fs IH] using lty_ind2; intros prefix name unit; cbn [emit].
  - apply emit_leaf_ok.
  - intros ps cur ps' cur' H. discriminate.
  - apply emit_rep_ok; [intros i; apply emit_none|intros i; apply IH].
  - apply emit_idx_ok; [intros i x; apply emit_none|].
    eapply Forall_impl; [|exact IH]. intros f Hf i. apply Hf.
Qed.

Lemma emit_top_ok im l : step_ok im (emit_top im l).
Proof.
  destruct l as [t len| |e n|fs]; try (intros ps cur ps' cur' H; discriminate).
  cbn [emit_top]. apply emit_idx_ok; [intros i x; apply emit_none|].
  apply Forall_forall. intros f _ i. apply emit_ok.
Qed.

(* ---------- the layout tiles the message ---------- *)
Definition total_bits (l : list piece) : Z := fold_right (fun p a => plen p + a) 0 l.

Lemma contiguous_total s l e : contiguous s l e -> e = s + total_bits l.
Proof.
  revert s. induction l as [|p l IH]; intros s H; cbn [contiguous total_bits fold_right] in *; [lia|].
  destruct H as [_ H]. apply IH in H. fold (total_bits l). lia.
Qed.

Theorem layout_tiles_lemma unroll sc e im ps :
  snd (generate unroll sc e im) = Some ps ->
  contiguous 0 ps (total_bits ps) /\ Forall (piece_ok im) ps.
Proof.
  unfold generate. destruct (lresolve unroll sc (itype im)) as [l|]; [|discriminate].
  destruct (emit_top im l (Some ([], 0))) as [[ps' cur]|] eqn:E; [|discriminate].
  cbn [snd]. intros H. inversion H; subst.
  destruct (emit_top_ok im l _ _ _ _ E) as (new & Hn & Hc & Hp). cbn in Hn. subst new.
  split; [|exact Hp]. pose proof (contiguous_total _ _ _ Hc) as Ht. cbn in Ht. now subst cur.
Qed.

(* the end of the last piece is the total: checking the last piece is checking the message *)
Lemma contiguous_last s l e p : contiguous s (l ++ [p]) e -> pstart p + plen p = e.
Proof.
  revert s. induction l as [|q l IH]; intros s H; cbn in *.
  - destruct H as [Hs H]. lia.
  - destruct H as [_ H]. eapply IH; eauto.
Qed.

(* pairwise disjoint and inside [0, total) when lengths are non-negative *)
Lemma contiguous_bounds s l e : Forall (fun p => 0 <= plen p) l -> contiguous s l e ->
  Forall (fun p => s <= pstart p /\ pstart p + plen p <= e) l.
Proof.
  revert s. induction l as [|p l IH]; intros s Hn H; [constructor|].
  inversion Hn as [|? ? Hp Hn']; subst. cbn in H. destruct H as [Hs H].
  pose proof (contiguous_total _ _ _ H) as Ht.
  assert (0 <= total_bits l).
  { clear -Hn'. induction Hn' as [|q l Hq _ IHn]; cbn [total_bits fold_right]; [lia|]. fold (total_bits l). lia. }
  constructor; [lia|]. specialize (IH _ Hn' H).
  eapply Forall_impl; [|exact IH]. cbn. intros q Hq. lia.
Qed.

(* ---------- history independence ---------- *)
Theorem generate_history_independent_lemma unroll sc e1 e2 im :
  snd (generate unroll sc e1 im) = snd (generate unroll sc e2 im).
Proof. reflexivity. Qed.

Theorem generate_seq_is_pointwise unroll sc : forall ims e,
  generate_seq unroll sc e ims = map (fun im => snd (generate unroll sc encoder_init im)) ims.
Proof.
  induction ims as [|im ims IH]; intros e; [reflexivity|].
  cbn [generate_seq map]. destruct (generate unroll sc e im) as [e' r] eqn:E.
  rewrite IH. f_equal. change r with (snd (e', r)). rewrite <- E. reflexivity.
Qed.

(* ---------- widths are non-negative ---------- *)
Fixpoint lty_nn (l : lty) : Prop :=
  match l with
  | LLeaf _ len => 0 <= len
  | LBad => True
  | LArr e _ => lty_nn e
  | LStruct fs => (fix all (fs : list (string * option string * lty)) : Prop :=
                     match fs with [] => True | f :: fs' => lty_nn (snd f) /\ all fs' end) fs
  end.

Lemma lty_nn_struct fs : lty_nn (LStruct fs) <-> Forall (fun f => lty_nn (snd f)) fs.
Proof.
  cbn [lty_nn]. induction fs as [|f fs IH]; [split; [constructor|trivial]|].
  split.
  - intros [H1 H2]. constructor; [exact H1|now apply IH].
  - intros H. inversion H; subst. split; [assumption|now apply IH].
Qed.

Lemma pow2_ceil_pos n : 0 < pow2_ceil n.
Proof. unfold pow2_ceil. destruct (Z.of_nat n <=? 1); [lia|]. apply Z.pow_pos_nonneg; [lia|apply Z.log2_up_nonneg]. Qed.

Lemma type_length_nn es t : forall l, type_length es t = Some l -> 0 <= l.
Proof.
  induction t as [n|n| | | |s|s|t IH n|t IH|t IH]; intros l H; cbn in H; try discriminate;
    try (inversion H; lia).
  - destruct (find_enum es s); cbn in H; [|discriminate]. inversion H. unfold enum_layout_len.
    pose proof (pow2_ceil_pos (packed_size (enum_max s0))). lia.
  - destruct (type_length es t) as [l'|]; cbn in H; [|discriminate]. inversion H. specialize (IH l' eq_refl). nia.
Qed.

Lemma leaf_of_nn es t : lty_nn (leaf_of es t).
Proof. unfold leaf_of. destruct (type_length es t) eqn:E; cbn; [eapply type_length_nn; eauto|exact I]. Qed.

Definition lenv_nn (en : lenv) : Prop := Forall (fun x => lty_nn (snd x)) en.

Lemma lookup_nn name (en : lenv) l : lenv_nn en -> lookup name en = Some l -> lty_nn l.
Proof.
  induction en as [|[k a] en IH]; intros Hn H; cbn in H; [discriminate|].
  inversion Hn; subst. destruct (String.eqb name k); [inversion H; subst; assumption|auto].
Qed.

Lemma lresolve_ty_nn unroll en es t : forall l, lenv_nn en -> lresolve_ty unroll en es t = Some l -> lty_nn l.
Proof.
  induction t as [n|n| | | |s|s|t IH n|t IH|t IH]; intros l Hn H; cbn [lresolve_ty] in H;
    try (inversion H; subst; apply leaf_of_nn).
  - eapply lookup_nn; eauto.
  - destruct unroll.
    + destruct (lresolve_ty true en es t) as [e|]; cbn in H; [|discriminate]. inversion H; subst. cbn. now apply IH.
    + inversion H; subst. apply leaf_of_nn.
Qed.

Lemma lresolve_fields_nn unroll en es fs : forall r, lenv_nn en ->
  lresolve_fields unroll en es fs = Some r -> Forall (fun f => lty_nn (snd f)) r.
Proof.
  induction fs as [|f fs IH]; intros r Hn H; cbn in H; [inversion H; constructor|].
  destruct (lresolve_ty unroll en es (fty f)) as [a|] eqn:Ea; [|discriminate].
  destruct (lresolve_fields unroll en es fs) as [rs|]; [|discriminate].
  inversion H; subst. constructor; [cbn; eapply lresolve_ty_nn; eauto|now apply IH].
Qed.

Lemma lbuild_env_nn unroll es ss : forall en, lenv_nn en -> lenv_nn (lbuild_env unroll en es ss).
Proof.
  induction ss as [|s ss IH]; intros en Hn; cbn; [exact Hn|].
  unfold lresolve_struct. destruct (lresolve_fields unroll en es (sort_by fid (sfields s))) as [r|] eqn:E; cbn.
  - apply IH. apply Forall_app. split; [exact Hn|]. constructor; [|constructor].
    cbn [snd]. apply lty_nn_struct. eapply lresolve_fields_nn; eauto.
  - now apply IH.
Qed.

Definition st_nn (st : est) : Prop :=
  match st with Some (ps, _) => Forall (fun p => 0 <= plen p) ps | None => True end.

Lemma emit_idx_inv {A} (f : nat -> A -> est -> est) (I : est -> Prop) l :
  Forall (fun x => forall i st, I st -> I (f i x st)) l -> forall i st, I st -> I (emit_idx f i l st).
Proof.
  induction l as [|x l IH]; intros HF i st Hst; cbn [emit_idx]; [exact Hst|].
  inversion HF; subst. apply IH; auto.
Qed.

Lemma emit_rep_inv (f : nat -> est -> est) (I : est -> Prop) :
  (forall i st, I st -> I (f i st)) -> forall n i st, I st -> I (emit_rep f i n st).
Proof. intros Hf. induction n as [|n IH]; intros i st Hst; cbn [emit_rep]; [exact Hst|]. apply IH. now apply Hf. Qed.

Lemma emit_nn im l : lty_nn l -> forall prefix name unit st, st_nn st -> st_nn (emit im l prefix name unit st).
Proof.
  induction l as [t len| |e n IH|fs IH] using lty_ind2; intros Hl prefix name unit st Hst; cbn [emit].
  - destruct st as [[ps cur]|]; cbn; [|exact I]. apply Forall_app. split; [exact Hst|]. constructor; [exact Hl|constructor].
  - exact I.
  - apply emit_rep_inv; [|exact Hst]. intros i st' Hst'. now apply IH.
  - apply lty_nn_struct in Hl. apply emit_idx_inv; [|exact Hst].
    rewrite Forall_forall in *. intros f Hf i st' Hst'. apply IH; auto.
Qed.

Theorem generate_nonneg unroll sc e im ps :
  snd (generate unroll sc e im) = Some ps -> Forall (fun p => 0 <= plen p) ps.
Proof.
  unfold generate, lresolve. destruct (lookup (itype im) _) as [l|] eqn:El; [|discriminate].
  assert (Hl : lty_nn l).
  { eapply lookup_nn; [|exact El]. apply lbuild_env_nn. constructor. }
  destruct (emit_top im l (Some ([], 0))) as [[ps' cur]|] eqn:E; [|discriminate].
  cbn [snd]. intros H. inversion H; subst.
  destruct l as [t len| |e' n|fs]; try discriminate. cbn [emit_top] in E.
  apply lty_nn_struct in Hl.
  assert (Hst : st_nn (Some (ps, cur))).
  { rewrite <- E. apply emit_idx_inv; [|constructor].
    rewrite Forall_forall in *. intros f Hf i st' Hst'. apply emit_nn; auto. }
  exact Hst.
Qed.
