(* C15 for the translated PackedEncoder: declaring the fields of the structs in another order does not change the Values the
   translated generate() returns. *)
From Coq Require Import String ZArith List Bool.
From FcpV Require Import Schema.Types Schema.PermProofs Layout.Packed Layout.PackedProofs Py.BufferLib Layout.EncoderLib gen.PyEncoder
  Layout.EncoderProofs.
Import ListNotations.
Open Scope Z_scope.

Theorem translated_generate_perm sc sc' unroll im ps (e0 e0' : penc) fuel l :
  schema_perm sc sc' -> NoDup (map sname (structs sc)) -> NoDup (map sname (structs sc')) -> sig_ok im ->
  pe_fcp e0 = sc -> pe_unroll e0 = unroll -> pe_fcp e0' = sc' -> pe_unroll e0' = unroll ->
  lresolve unroll sc (itype im) = Some l -> (ldepth l <= fuel)%nat ->
  snd (generate unroll sc encoder_init im) = Some ps ->
  (exists a, py_generate fuel e0 im = POk (a, map pv ps)) /\ (exists b, py_generate fuel e0' im = POk (b, map pv ps)).
Proof.
  intros Hp Hn Hn' Hsig H1 H1' H2 H2' Hl Hf Hg. split.
  - exact (proj1 (translated_layout_tiles sc unroll im ps e0 fuel l Hn Hsig H1 H1' Hl Hf Hg)).
  - assert (Hl' : lresolve unroll sc' (itype im) = Some l) by now rewrite <- (lresolve_perm unroll sc sc' (itype im) Hp).
    assert (Hg' : snd (generate unroll sc' encoder_init im) = Some ps) by now rewrite <- (generate_perm unroll sc sc' encoder_init im Hp).
    exact (proj1 (translated_layout_tiles sc' unroll im ps e0' fuel l Hn' Hsig H2 H2' Hl' Hf Hg')).
Qed.
