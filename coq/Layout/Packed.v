(* Model of src/fcp/encoding.py: PackedEncoder.  No proofs here.

   The encoder is a state machine (encoding list, bitstart) that generate()
   resets; a struct is walked in ascending field id (stable sort); nested
   structs extend the name prefix with "<field>::"; with unroll_arrays an
   array field is replaced by derived fields "<field>_<i>" that inherit the
   unit and are looked up (signal block) under the derived name; every other
   field becomes one Value whose length is _get_type_length. *)
From Coq Require Import String ZArith List Bool.
From FcpV Require Import Schema.Types.
Import ListNotations.
Open Scope Z_scope.

(* values of impl / signal-block fields as far as the layout looks at them *)
Inductive xval := XInt (z : Z) | XStr (s : string) | XOther.

Record sigblock := { sbname : string; sbfields : list (string * xval) }.
Record simpl := {
  iname : string; iprotocol : string; itype : string;
  ifields : list (string * xval); isignals : list sigblock }.

(* one encodable piece (encoding.Value); [ppath] is the structured form of the
   name (ghost: the rendered name is what the code exposes) *)
Record piece := {
  ppath : list string; pname : string; pty : sty; pstart : Z; plen : Z;
  pend : string; punit : option string; pext : list (string * xval) }.

(* ---------- resolved layout trees ---------- *)
Inductive lty :=
| LLeaf (t : sty) (len : Z)                  (* one Value of that many bits *)
| LBad                                       (* _get_type_length raises ValueError here *)
| LArr (elem : lty) (n : nat)                (* unrolled array *)
| LStruct (fs : list (string * option string * lty)).   (* ascending field id *)

Definition lenv := list (string * lty).

(* Enum layout width: 2 ** ceil(log2(get_packed_size())) *)
Definition pow2_ceil (n : nat) : Z :=
  if (Z.of_nat n <=? 1) then 1 else 2 ^ Z.log2_up (Z.of_nat n).
Definition enum_layout_len (e : senum) : Z := pow2_ceil (packed_size (enum_max e)).

(* _get_type_length for the types it accepts; None = ValueError *)
Fixpoint type_length (es : list senum) (t : sty) : option Z :=
  match t with
  | SU n | SI n => Some (Z.of_nat n)
  | SF32 => Some 32
  | SF64 => Some 64
  | SArr t n => option_map (fun l => Z.of_nat n * l) (type_length es t)
  | SEnumRef s => option_map enum_layout_len (find_enum es s)
  | _ => None
  end.

Definition leaf_of (es : list senum) (t : sty) : lty :=
  match type_length es t with Some l => LLeaf t l | None => LBad end.

Fixpoint lresolve_ty (unroll : bool) (en : lenv) (es : list senum) (t : sty) : option lty :=
  match t with
  | SStructRef s => lookup s en                    (* unknown struct: unwrap() raises; None *)
  | SArr t' n =>
      if unroll then option_map (fun e => LArr e n) (lresolve_ty unroll en es t')
      else Some (leaf_of es t)
  | _ => Some (leaf_of es t)
  end.

Fixpoint lresolve_fields (unroll : bool) (en : lenv) (es : list senum) (fs : list sfield)
  : option (list (string * option string * lty)) :=
  match fs with
  | [] => Some []
  | f :: fs' =>
      match lresolve_ty unroll en es (fty f), lresolve_fields unroll en es fs' with
      | Some r, Some rs => Some ((fname f, funit f, r) :: rs)
      | _, _ => None
      end
  end.

Definition lresolve_struct (unroll : bool) (en : lenv) (es : list senum) (s : sstruct) : option lty :=
  option_map LStruct (lresolve_fields unroll en es (sort_by fid (sfields s))).

Fixpoint lbuild_env (unroll : bool) (en : lenv) (es : list senum) (ss : list sstruct) : lenv :=
  match ss with
  | [] => en
  | s :: ss' =>
      match lresolve_struct unroll en es s with
      | Some r => lbuild_env unroll (en ++ [(sname s, r)]) es ss'
      | None => lbuild_env unroll en es ss'
      end
  end.

Definition lresolve (unroll : bool) (sc : schema) (name : string) : option lty :=
  lookup name (lbuild_env unroll [] (enums sc) (structs sc)).

(* ---------- emission ---------- *)
Definition sig_fields (im : simpl) (name : string) : list (string * xval) :=
  match find (fun sb => String.eqb (sbname sb) name) (isignals im) with
  | Some sb => sbfields sb
  | None => []
  end.

(* fields.get("endianess") or "little" *)
Definition endianess_of (fields : list (string * xval)) : string :=
  match lookup "endianess"%string fields with
  | Some (XStr s) => if String.eqb s "" then "little"%string else s
  | _ => "little"%string
  end.

Definition render_path (path : list string) : string := String.concat "::" path.

(* decimal rendering of an index: str(i) *)
Definition digit (n : nat) : string :=
  String (Ascii.ascii_of_nat (48 + n)) EmptyString.
Fixpoint dec_fuel (fuel n : nat) : string :=
  match fuel with
  | O => ""%string
  | S f => if Nat.ltb n 10 then digit n else (dec_fuel f (n / 10) ++ digit (n mod 10))%string
  end.
Definition dec_str (n : nat) : string := dec_fuel (S n) n.

(* emission state: pieces so far (in order) and the bit cursor; None = raised *)
Definition est := option (list piece * Z).

Definition emit_leaf (im : simpl) (prefix : list string) (name : string) (unit : option string)
  (t : sty) (len : Z) (st : est) : est :=
  match st with
  | None => None
  | Some (ps, cur) =>
      let fields := sig_fields im name in
      let path := prefix ++ [name] in
      Some (ps ++ [ {| ppath := path; pname := render_path path; pty := t; pstart := cur; plen := len;
                       pend := endianess_of fields; punit := unit; pext := fields |} ], cur + len)
  end.

Definition emit_idx {A : Type} (f : nat -> A -> est -> est) : nat -> list A -> est -> est :=
  fix go (i : nat) (l : list A) (st : est) : est :=
  match l with
  | [] => st
  | x :: l' => go (S i) l' (f i x st)
  end.

Definition emit_rep (f : nat -> est -> est) : nat -> nat -> est -> est :=
  fix go (i n : nat) (st : est) {struct n} : est :=
  match n with
  | O => st
  | S n' => go (S i) n' (f i st)
  end.

Fixpoint emit (im : simpl) (l : lty) (prefix : list string) (name : string) (unit : option string)
  (st : est) {struct l} : est :=
  match l with
  | LLeaf t len => emit_leaf im prefix name unit t len st
  | LBad => None
  | LArr e n =>
      emit_rep (fun i st' => emit im e prefix (name ++ "_" ++ dec_str i)%string unit st') 0 n st
  | LStruct fs =>
      emit_idx (fun _ (f : string * option string * lty) st' =>
                  emit im (snd f) (prefix ++ [name]) (fst (fst f)) (snd (fst f)) st') 0 fs st
  end.

(* the top level: generate() walks the struct named by the impl with an empty prefix *)
Definition emit_top (im : simpl) (l : lty) (st : est) : est :=
  match l with
  | LStruct fs =>
      emit_idx (fun _ (f : string * option string * lty) st' =>
                  emit im (snd f) [] (fst (fst f)) (snd (fst f)) st') 0 fs st
  | _ => None
  end.

(* the encoder object: state survives between calls; generate() resets it *)
Record encoder := { enc_pieces : list piece; enc_bitstart : Z }.
Definition encoder_init : encoder := {| enc_pieces := []; enc_bitstart := 0 |}.

Definition generate (unroll : bool) (sc : schema) (e : encoder) (im : simpl)
  : encoder * option (list piece) :=
  let reset := Some ([], 0) in                 (* self.encoding = []; self.bitstart = 0 *)
  match lresolve unroll sc (itype im) with
  | None => ({| enc_pieces := []; enc_bitstart := 0 |}, None)
  | Some l =>
      match emit_top im l reset with
      | Some (ps, cur) => ({| enc_pieces := ps; enc_bitstart := cur |}, Some ps)
      | None => ({| enc_pieces := []; enc_bitstart := 0 |}, None)
      end
  end.

(* a sequence of generate() calls on one encoder; the outputs *)
Fixpoint generate_seq (unroll : bool) (sc : schema) (e : encoder) (ims : list simpl)
  : list (option (list piece)) :=
  match ims with
  | [] => []
  | im :: ims' => let '(e', r) := generate unroll sc e im in r :: generate_seq unroll sc e' ims'
  end.
