From Coq Require Import ZArith List Bool Lia.
From FcpV Require Import Base.Bits.
Import ListNotations.
Open Scope Z_scope.

Ltac Zify.zify_post_hook ::= Z.div_mod_to_equations.

Lemma bits_of_Z_length n : forall z, length (bits_of_Z n z) = n.
Proof. induction n as [|n IH]; intros z; cbn; [reflexivity|]. now rewrite IH. Qed.

Lemma b2z_range b : 0 <= Z.b2z b <= 1.
Proof. destruct b; cbn; lia. Qed.

Lemma odd_b2z_add b x : Z.odd (Z.b2z b + 2 * x) = b.
Proof. rewrite Z.odd_add_mul_2. destruct b; reflexivity. Qed.

Lemma div2_b2z_add b x : Z.div2 (Z.b2z b + 2 * x) = x.
Proof. rewrite Z.div2_div. pose proof (b2z_range b). lia. Qed.

Lemma Z_of_bits_range l : 0 <= Z_of_bits l < 2 ^ Z.of_nat (length l).
Proof.
  induction l as [|b l IH]; [cbn; lia|].
  cbn [Z_of_bits length]. rewrite Nat2Z.inj_succ, Z.pow_succ_r by lia.
  pose proof (b2z_range b). lia.
Qed.

Lemma odd_div2_decomp z : z = Z.b2z (Z.odd z) + 2 * Z.div2 z.
Proof. rewrite (Z.div2_odd z) at 1. lia. Qed.

Lemma Z_of_bits_of_Z n : forall z, Z_of_bits (bits_of_Z n z) = z mod 2 ^ Z.of_nat n.
Proof.
  induction n as [|n IH]; intros z.
  - cbn. now rewrite Z.mod_1_r.
  - cbn [bits_of_Z Z_of_bits]. rewrite IH, Nat2Z.inj_succ, Z.pow_succ_r by lia.
    pose proof (odd_div2_decomp z) as Hz. pose proof (b2z_range (Z.odd z)) as Hb.
    assert (Hp : 0 < 2 ^ Z.of_nat n) by (apply Z.pow_pos_nonneg; lia).
    set (p := 2 ^ Z.of_nat n) in *. set (d := Z.div2 z) in *. set (o := Z.b2z (Z.odd z)) in *.
    rewrite Hz. clearbody o d p. clear Hz.
    (* (o + 2 d) mod (2 p) = o + 2 (d mod p) *)
    rewrite Z.rem_mul_r by lia.
    replace ((o + 2 * d) mod 2) with o by lia.
    replace ((o + 2 * d) / 2) with d by lia. lia.
Qed.

Lemma bits_of_Z_of_bits n : forall l,
  bits_of_Z n (Z_of_bits l) = firstn n l ++ repeat false (n - length l).
Proof.
  induction n as [|n IH]; intros l; [reflexivity|].
  destruct l as [|b l].
  - cbn [Z_of_bits bits_of_Z]. change (Z.odd 0) with false. change (Z.div2 0) with 0.
    specialize (IH []). cbn [Z_of_bits] in IH. rewrite IH.
    rewrite !firstn_nil. cbn [app length]. rewrite !Nat.sub_0_r. reflexivity.
  - cbn [Z_of_bits bits_of_Z firstn length Nat.sub app].
    rewrite odd_b2z_add, div2_b2z_add, IH. reflexivity.
Qed.

Lemma bits_of_Z_of_bits_exact l : bits_of_Z (length l) (Z_of_bits l) = l.
Proof.
  rewrite bits_of_Z_of_bits, firstn_all, Nat.sub_diag. cbn. apply app_nil_r.
Qed.

Lemma bits_of_Z_mod n : forall z, bits_of_Z n (z mod 2 ^ Z.of_nat n) = bits_of_Z n z.
Proof.
  intros z. rewrite <- Z_of_bits_of_Z.
  rewrite <- (bits_of_Z_length n z) at 1. apply bits_of_Z_of_bits_exact.
Qed.

(* ---------- bytes ---------- *)

Lemma bits_of_bytes_length bs : length (bits_of_bytes bs) = (8 * length bs)%nat.
Proof.
  induction bs as [|b bs IH]; [reflexivity|].
  cbn [bits_of_bytes length]. rewrite app_length, IH. unfold byte_bits. rewrite bits_of_Z_length. lia.
Qed.

Lemma bits_of_bytes_app a b : bits_of_bytes (a ++ b) = bits_of_bytes a ++ bits_of_bytes b.
Proof. induction a as [|x a IH]; [reflexivity|]. cbn [app bits_of_bytes]. now rewrite IH, app_assoc. Qed.

Lemma pad_len_lt8 n : (0 < n < 8)%nat -> pad_len n = (8 - n)%nat.
Proof.
  intros H. unfold pad_len. rewrite (Nat.mod_small n 8) by lia. apply Nat.mod_small. lia.
Qed.

Lemma pad_len_add8 n : pad_len (8 + n) = pad_len n.
Proof.
  unfold pad_len. replace ((8 + n) mod 8)%nat with (n mod 8)%nat; [reflexivity|].
  rewrite <- (Nat.mod_add n 1 8) by lia. f_equal. lia.
Qed.

Lemma bytes_bits_fuel fuel : forall l, (length l <= fuel)%nat ->
  bits_of_bytes (bytes_of_bits_fuel fuel l) = l ++ padding l.
Proof.
  induction fuel as [|fuel IH]; intros l Hl.
  - destruct l; cbn in Hl; [reflexivity|lia].
  - destruct l as [|b l]; [reflexivity|].
    cbn [bytes_of_bits_fuel bits_of_bytes]. unfold byte_bits.
    rewrite bits_of_Z_of_bits.
    destruct (Nat.le_gt_cases 8 (length (b :: l))) as [Hge|Hlt].
    + (* a full byte *)
      rewrite firstn_length, Nat.min_l by exact Hge.
      rewrite firstn_firstn, Nat.min_id. cbn [Nat.sub repeat]. rewrite app_nil_r.
      rewrite IH by (rewrite skipn_length; cbn [length] in *; lia).
      rewrite app_assoc, firstn_skipn. f_equal.
      unfold padding. f_equal. rewrite skipn_length.
      rewrite <- (pad_len_add8 (length (b :: l) - 8)). f_equal. lia.
    + assert (Hf : firstn 8 (b :: l) = b :: l) by (apply firstn_all2; lia).
      rewrite !Hf. rewrite skipn_all2 by lia.
      destruct fuel; cbn [bytes_of_bits_fuel bits_of_bytes]; rewrite app_nil_r;
        f_equal; unfold padding; f_equal; rewrite pad_len_lt8; cbn [length] in *; lia.
Qed.

Lemma bits_of_bytes_of_bits l : bits_of_bytes (bytes_of_bits l) = l ++ padding l.
Proof. apply bytes_bits_fuel. lia. Qed.

Lemma padding_length l : (length (padding l) < 8)%nat.
Proof. unfold padding. rewrite repeat_length. unfold pad_len. apply Nat.mod_upper_bound. lia. Qed.

Lemma padded_length_mult8 l : (length (l ++ padding l) mod 8 = 0)%nat.
Proof.
  rewrite <- bits_of_bytes_of_bits, bits_of_bytes_length.
  rewrite Nat.mul_comm. apply Nat.mod_mul. lia.
Qed.

Lemma bytes_of_bits_length8 l : (8 * length (bytes_of_bits l) = length l + length (padding l))%nat.
Proof. rewrite <- bits_of_bytes_length, bits_of_bytes_of_bits, app_length. reflexivity. Qed.

(* A strict byte prefix of the packed bytes is a strict bit prefix of the
   unpadded bit string. *)
Lemma byte_prefix_is_bit_prefix l k :
  (k < length (bytes_of_bits l))%nat ->
  bits_of_bytes (firstn k (bytes_of_bits l)) = firstn (8 * k) l /\ (8 * k < length l)%nat.
Proof.
  intros Hk.
  pose proof (bytes_of_bits_length8 l) as H8. pose proof (padding_length l) as Hp.
  assert (Hlt : (8 * k < length l)%nat) by lia.
  split; [|exact Hlt].
  pose proof (firstn_skipn k (bytes_of_bits l)) as Hsplit.
  pose proof (bits_of_bytes_of_bits l) as Hb.
  rewrite <- Hsplit, bits_of_bytes_app in Hb.
  assert (Hlen : length (bits_of_bytes (firstn k (bytes_of_bits l))) = (8 * k)%nat).
  { rewrite bits_of_bytes_length, firstn_length. lia. }
  apply (f_equal (firstn (8 * k))) in Hb.
  rewrite firstn_app, <- Hlen, firstn_all, Nat.sub_diag in Hb. cbn [firstn] in Hb.
  rewrite app_nil_r in Hb. rewrite Hb, Hlen.
  rewrite firstn_app. replace (8 * k - length l)%nat with 0%nat by lia.
  cbn [firstn]. now rewrite app_nil_r.
Qed.
