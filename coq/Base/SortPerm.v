(* sorted(fields, key=field_id) does not depend on the order of its input when
   the keys are pairwise distinct. *)
From Coq Require Import String ZArith List Bool Lia Permutation Sorted.
From FcpV Require Import Schema.Types.
Import ListNotations.
Open Scope Z_scope.

Section Sort.
  Context {A : Type} (key : A -> Z).
  Let le := fun a b => key a <= key b.

  Lemma insert_perm x l : Permutation (insert_by key x l) (x :: l).
  Proof.
    induction l as [|y l IH]; cbn; [reflexivity|].
    destruct (key y <=? key x); [|reflexivity].
    rewrite IH. apply perm_swap.
  Qed.

  Lemma sort_perm l : Permutation (sort_by key l) l.
  Proof.
    induction l as [|x l IH]; cbn; [reflexivity|].
    unfold sort_by in *. cbn. rewrite insert_perm. now constructor.
  Qed.

  Lemma insert_sorted x l : StronglySorted le l -> StronglySorted le (insert_by key x l).
  Proof.
    induction 1 as [|y l Hs IH Hy]; cbn; [repeat constructor|].
    destruct (Z.leb_spec (key y) (key x)) as [Hle|Hgt].
    - constructor; [exact IH|].
      apply Forall_forall. intros z Hz.
      apply (Permutation_in _ (insert_perm x l)) in Hz. destruct Hz as [->|Hz]; [exact Hle|].
      rewrite Forall_forall in Hy. now apply Hy.
    - constructor; [now constructor|]. constructor; [unfold le; lia|].
      eapply Forall_impl; [|exact Hy]. unfold le. intros z Hz. lia.
  Qed.

  Lemma sort_sorted l : StronglySorted le (sort_by key l).
  Proof.
    induction l as [|x l IH]; [constructor|]. unfold sort_by in *. cbn. now apply insert_sorted.
  Qed.

  Lemma key_inj_on l a b : NoDup (map key l) -> In a l -> In b l -> key a = key b -> a = b.
  Proof.
    induction l as [|x l IH]; intros Hnd Ha Hb Hk; [contradiction|].
    cbn in Hnd. inversion Hnd as [|? ? Hnin Hnd']; subst.
    destruct Ha as [->|Ha]; destruct Hb as [->|Hb]; auto.
    - exfalso. apply Hnin. rewrite Hk. now apply in_map.
    - exfalso. apply Hnin. rewrite <- Hk. now apply in_map.
  Qed.

  Lemma sorted_perm_eq : forall l1 l2,
    StronglySorted le l1 -> StronglySorted le l2 -> Permutation l1 l2 ->
    NoDup (map key l1) -> l1 = l2.
  Proof.
    induction l1 as [|a t1 IH]; intros l2 H1 H2 Hp Hnd.
    - apply Permutation_nil in Hp. now subst.
    - destruct l2 as [|b t2]; [apply Permutation_sym, Permutation_nil in Hp; discriminate|].
      inversion H1 as [|? ? Hs1 Ha]; subst. inversion H2 as [|? ? Hs2 Hb]; subst.
      rewrite Forall_forall in Ha, Hb.
      assert (Hbin : In b (a :: t1)) by (eapply Permutation_in; [apply Permutation_sym; exact Hp|now left]).
      assert (Hain : In a (b :: t2)) by (eapply Permutation_in; [exact Hp|now left]).
      assert (Hab : key a <= key b) by (destruct Hbin as [->|Hb']; [lia|now apply Ha]).
      assert (Hba : key b <= key a) by (destruct Hain as [->|Ha']; [lia|now apply Hb]).
      assert (a = b) by (apply (key_inj_on (a :: t1)); auto; [now left|lia]). subst b.
      f_equal. apply IH; auto.
      + eapply Permutation_cons_inv; eauto.
      + cbn in Hnd. now inversion Hnd.
  Qed.

  Theorem sort_by_perm l l' :
    Permutation l l' -> NoDup (map key l) -> sort_by key l = sort_by key l'.
  Proof.
    intros Hp Hnd. apply sorted_perm_eq.
    - apply sort_sorted. - apply sort_sorted.
    - rewrite (sort_perm l), (sort_perm l'). exact Hp.
    - eapply Permutation_NoDup; [|exact Hnd]. apply Permutation_map. symmetry. apply sort_perm.
  Qed.
End Sort.
