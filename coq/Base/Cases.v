(* Support for the correspondence protocol: the harness writes a list of
   cases (input, observed output of the real code); Coq evaluates the model on
   every input, compares, and prints the indices that disagree. *)
From Coq Require Import List ZArith Bool String Ascii.
Import ListNotations.

Fixpoint mismatches_from {A : Type} (f : A -> bool) (i : nat) (l : list A) : list nat :=
  match l with
  | [] => []
  | x :: l' => if f x then mismatches_from f (S i) l' else i :: mismatches_from f (S i) l'
  end.

Definition mismatches {A : Type} (f : A -> bool) (l : list A) : list nat :=
  mismatches_from f 0 l.

Definition list_eqb {A : Type} (eqb : A -> A -> bool) : list A -> list A -> bool :=
  fix go (a b : list A) {struct a} : bool :=
  match a with
  | [] => match b with [] => true | _ => false end
  | x :: a' => match b with [] => false | y :: b' => eqb x y && go a' b' end
  end.

Definition option_eqb {A : Type} (eqb : A -> A -> bool) (a b : option A) : bool :=
  match a, b with
  | None, None => true
  | Some x, Some y => eqb x y
  | _, _ => false
  end.

Definition pair_eqb {A B : Type} (ea : A -> A -> bool) (eb : B -> B -> bool)
  (a b : A * B) : bool := ea (fst a) (fst b) && eb (snd a) (snd b).
