(* Bit-level foundations shared by every codec model.
   A bit string is a [list bool], first element = first bit on the wire =
   bit 0 of byte 0 (LSB first inside a byte, bytes in address order). *)
From Coq Require Import ZArith List Bool Lia.
Import ListNotations.
Open Scope Z_scope.

(* the n low bits of z, LSB first; two's complement for negative z
   (Python: (word >> i) & 1 for i in range(n)) *)
Fixpoint bits_of_Z (n : nat) (z : Z) : list bool :=
  match n with
  | O => []
  | S n' => Z.odd z :: bits_of_Z n' (Z.div2 z)
  end.

(* unsigned value of a bit string (Python: word |= bit << i) *)
Fixpoint Z_of_bits (l : list bool) : Z :=
  match l with
  | [] => 0
  | b :: l' => Z.b2z b + 2 * Z_of_bits l'
  end.

(* bytes <-> bits *)
Definition byte_bits (b : Z) : list bool := bits_of_Z 8 b.

Fixpoint bits_of_bytes (bs : list Z) : list bool :=
  match bs with
  | [] => []
  | b :: bs' => byte_bits b ++ bits_of_bytes bs'
  end.

(* pack bits into bytes, zero padding the last byte; fuel-free: structural on
   a chunking fuel equal to the length *)
Fixpoint bytes_of_bits_fuel (fuel : nat) (l : list bool) : list Z :=
  match fuel with
  | O => []
  | S f =>
      match l with
      | [] => []
      | _ => Z_of_bits (firstn 8 l) :: bytes_of_bits_fuel f (skipn 8 l)
      end
  end.

Definition bytes_of_bits (l : list bool) : list Z := bytes_of_bits_fuel (length l) l.

(* zero padding to the next byte boundary *)
Definition pad_len (n : nat) : nat := (8 - n mod 8) mod 8.
Definition padding (l : list bool) : list bool := repeat false (pad_len (length l)).
