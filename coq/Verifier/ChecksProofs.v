(* The check functions of verifier.py and of the DBC / C plug-ins (gen/PyChecks.v, translated from the sources on every run by
   harness/py2coq_checks.py) are the predicates of the model Verifier/Checks.v: each returns Ok(()) exactly when the model's
   predicate holds of the node, an error value when it does not, and (the C size rule) raises exactly when the model says so. *)
From Coq Require Import String ZArith List Bool Lia ZifyNat ZifyBool.
From FcpV Require Import Schema.Types Layout.Packed Verifier.Checks Py.BufferLib Verifier.ChecksLib gen.PyChecks.
Import ListNotations.
Open Scope Z_scope.

Lemma count_verdict {A : Type} (eqb : A -> A -> bool) x l :
  (if 1 <? py_count eqb x l then false else true) = once eqb l x.
Proof. unfold py_count, once. destruct (Z.ltb_spec 1 (Z.of_nat (count eqb x l))); destruct (Nat.leb_spec (count eqb x l) 1); try reflexivity; lia. Qed.

Lemma if_flow (b : bool) :
  pbind (pbind (if b then POk (FRet false) else POk (FRet true)) (fun r => match r with FNext => POk FNext | other => POk other end))
        (fun r => match r with FRet v => POk v | _ => PRaise PyAttributeError end) = POk (negb b).
Proof. now destruct b. Qed.

Theorem dup_typenames_is_model t n : General.py_check_duplicate_typenames t n = POk (chk_dup_types t (tn_name n)).
Proof.
  unfold General.py_check_duplicate_typenames. cbv zeta. rewrite if_flow. f_equal.
  unfold chk_dup_types. rewrite <- count_verdict.
  assert (H : map (fun type_ => tn_name type_) (get_types t) = type_names t).
  { unfold get_types, type_names. rewrite map_app, !map_map. reflexivity. }
  rewrite H. now destruct (1 <? _).
Qed.

Theorem dup_impl_is_model t i : General.py_check_duplicate_impl t i = POk (chk_dup_impl t i).
Proof.
  unfold General.py_check_duplicate_impl. cbv zeta. rewrite if_flow. f_equal. unfold chk_dup_impl, impl_keys.
  rewrite <- count_verdict. now destruct (1 <? _).
Qed.

Theorem dup_field_is_model t s f : General.py_check_duplicate_struct_fields t (s, f) = POk (chk_dup_field s f).
Proof.
  unfold General.py_check_duplicate_struct_fields. cbv zeta. rewrite if_flow. f_equal. unfold chk_dup_field.
  rewrite <- count_verdict. now destruct (1 <? _).
Qed.

Theorem struct_nonempty_is_model t s : General.py_check_struct_contains_struct_fields t s = POk (chk_struct_nonempty s).
Proof.
  unfold General.py_check_struct_contains_struct_fields. rewrite if_flow. f_equal. unfold chk_struct_nonempty.
  destruct (sfields s); reflexivity.
Qed.

(* for x in l: if l.count(key x) > 1: return error *)
Lemma first_dup {A B : Type} (eqb : B -> B -> bool) (key : A -> B) (names : list B) : forall l,
  for_first l (fun x => pbind (if 1 <? py_count eqb (key x) names then POk (FRet false) else POk FNext)
                              (fun r => match r with FNext => POk FNext | other => POk other end))
  = POk (if forallb (once eqb names) (map key l) then None else Some false).
Proof.
  induction l as [|x l IH]; [reflexivity|]. cbn [for_first map forallb]. rewrite <- count_verdict.
  destruct (1 <? py_count eqb (key x) names); cbn [pbind andb]; [reflexivity|exact IH].
Qed.

Theorem enum_names_is_model t e : General.py_check_enum_duplicate_enumerations_names t e = POk (chk_enum_names e).
Proof.
  unfold General.py_check_enum_duplicate_enumerations_names. cbv zeta.
  rewrite (first_dup String.eqb (fun en : string * Z => fst en)). unfold chk_enum_names.
  destruct (forallb _ _); reflexivity.
Qed.

Theorem enum_values_is_model t e : General.py_check_enum_duplicate_enumerations_values t e = POk (chk_enum_values e).
Proof.
  unfold General.py_check_enum_duplicate_enumerations_values. cbv zeta.
  rewrite (first_dup Z.eqb (fun en : string * Z => snd en)). unfold chk_enum_values.
  destruct (forallb _ _); reflexivity.
Qed.

Lemma services_loop (known : list string) : forall ss,
  for_first ss (fun service_ => pbind (if negb (existsb (String.eqb service_) known) then POk (FRet false) else POk FNext)
                                      (fun r => match r with FNext => POk FNext | other => POk other end))
  = POk (if forallb (fun s => mem_string s known) ss then None else Some false).
Proof.
  induction ss as [|s ss IH]; [reflexivity|]. cbn [for_first forallb]. unfold mem_string at 1.
  destruct (existsb (String.eqb s) known); cbn [negb pbind andb]; [exact IH|reflexivity].
Qed.

Theorem devices_is_model t d : General.py_check_device_contains_services t d = POk (chk_devices t).
Proof.
  unfold General.py_check_device_contains_services, chk_devices. cbv zeta.
  assert (Hs : map (fun s_ => svc_name s_) (t_services t) = t_services t) by (unfold svc_name; apply map_id).
  rewrite Hs. generalize (t_devices t) as ds. clear d. induction ds as [|d ds IH]; [reflexivity|].
  cbn [for_first forallb]. destruct (dservices d) as [ss|]; cbn [is_none pbind py_iter_opt].
  - rewrite services_loop. destruct (forallb (fun s => mem_string s (t_services t)) ss); cbn [pbind andb]; [exact IH|reflexivity].
  - exact IH.
Qed.

Lemma has_struct_find t name : has_struct t name = negb (is_none (first_struct t name)).
Proof.
  unfold has_struct, first_struct. induction (t_structs t) as [|s ss IH]; [reflexivity|]. cbn [existsb find].
  destruct (String.eqb name (sname s)); [reflexivity|exact IH].
Qed.

Theorem dbc_valid_type_is_model t i : Dbc.py_check_impl_valid_type t i = POk (chk_valid_type t i).
Proof. unfold Dbc.py_check_impl_valid_type. cbv zeta. rewrite if_flow. unfold chk_valid_type. now rewrite has_struct_find. Qed.

Theorem c_valid_type_is_model t i : CanC.py_check_impl_valid_type t i = POk (chk_valid_type t i).
Proof. unfold CanC.py_check_impl_valid_type. cbv zeta. rewrite if_flow. unfold chk_valid_type. now rewrite has_struct_find. Qed.

Lemma count_ids : forall (l : list simpl) (o : option xval),
  count oxval_eqb o (map (fun c => lookup "id"%string (ifields c)) (filter (fun c => negb (is_none (lookup "id"%string (ifields c)))) (filter (fun i => String.eqb (iprotocol i) "can") l)))
  = match o with
    | Some v => count xval_eqb v (flat_map (fun i => if is_can i then match impl_id i with Some v => [v] | None => [] end else []) l)
    | None => 0%nat
    end.
Proof.
  unfold count. induction l as [|c l IH]; intros o; [now destruct o|].
  cbn [filter flat_map]. unfold is_can at 1, impl_id at 1. destruct (String.eqb (iprotocol c) "can"); [|exact (IH o)].
  cbn [filter]. destruct (lookup "id"%string (ifields c)) as [w|] eqn:E; cbn [is_none negb]; [|exact (IH o)].
  cbn [map filter app]. rewrite E. destruct o as [v|]; cbn [oxval_eqb].
  - specialize (IH (Some v)). cbn [oxval_eqb] in IH. destruct (xval_eqb v w); cbn [length]; now rewrite IH.
  - exact (IH None).
Qed.

Theorem dbc_dup_ids_is_model t i : Dbc.py_check_duplicate_can_ids t i = POk (chk_dbc_ids t i).
Proof.
  unfold Dbc.py_check_duplicate_can_ids. cbv zeta. rewrite if_flow. f_equal. unfold chk_dbc_ids, is_can, matching_impls, py_count.
  rewrite count_ids. destruct (String.eqb (iprotocol i) "can"); cbn [andb negb]; [|reflexivity].
  unfold impl_id. destruct (lookup "id"%string (ifields i)) as [v|]; [|reflexivity].
  unfold once, can_ids.
  match goal with |- negb (1 <? Z.of_nat ?c) = Nat.leb ?d 1 => change d with c; destruct (Z.ltb_spec 1 (Z.of_nat c)); destruct (Nat.leb_spec c 1); try reflexivity; lia end.
Qed.

Lemma lengths_loop : forall fs,
  map_m (fun field_ => pbind (py_length (fty field_)) (fun t2 => POk t2)) fs =
  (fix go (fs : list sfield) : pyres (list Z) :=
     match fs with [] => POk [] | f :: fs' => match Checks.get_length (fty f) with
                                              | Some a => pbind (go fs') (fun ys => POk (a :: ys)) | None => PRaise PyValueError end end) fs.
Proof.
  induction fs as [|f fs IH]; [reflexivity|]. cbn [map_m]. unfold py_length at 1. destruct (Checks.get_length (fty f)); cbn [pbind]; [|reflexivity].
  now rewrite IH.
Qed.

Lemma fold_add_shift l : forall a, fold_left Z.add l a = a + fold_left Z.add l 0.
Proof. induction l as [|x l IH]; intros a; cbn [fold_left]; [lia|]. rewrite (IH (a + x)), (IH (0 + x)). lia. Qed.

Lemma sum_lengths_loop : forall fs,
  match map_m (fun field_ => pbind (py_length (fty field_)) (fun t2 => POk t2)) fs, sum_lengths fs with
  | POk l, Some z => fold_left Z.add l 0 = z
  | PRaise e, None => e = PyValueError
  | _, _ => False
  end.
Proof.
  induction fs as [|f fs IH]; [reflexivity|]. cbn [map_m sum_lengths]. unfold py_length at 1.
  destruct (Checks.get_length (fty f)) as [a|]; cbn [pbind]; [|reflexivity].
  destruct (map_m _ fs) as [l|e]; destruct (sum_lengths fs) as [z|]; cbn [pbind]; try contradiction; [|exact IH].
  cbn [fold_left]. rewrite fold_add_shift. lia.
Qed.

(* the C size rule: Ok / "way too big" / an exception, as the model says *)
Theorem c_size_is_model t i :
  match chk_c_size t i with
  | Some b => CanC.py_check_impl_size t i = POk b
  | None => exists e, CanC.py_check_impl_size t i = PRaise e
  end.
Proof.
  unfold CanC.py_check_impl_size, chk_c_size. cbv zeta. destruct (first_struct t (itype i)) as [s|]; cbn [py_unwrap pbind option_map].
  - pose proof (sum_lengths_loop (sfields s)) as H.
    destruct (map_m _ (sfields s)) as [l|e]; destruct (sum_lengths (sfields s)) as [z|]; try contradiction; cbn [pbind option_map].
    + subst z. rewrite if_flow. f_equal. lia.
    + eexists. reflexivity.
  - eexists. reflexivity.
Qed.

(* ---------- the model's driver over the TRANSLATED checks is the model ---------- *)
Definition src_pass {A : Type} (chk : A -> pyres bool) (n : A) : option bool :=
  match chk n with POk b => Some b | PRaise _ => None end.

Definition verify_src (pl : plugin) (t : ftree) : verdict :=
  first_fail3 EmptyStruct (src_pass (General.py_check_struct_contains_struct_fields t)) (t_structs t) (
  first_fail3 DupField (src_pass (General.py_check_duplicate_struct_fields t)) (fields_nodes t) (
  first_fail3 DupEnumName (src_pass (General.py_check_enum_duplicate_enumerations_names t)) (t_enums t) (
  first_fail3 DupEnumValue (src_pass (General.py_check_enum_duplicate_enumerations_values t)) (t_enums t) (
  first_fail3 DupImpl (src_pass (General.py_check_duplicate_impl t)) (t_impls t) (
  (fun k => match pl with
            | NoPlugin => k
            | Dbc => first_fail3 DbcValidType (src_pass (Dbc.py_check_impl_valid_type t)) (t_impls t)
                       (first_fail3 DbcDupIds (src_pass (Dbc.py_check_duplicate_can_ids t)) (t_impls t) k)
            | CanC => first_fail3 CValidType (src_pass (CanC.py_check_impl_valid_type t)) (t_impls t)
                       (first_fail3 CSize (src_pass (CanC.py_check_impl_size t)) (t_impls t) k)
            end) (
  first_fail3 DupTypes (src_pass (General.py_check_duplicate_typenames t)) (get_types t) (
  first_fail3 DeviceService (src_pass (General.py_check_device_contains_services t)) (t_devices t) VOk))))))).

Lemma first_fail3_total {A : Type} c (p : A -> bool) (q : A -> option bool) nodes k :
  (forall n, q n = Some (p n)) -> first_fail3 c q nodes k = first_fail c p nodes k.
Proof.
  intros H. unfold first_fail. induction nodes as [|n ns IH]; [reflexivity|]. cbn [first_fail3 forallb]. rewrite H.
  destruct (p n); cbn [andb]; [exact IH|reflexivity].
Qed.

Lemma first_fail3_ext {A : Type} c (q q' : A -> option bool) nodes k :
  (forall n, q n = q' n) -> first_fail3 c q nodes k = first_fail3 c q' nodes k.
Proof. intros H. induction nodes as [|n ns IH]; [reflexivity|]. cbn [first_fail3]. rewrite H. destruct (q' n) as [[|]|]; auto. Qed.

Lemma first_fail_map {A B : Type} c (f : A -> B) (p : B -> bool) nodes k :
  first_fail c (fun a => p (f a)) nodes k = first_fail c p (map f nodes) k.
Proof.
  unfold first_fail. assert (H : forallb (fun a => p (f a)) nodes = forallb p (map f nodes)) by (induction nodes as [|n ns IH]; cbn [map forallb]; [reflexivity|now rewrite IH]).
  now rewrite H.
Qed.

Theorem verify_src_is_verify pl t : verify_src pl t = verify pl t.
Proof.
  unfold verify_src, verify.
  rewrite (first_fail3_total EmptyStruct chk_struct_nonempty) by (intros n; unfold src_pass; now rewrite struct_nonempty_is_model).
  rewrite (first_fail3_total DupField (fun sf => chk_dup_field (fst sf) (snd sf))) by (intros [s f]; unfold src_pass; now rewrite dup_field_is_model).
  rewrite (first_fail3_total DupEnumName chk_enum_names) by (intros n; unfold src_pass; now rewrite enum_names_is_model).
  rewrite (first_fail3_total DupEnumValue chk_enum_values) by (intros n; unfold src_pass; now rewrite enum_values_is_model).
  rewrite (first_fail3_total DupImpl (chk_dup_impl t)) by (intros n; unfold src_pass; now rewrite dup_impl_is_model).
  rewrite (first_fail3_total DupTypes (fun n => chk_dup_types t (tn_name n))) by (intros n; unfold src_pass; now rewrite dup_typenames_is_model).
  rewrite (first_fail3_total DeviceService (fun _ => chk_devices t)) by (intros n; unfold src_pass; now rewrite devices_is_model).
  rewrite (first_fail_map DupTypes tn_name (chk_dup_types t)).
  assert (Hn : map tn_name (get_types t) = type_names t) by (unfold get_types, type_names; now rewrite map_app, !map_map).
  rewrite Hn. do 5 f_equal. destruct pl; [reflexivity| |].
  - rewrite (first_fail3_total DbcValidType (chk_valid_type t)) by (intros n; unfold src_pass; now rewrite dbc_valid_type_is_model).
    now rewrite (first_fail3_total DbcDupIds (chk_dbc_ids t)) by (intros n; unfold src_pass; now rewrite dbc_dup_ids_is_model).
  - rewrite (first_fail3_total CValidType (chk_valid_type t)) by (intros n; unfold src_pass; now rewrite c_valid_type_is_model).
    f_equal. apply first_fail3_ext. intros n. unfold src_pass. pose proof (c_size_is_model t n) as H.
    destruct (chk_c_size t n) as [b|]; [now rewrite H|]. destruct H as [e ->]. reflexivity.
Qed.
