(* The translated verifier driver (gen/PyVerifier.v: Verifier.register, run_checks, verify, FcpV2.get, the order of the @register
   decorations) run on the translated checks (gen/PyChecks.v) is the model: for the check table that registering the general checks
   and then a plug-in's checks builds, py_verify returns what Verifier.Checks.verify says, for every tree. *)
From Coq Require Import String ZArith List Bool.
From FcpV Require Import Schema.Types Layout.Packed Verifier.Checks Py.BufferLib Verifier.ChecksLib Verifier.DriverLib Verifier.ChecksProofs.
From FcpV Require Import gen.PyChecks gen.PyVerifier.
Import ListNotations.
Local Open Scope string_scope.

(* ---------- the translated checks as checks on nodes of any category ---------- *)
(* (a node of another kind than the check's parameter type is a beartype TypeError; it never happens for the shipped registrations,
   where every check is registered under the category whose nodes it takes) *)
Definition on_struct (f : ftree -> sstruct -> pyres bool) : ftree -> vnode -> pyres bool :=
  fun t n => match n with NStruct s => f t s | _ => PRaise PyTypeError end.
Definition on_field (f : ftree -> sstruct * sfield -> pyres bool) : ftree -> vnode -> pyres bool :=
  fun t n => match n with NField sf => f t sf | _ => PRaise PyTypeError end.
Definition on_enum (f : ftree -> senum -> pyres bool) : ftree -> vnode -> pyres bool :=
  fun t n => match n with NEnum e => f t e | _ => PRaise PyTypeError end.
Definition on_impl (f : ftree -> simpl -> pyres bool) : ftree -> vnode -> pyres bool :=
  fun t n => match n with NImpl i => f t i | _ => PRaise PyTypeError end.
Definition on_type (f : ftree -> tnode -> pyres bool) : ftree -> vnode -> pyres bool :=
  fun t n => match n with NType x => f t x | _ => PRaise PyTypeError end.
Definition on_device (f : ftree -> sdevice -> pyres bool) : ftree -> vnode -> pyres bool :=
  fun t n => match n with NDevice d => f t d | _ => PRaise PyTypeError end.

Definition mk (c : check_id) (g : ftree -> vnode -> pyres bool) : vcheck := {| vc_id := c; vc_fun := g |}.

(* the check objects by the name of the decorated function *)
Definition general_check (name : string) : option vcheck :=
  if String.eqb name "check_duplicate_typenames" then Some (mk DupTypes (on_type General.py_check_duplicate_typenames))
  else if String.eqb name "check_duplicate_impl" then Some (mk DupImpl (on_impl General.py_check_duplicate_impl))
  else if String.eqb name "check_duplicate_struct_fields" then Some (mk DupField (on_field General.py_check_duplicate_struct_fields))
  else if String.eqb name "check_struct_contains_struct_fields" then Some (mk EmptyStruct (on_struct General.py_check_struct_contains_struct_fields))
  else if String.eqb name "check_enum_duplicate_enumerations_names" then Some (mk DupEnumName (on_enum General.py_check_enum_duplicate_enumerations_names))
  else if String.eqb name "check_enum_duplicate_enumerations_values" then Some (mk DupEnumValue (on_enum General.py_check_enum_duplicate_enumerations_values))
  else if String.eqb name "check_device_contains_services" then Some (mk DeviceService (on_device General.py_check_device_contains_services))
  else None.
Definition dbc_check (name : string) : option vcheck :=
  if String.eqb name "check_impl_valid_type" then Some (mk DbcValidType (on_impl Dbc.py_check_impl_valid_type))
  else if String.eqb name "check_duplicate_can_ids" then Some (mk DbcDupIds (on_impl Dbc.py_check_duplicate_can_ids))
  else None.
Definition canc_check (name : string) : option vcheck :=
  if String.eqb name "check_impl_valid_type" then Some (mk CValidType (on_impl CanC.py_check_impl_valid_type))
  else if String.eqb name "check_impl_size" then Some (mk CSize (on_impl CanC.py_check_impl_size))
  else None.

(* @register(verifier, category) on each decorated function, in the order of the source *)
Fixpoint register_all (by_name : string -> option vcheck) (regs : list (string * string)) (checks : vchecks) : pyres vchecks :=
  match regs with
  | [] => POk checks
  | (name, category) :: regs' =>
      match by_name name with
      | None => PRaise PyKeyError
      | Some c => pbind (py_register checks c (Some category)) (register_all by_name regs')
      end
  end.

(* make_general_verifier() and then the plug-in's register_checks(verifier) *)
Definition registered (pl : plugin) : pyres vchecks :=
  pbind (register_all general_check registrations_General py_init) (fun g =>
    match pl with
    | NoPlugin => POk g
    | Dbc => register_all dbc_check registrations_Dbc g
    | CanC => register_all canc_check registrations_CanC g
    end).

(* the table this builds *)
Definition table (pl : plugin) : vchecks :=
  [("struct", [mk EmptyStruct (on_struct General.py_check_struct_contains_struct_fields)]);
   ("field", [mk DupField (on_field General.py_check_duplicate_struct_fields)]);
   ("enum", [mk DupEnumName (on_enum General.py_check_enum_duplicate_enumerations_names);
             mk DupEnumValue (on_enum General.py_check_enum_duplicate_enumerations_values)]);
   ("impl", mk DupImpl (on_impl General.py_check_duplicate_impl) ::
            match pl with
            | NoPlugin => []
            | Dbc => [mk DbcValidType (on_impl Dbc.py_check_impl_valid_type); mk DbcDupIds (on_impl Dbc.py_check_duplicate_can_ids)]
            | CanC => [mk CValidType (on_impl CanC.py_check_impl_valid_type); mk CSize (on_impl CanC.py_check_impl_size)]
            end);
   ("signal_block", []);
   ("type", [mk DupTypes (on_type General.py_check_duplicate_typenames)]);
   ("device", [mk DeviceService (on_device General.py_check_device_contains_services)]);
   ("uncategorized", [])].

Lemma registered_is_table pl : registered pl = POk (table pl).
Proof. destruct pl; reflexivity. Qed.

(* ---------- running it ---------- *)
Definition vres_of (v : verdict) : vres := match v with VOk => ROk | VErr c => RErr c | VRaise => RRaise end.

Lemma rseq_ok_r a : rseq a ROk = a.
Proof. destruct a; reflexivity. Qed.

Lemma rseq_assoc a b c : rseq (rseq a b) c = rseq a (rseq b c).
Proof. destruct a; reflexivity. Qed.

Lemma rfor_nodes {A : Type} (inj : A -> vnode) (c : check_id) (f : A -> pyres bool) (g : ftree -> vnode -> pyres bool) t l k :
  (forall a, g t (inj a) = f a) ->
  rseq (rfor (map inj l) (fun node => rseq (attempt_check (mk c g) t node) ROk)) (vres_of k)
  = vres_of (first_fail3 c (src_pass f) l k).
Proof.
  intros H. induction l as [|a l IH]; [reflexivity|].
  cbn [map rfor first_fail3]. rewrite rseq_assoc, IH. unfold attempt_check, src_pass, mk. cbn [vc_fun vc_id]. rewrite H.
  destruct (f a) as [[|]|e]; reflexivity.
Qed.

Lemma py_flatten_map {A B : Type} (g : A -> list B) l : py_flatten (map g l) = flat_map g l.
Proof. unfold py_flatten. induction l as [|a l IH]; [reflexivity|]. cbn [map flat_map]. now rewrite map_id, IH. Qed.

(* one category, one check *)
Lemma run1 {A : Type} (inj : A -> vnode) c (f : A -> pyres bool) g t l k :
  (forall a, g t (inj a) = f a) ->
  rseq (rfor_maybe (Some (map inj l)) (fun node => rseq (attempt_check (mk c g) t node) ROk)) (vres_of k)
  = vres_of (first_fail3 c (src_pass f) l k).
Proof. intros H. cbn [rfor_maybe]. now apply rfor_nodes. Qed.

Lemma run_last {A : Type} (inj : A -> vnode) c (f : A -> pyres bool) g t l :
  (forall a, g t (inj a) = f a) ->
  rfor_maybe (Some (map inj l)) (fun node => rseq (attempt_check (mk c g) t node) ROk) = vres_of (first_fail3 c (src_pass f) l VOk).
Proof. intros H. rewrite <- (run1 inj c f g t l VOk H). cbn [vres_of]. now rewrite rseq_ok_r. Qed.

Theorem driver_on_table pl t : py_verify (table pl) t = vres_of (verify_src pl t).
Proof.
  unfold py_verify, py_categories. cbn [rfor]. rewrite !rseq_ok_r. unfold py_run_checks.
  assert (Hs : py_get t "struct" = Some (map NStruct (t_structs t))) by reflexivity.
  assert (Hf : py_get t "field" = Some (map NField (fields_nodes t))).
  { unfold py_get. cbn [String.eqb Ascii.eqb Bool.eqb]. unfold fields_nodes. now rewrite py_flatten_map. }
  assert (He : py_get t "enum" = Some (map NEnum (t_enums t))) by reflexivity.
  assert (Hi : py_get t "impl" = Some (map NImpl (t_impls t))) by reflexivity.
  assert (Ht : py_get t "type" = Some (map NType (get_types t))) by reflexivity.
  assert (Hd : py_get t "device" = Some (map NDevice (t_devices t))) by reflexivity.
  change (dict_get_list (table pl) "struct") with [mk EmptyStruct (on_struct General.py_check_struct_contains_struct_fields)].
  change (dict_get_list (table pl) "field") with [mk DupField (on_field General.py_check_duplicate_struct_fields)].
  change (dict_get_list (table pl) "enum") with [mk DupEnumName (on_enum General.py_check_enum_duplicate_enumerations_names);
                                                   mk DupEnumValue (on_enum General.py_check_enum_duplicate_enumerations_values)].
  change (dict_get_list (table pl) "signal_block") with (@nil vcheck).
  change (dict_get_list (table pl) "type") with [mk DupTypes (on_type General.py_check_duplicate_typenames)].
  change (dict_get_list (table pl) "device") with [mk DeviceService (on_device General.py_check_device_contains_services)].
  change (dict_get_list (table pl) "uncategorized") with (@nil vcheck).
  change (dict_get_list (table pl) "impl") with
    (mk DupImpl (on_impl General.py_check_duplicate_impl) ::
     match pl with
     | NoPlugin => []
     | Dbc => [mk DbcValidType (on_impl Dbc.py_check_impl_valid_type); mk DbcDupIds (on_impl Dbc.py_check_duplicate_can_ids)]
     | CanC => [mk CValidType (on_impl CanC.py_check_impl_valid_type); mk CSize (on_impl CanC.py_check_impl_size)]
     end).
  rewrite Hs, Hf, He, Hi, Ht, Hd. unfold verify_src.
  destruct pl; cbn [rfor]; rewrite ?rseq_ok_r; cbn [rseq]; rewrite ?rseq_assoc.
  all: erewrite (run_last NDevice) by (intros a; reflexivity).
  all: repeat (erewrite run1 by (intros a; reflexivity)).
  all: reflexivity.
Qed.

(* registering the shipped checks and verifying is the model's verdict *)
Theorem driver_is_model pl t :
  exists checks, registered pl = POk checks /\ py_verify checks t = vres_of (verify pl t).
Proof. exists (table pl). split; [apply registered_is_table|]. rewrite driver_on_table. now rewrite verify_src_is_verify. Qed.

(* register: a category outside the list is a ValueError and the table is not touched; a known one appends at the end of its list *)
Lemma register_unknown checks c cat : existsb (String.eqb cat) py_categories = false -> py_register checks c (Some cat) = PRaise PyValueError.
Proof. intros H. unfold py_register. now rewrite H. Qed.

Lemma register_uncategorized c : exists checks, py_register py_init c None = POk checks /\ dict_get_list checks "uncategorized" = [c] /\
  forall k, k <> "uncategorized" -> dict_get_list checks k = dict_get_list py_init k.
Proof.
  eexists. split; [reflexivity|]. split; [reflexivity|]. intros k Hk. unfold dict_get_list, py_init, py_categories. cbn [map lookup].
  repeat (destruct (String.eqb k _) eqn:?; [reflexivity|]).
  destruct (String.eqb_spec k "uncategorized"); [contradiction|reflexivity].
Qed.
