(* The Python run-time the translated verifier checks (gen/PyChecks.v) run on: the views of the FcpV2 tree the checks take,
   list.count, early return / continue inside loops.  Hand-written (trusted; DESIGN).  No proofs here. *)
From Coq Require Import String ZArith List Bool.
From FcpV Require Import Schema.Types Layout.Packed Verifier.Checks Py.BufferLib.
Import ListNotations.
Open Scope Z_scope.

(* a node of category "type": a struct or an enum (fcp.get_types() = structs + enums) *)
Inductive tnode := TNStruct (s : sstruct) | TNEnum (e : senum).
Definition tn_name (n : tnode) : string := match n with TNStruct s => sname s | TNEnum e => ename e end.
Definition get_types (t : ftree) : list tnode := (map TNStruct (t_structs t) ++ map TNEnum (t_enums t))%list.

(* the tree keeps the services by name *)
Definition svc_name (s : string) : string := s.

(* fcp.get_matching_impls(protocol) *)
Definition matching_impls (t : ftree) (protocol : string) : list simpl := filter (fun i => String.eqb (iprotocol i) protocol) (t_impls t).

(* list.count(x) *)
Definition py_count {A : Type} (eqb : A -> A -> bool) (x : A) (l : list A) : Z := Z.of_nat (count eqb x l).

Definition is_none {A : Type} (o : option A) : bool := match o with None => true | Some _ => false end.
(* == on what dict.get returns (values abstracted to XOther never compare equal; DESIGN, C09 assumptions) *)
Definition oxval_eqb (a b : option xval) : bool :=
  match a, b with
  | None, None => true
  | Some x, Some y => xval_eqb x y
  | _, _ => false
  end.

(* Maybe.unwrap(), iterating a possibly-None value, Type.get_length() *)
Definition py_unwrap {A : Type} (o : option A) : pyres A := match o with Some a => POk a | None => PRaise PyUnwrapError end.
Definition py_iter_opt {A : Type} (o : option (list A)) : pyres (list A) := match o with Some l => POk l | None => PRaise PyTypeError end.
Definition py_length (t : sty) : pyres Z := match Checks.get_length t with Some l => POk l | None => PRaise PyValueError end.

(* [e(x) for x in l] when e can raise *)
Fixpoint map_m {A B : Type} (f : A -> pyres B) (l : list A) : pyres (list B) :=
  match l with
  | [] => POk []
  | x :: l' => pbind (f x) (fun y => pbind (map_m f l') (fun ys => POk (y :: ys)))
  end.

(* control flow of a statement block: the function returned v / `continue` / fell through to the next statement *)
Inductive flow := FRet (v : bool) | FCont | FNext.

(* for x in l: body   where body may return (stops the loop and the function) *)
Fixpoint for_first {A : Type} (l : list A) (body : A -> pyres flow) : pyres (option bool) :=
  match l with
  | [] => POk None
  | x :: l' => pbind (body x) (fun r => match r with FRet v => POk (Some v) | _ => for_first l' body end)
  end.
