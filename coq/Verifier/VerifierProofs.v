From Coq Require Import String ZArith List Bool Lia Permutation.
From FcpV Require Import Schema.Types Layout.Packed Verifier.Checks.
Import ListNotations.
Open Scope Z_scope.

(* ---------- count(x) <= 1 for every element  <->  NoDup ---------- *)
Section Count.
  Context {A : Type} (eqb : A -> A -> bool).
  Context (eqb_spec : forall a b, eqb a b = true <-> a = b).

  Lemma eqb_refl' a : eqb a a = true. Proof. now apply eqb_spec. Qed.

  Lemma count_zero_notin x l : count eqb x l = 0%nat <-> ~ In x l.
  Proof.
    unfold count. induction l as [|y l IH]; cbn; [tauto|].
    destruct (eqb x y) eqn:E.
    - apply eqb_spec in E. subst. cbn. split; [lia|]. intros H. exfalso. apply H. now left.
    - rewrite IH. split.
      + intros H [->|Hin]; [rewrite eqb_refl' in E; discriminate|tauto].
      + tauto.
  Qed.

  Lemma count_cons_ge x y l : (count eqb x l <= count eqb x (y :: l))%nat.
  Proof. unfold count. cbn. destruct (eqb x y); cbn; lia. Qed.

  Lemma once_all_NoDup l : forallb (once eqb l) l = true <-> NoDup l.
  Proof.
    rewrite forallb_forall. unfold once. split.
    - induction l as [|a l IH]; intros H; [constructor|].
      constructor.
      + assert (Ha := H a (or_introl eq_refl)). apply Nat.leb_le in Ha.
        unfold count in Ha. cbn in Ha. rewrite eqb_refl' in Ha. cbn in Ha.
        apply count_zero_notin. unfold count. lia.
      + apply IH. intros x Hx. specialize (H x (or_intror Hx)). apply Nat.leb_le in H. apply Nat.leb_le.
        pose proof (count_cons_ge x a l). lia.
    - induction 1 as [|a l Hnin Hnd IH]; intros x Hx; [contradiction|].
      apply Nat.leb_le. unfold count. cbn. destruct (eqb x a) eqn:E.
      + apply eqb_spec in E. subst. cbn. apply count_zero_notin in Hnin. unfold count in Hnin. lia.
      + destruct Hx as [->|Hx]; [rewrite eqb_refl' in E; discriminate|].
        specialize (IH x Hx). apply Nat.leb_le in IH. exact IH.
  Qed.

  (* the per-node form used when the node list is the counted list itself *)
  Lemma once_nodes_NoDup {B} (key : B -> A) (nodes : list B) :
    forallb (fun n => once eqb (map key nodes) (key n)) nodes = true <-> NoDup (map key nodes).
  Proof.
    rewrite <- once_all_NoDup, !forallb_forall. split.
    - intros H x Hx. apply in_map_iff in Hx. destruct Hx as (n & <- & Hn). now apply H.
    - intros H n Hn. apply H. now apply in_map.
  Qed.
End Count.

Lemma pair_string_eqb_spec a b : pair_string_eqb a b = true <-> a = b.
Proof.
  unfold pair_string_eqb. destruct a, b. cbn. rewrite andb_true_iff, !String.eqb_eq.
  split; [intros [-> ->]; reflexivity|intros H; inversion H; auto].
Qed.

Lemma xint_eqb_spec a b : (exists x, a = XInt x) -> xval_eqb a b = true <-> a = b.
Proof.
  intros [x ->]. destruct b; cbn; try (split; [discriminate|intros H; inversion H]).
  rewrite Z.eqb_eq. split; [now intros ->|intros H; now inversion H].
Qed.

(* ---------- the specification ---------- *)
Definition wf_struct (s : sstruct) : Prop := sfields s <> [] /\ NoDup (map fname (sfields s)).
Definition wf_enum (e : senum) : Prop := NoDup (map fst (evals e)) /\ NoDup (map snd (evals e)).
Definition wf_device (t : ftree) (d : sdevice) : Prop :=
  match dservices d with None => True | Some ss => Forall (fun s => In s (t_services t)) ss end.

(* type names unique across structs and enums; (binding name, protocol) pairs
   unique; field names unique within each struct; every struct has a field;
   enumerator names and values unique within each enum; every service listed
   by a device exists *)
Definition wf_general (t : ftree) : Prop :=
  NoDup (type_names t) /\ NoDup (impl_keys t) /\
  Forall wf_struct (t_structs t) /\ Forall wf_enum (t_enums t) /\
  Forall (wf_device t) (t_devices t).

Definition impls_bound (t : ftree) : Prop :=
  Forall (fun i => exists s, In s (t_structs t) /\ sname s = itype i) (t_impls t).

(* ---------- first_fail algebra ---------- *)
Lemma first_fail_ok {A} c (p : A -> bool) nodes k :
  first_fail c p nodes k = VOk <-> forallb p nodes = true /\ k = VOk.
Proof. unfold first_fail. destruct (forallb p nodes); split; try tauto; try discriminate; intros [H _]; discriminate. Qed.

Lemma first_fail3_ok {A} c (p : A -> option bool) nodes k :
  first_fail3 c p nodes k = VOk <-> Forall (fun n => p n = Some true) nodes /\ k = VOk.
Proof.
  induction nodes as [|n ns IH]; cbn.
  - split; [intros ->; split; [constructor|reflexivity]|tauto].
  - destruct (p n) as [[|]|] eqn:E.
    + rewrite IH. split; intros [H1 H2]; split; auto. inversion H1; auto.
    + split; [discriminate|]. intros [H _]. inversion H; congruence.
    + split; [discriminate|]. intros [H _]. inversion H; congruence.
Qed.

(* ---------- each check against its specification ---------- *)
Lemma fields_check_spec (ss : list sstruct) :
  forallb (fun sf : sstruct * sfield => chk_dup_field (fst sf) (snd sf))
          (flat_map (fun s => map (pair s) (sfields s)) ss) = true <->
  Forall (fun s => NoDup (map fname (sfields s))) ss.
Proof.
  induction ss as [|s ss IH]; cbn [flat_map].
  - split; [constructor|reflexivity].
  - rewrite forallb_app, andb_true_iff, IH. split.
    + intros [H1 H2]. constructor; [|exact H2].
      apply (once_nodes_NoDup String.eqb String.eqb_eq fname).
      rewrite forallb_forall in *. intros f Hf. apply (H1 (s, f)). now apply in_map.
    + intros H. inversion H as [|? ? Hs Hss]; subst. split; [|exact Hss].
      apply (once_nodes_NoDup String.eqb String.eqb_eq fname) in Hs.
      rewrite forallb_forall in *. intros [s' f] Hin. apply in_map_iff in Hin.
      destruct Hin as (f' & Heq & Hf'). inversion Heq; subst. now apply Hs.
Qed.

Lemma struct_nonempty_spec (ss : list sstruct) :
  forallb chk_struct_nonempty ss = true <-> Forall (fun s => sfields s <> []) ss.
Proof.
  rewrite forallb_forall, Forall_forall. unfold chk_struct_nonempty.
  split; intros H s Hs; specialize (H s Hs).
  - destruct (sfields s); [discriminate|discriminate].
  - destruct (sfields s); [contradiction|reflexivity].
Qed.

Lemma enum_checks_spec (es : list senum) :
  forallb chk_enum_names es = true /\ forallb chk_enum_values es = true <-> Forall wf_enum es.
Proof.
  rewrite !forallb_forall, Forall_forall. unfold chk_enum_names, chk_enum_values, wf_enum.
  split.
  - intros [H1 H2] e He. split.
    + apply (once_all_NoDup String.eqb String.eqb_eq). now apply H1.
    + apply (once_all_NoDup Z.eqb Z.eqb_eq). now apply H2.
  - intros H. split; intros e He; destruct (H e He) as [A B].
    + now apply (once_all_NoDup String.eqb String.eqb_eq).
    + now apply (once_all_NoDup Z.eqb Z.eqb_eq).
Qed.

Lemma devices_spec t : chk_devices t = true <-> Forall (wf_device t) (t_devices t).
Proof.
  unfold chk_devices. rewrite forallb_forall, Forall_forall. unfold wf_device.
  split; intros H d Hd; specialize (H d Hd); destruct (dservices d) as [ss|]; auto.
  - rewrite forallb_forall in H. apply Forall_forall. intros s Hs. specialize (H s Hs).
    unfold mem_string in H. apply existsb_exists in H. destruct H as (x & Hx & E). apply String.eqb_eq in E. now subst.
  - rewrite Forall_forall in H. apply forallb_forall. intros s Hs. unfold mem_string.
    apply existsb_exists. exists s. split; [now apply H|apply String.eqb_refl].
Qed.

Lemma devices_nodes_spec t :
  forallb (fun _ : sdevice => chk_devices t) (t_devices t) = true <-> Forall (wf_device t) (t_devices t).
Proof.
  destruct (t_devices t) as [|d ds] eqn:E.
  - cbn. split; [constructor|reflexivity].
  - rewrite <- E, <- devices_spec. rewrite E. cbn. split.
    + intros H. apply andb_true_iff in H. tauto.
    + intros H. rewrite H. cbn. apply forallb_forall. intros _ _. reflexivity.
Qed.

(* ---------- the general verdict ---------- *)
Theorem general_verdict_iff_lemma t : verify NoPlugin t = VOk <-> wf_general t.
Proof.
  unfold verify, wf_general.
  rewrite !first_fail_ok.
  rewrite struct_nonempty_spec.
  unfold fields_nodes. rewrite fields_check_spec.
  rewrite devices_nodes_spec.
  rewrite (once_all_NoDup String.eqb String.eqb_eq (type_names t)).
  unfold chk_dup_impl.
  pose proof (once_nodes_NoDup pair_string_eqb pair_string_eqb_spec (fun i => (iname i, iprotocol i)) (t_impls t)) as Himpl.
  fold (impl_keys t) in Himpl. cbv beta in Himpl. rewrite Himpl.
  pose proof (enum_checks_spec (t_enums t)) as He.
  unfold wf_struct. rewrite !Forall_forall in *.
  split.
  - intros (H1 & H2 & H3 & H4 & H5 & H6 & H7 & _).
    split; [exact H6|]. split; [exact H5|]. split; [|split].
    + intros s Hs. split; [now apply H1|now apply H2].
    + apply He. split; assumption.
    + exact H7.
  - intros (H1 & H2 & H3 & H4 & H5).
    apply He in H4. destruct H4 as [H4a H4b].
    split; [intros s Hs; now apply H3|]. split; [intros s Hs; now apply H3|].
    split; [exact H4a|]. split; [exact H4b|]. split; [exact H2|]. split; [exact H1|]. split; [exact H5|reflexivity].
Qed.

(* ---------- plug-ins ---------- *)
Definition plugin_ok (pl : plugin) (t : ftree) : Prop :=
  match pl with
  | NoPlugin => True
  | Dbc => forallb (chk_valid_type t) (t_impls t) = true /\ forallb (chk_dbc_ids t) (t_impls t) = true
  | CanC => forallb (chk_valid_type t) (t_impls t) = true /\
            Forall (fun i => chk_c_size t i = Some true) (t_impls t)
  end.

Lemma verify_decompose pl t : verify pl t = VOk <-> verify NoPlugin t = VOk /\ plugin_ok pl t.
Proof.
  unfold verify. rewrite !first_fail_ok. destruct pl; cbn [plugin_ok].
  - rewrite !first_fail_ok. tauto.
  - rewrite !first_fail_ok. tauto.
  - rewrite !first_fail_ok, first_fail3_ok, !first_fail_ok. tauto.
Qed.

Lemma valid_type_spec t :
  forallb (chk_valid_type t) (t_impls t) = true <-> impls_bound t.
Proof.
  unfold impls_bound, chk_valid_type, has_struct. rewrite forallb_forall, Forall_forall.
  split; intros H i Hi; specialize (H i Hi).
  - apply existsb_exists in H. destruct H as (s & Hs & E). apply String.eqb_eq in E. eauto.
  - destruct H as (s & Hs & E). apply existsb_exists. exists s. split; [exact Hs|]. rewrite E. apply String.eqb_refl.
Qed.

Definition ids_are_ints (t : ftree) : Prop := Forall (fun v => exists x, v = XInt x) (can_ids t).

Lemma filter_notin_len0 {A} (eqb : A -> A -> bool) x l :
  (forall y, In y l -> eqb x y = true -> x = y) -> ~ In x l -> length (filter (eqb x) l) = 0%nat.
Proof.
  induction l as [|y l IH]; intros Hs Hn; [reflexivity|]. cbn.
  destruct (eqb x y) eqn:E.
  - exfalso. apply Hn. left. symmetry. apply Hs; [now left|exact E].
  - apply IH; [intros z Hz; apply Hs; now right|intros Hc; apply Hn; now right].
Qed.

Lemma once_all_NoDup_on {A} (eqb : A -> A -> bool) (l : list A) :
  (forall a b, In a l -> (eqb a b = true <-> a = b)) ->
  (forallb (once eqb l) l = true <-> NoDup l).
Proof.
  intros Hspec. rewrite forallb_forall. unfold once, count.
  induction l as [|a l IH].
  - split; [constructor|intros _ x []].
  - assert (Hspec' : forall a0 b, In a0 l -> eqb a0 b = true <-> a0 = b) by (intros; apply Hspec; now right).
    specialize (IH Hspec').
    assert (Haa : eqb a a = true) by (apply Hspec; [now left|reflexivity]).
    split.
    + intros H. constructor.
      * intros Hin. specialize (H a (or_introl eq_refl)). apply Nat.leb_le in H. cbn in H. rewrite Haa in H. cbn in H.
        assert (E : exists n, length (filter (eqb a) l) = S n).
        { clear -Hin Haa. induction l as [|y l IHl]; [contradiction|]. cbn. destruct Hin as [->|Hin].
          - rewrite Haa. cbn. eauto. - destruct (eqb a y); cbn; eauto. }
        destruct E as [n E]. lia.
      * apply IH. intros x Hx. specialize (H x (or_intror Hx)). apply Nat.leb_le in H. apply Nat.leb_le.
        cbn in H. destruct (eqb x a); cbn in H; lia.
    + intros Hnd. inversion Hnd as [|? ? Hnin Hnd']; subst. intros x [->|Hx].
      * apply Nat.leb_le. cbn. rewrite Haa. cbn.
        assert (E : length (filter (eqb x) l) = 0%nat).
        { apply filter_notin_len0; [|exact Hnin]. intros y Hy Ey. apply Hspec in Ey; [exact Ey|now left]. }
        lia.
      * apply Nat.leb_le. cbn. destruct (eqb x a) eqn:E.
        -- apply Hspec in E; [|now right]. subst. contradiction.
        -- apply (proj2 IH Hnd') in Hx. apply Nat.leb_le in Hx. exact Hx.
Qed.

Lemma dbc_ids_spec t : ids_are_ints t ->
  forallb (chk_dbc_ids t) (t_impls t) = true <-> NoDup (can_ids t).
Proof.
  intros Hints. rewrite <- (once_all_NoDup_on xval_eqb (can_ids t)).
  2:{ intros a b Ha. apply xint_eqb_spec. unfold ids_are_ints in Hints. rewrite Forall_forall in Hints. auto. }
  rewrite !forallb_forall. unfold chk_dbc_ids, can_ids. split.
  - intros H v Hv. apply in_flat_map in Hv. destruct Hv as (i & Hi & Hv).
    specialize (H i Hi). destruct (is_can i); [|contradiction].
    destruct (impl_id i) as [w|]; [|contradiction]. destruct Hv as [->|[]]. exact H.
  - intros H i Hi. destruct (is_can i) eqn:Ec; [|reflexivity].
    destruct (impl_id i) as [w|] eqn:Ew; [|reflexivity]. apply H.
    apply in_flat_map. exists i. split; [exact Hi|]. rewrite Ec, Ew. now left.
Qed.

(* DBC: additionally, every binding's struct exists and CAN frame ids are pairwise distinct *)
Theorem dbc_verdict_iff_lemma t : ids_are_ints t ->
  verify Dbc t = VOk <-> wf_general t /\ impls_bound t /\ NoDup (can_ids t).
Proof.
  intros Hi. rewrite verify_decompose, general_verdict_iff_lemma. cbn [plugin_ok].
  rewrite valid_type_spec, (dbc_ids_spec t Hi). tauto.
Qed.

(* C: additionally, every binding's struct exists and the summed get_length()
   of its own fields is computable and at most 64 *)
Theorem c_verdict_iff_lemma t :
  verify CanC t = VOk <->
  wf_general t /\ impls_bound t /\ Forall (fun i => chk_c_size t i = Some true) (t_impls t).
Proof. rewrite verify_decompose, general_verdict_iff_lemma. cbn [plugin_ok]. rewrite valid_type_spec. tauto. Qed.

(* ---------- the verdict does not depend on declaration order ---------- *)
Definition tree_perm (t t' : ftree) : Prop :=
  Permutation (t_structs t) (t_structs t') /\ Permutation (t_enums t) (t_enums t') /\
  Permutation (t_impls t) (t_impls t') /\ Permutation (t_services t) (t_services t') /\
  Permutation (t_devices t) (t_devices t').

Lemma Forall_perm {A} (P : A -> Prop) l l' : Permutation l l' -> Forall P l -> Forall P l'.
Proof. intros Hp H. rewrite Forall_forall in *. intros x Hx. apply H. eapply Permutation_in; [symmetry|]; eauto. Qed.

Lemma wf_general_perm t t' : tree_perm t t' -> wf_general t -> wf_general t'.
Proof.
  intros (Hs & He & Hi & Hsv & Hd) (H1 & H2 & H3 & H4 & H5). unfold wf_general. repeat split.
  - eapply Permutation_NoDup; [|exact H1]. unfold type_names. apply Permutation_app; now apply Permutation_map.
  - eapply Permutation_NoDup; [|exact H2]. unfold impl_keys. now apply Permutation_map.
  - eapply Forall_perm; eauto.
  - eapply Forall_perm; eauto.
  - eapply Forall_perm; [exact Hd|]. eapply Forall_impl; [|exact H5].
    intros d. unfold wf_device. destruct (dservices d); [|auto].
    intros HF. eapply Forall_impl; [|exact HF]. intros s Hin. eapply Permutation_in; eauto.
Qed.

Lemma tree_perm_sym t t' : tree_perm t t' -> tree_perm t' t.
Proof. intros (A & B & C & D & E). repeat split; now symmetry. Qed.

Theorem general_verdict_perm_lemma t t' : tree_perm t t' -> is_ok (verify NoPlugin t) = is_ok (verify NoPlugin t').
Proof.
  intros Hp.
  assert (E : verify NoPlugin t = VOk <-> verify NoPlugin t' = VOk).
  { rewrite !general_verdict_iff_lemma. split; apply wf_general_perm; [exact Hp|now apply tree_perm_sym]. }
  destruct (verify NoPlugin t) eqn:E1; destruct (verify NoPlugin t') eqn:E2; try reflexivity;
    try (destruct E as [E _]; specialize (E eq_refl); discriminate);
    try (destruct E as [_ E]; specialize (E eq_refl); discriminate).
Qed.

Lemma can_ids_perm t t' : Permutation (t_impls t) (t_impls t') -> Permutation (can_ids t) (can_ids t').
Proof.
  unfold can_ids. induction 1 as [|x l l' _ IH|x y l|l l' l'' _ IH1 _ IH2]; cbn [flat_map].
  - reflexivity. - now apply Permutation_app_head.
  - rewrite !app_assoc. apply Permutation_app_tail. apply Permutation_app_comm.
  - etransitivity; eauto.
Qed.

Theorem dbc_verdict_perm_lemma t t' : tree_perm t t' -> ids_are_ints t ->
  is_ok (verify Dbc t) = is_ok (verify Dbc t').
Proof.
  intros Hp Hi.
  assert (Hi' : ids_are_ints t').
  { destruct Hp as (_ & _ & Himp & _). unfold ids_are_ints. eapply Forall_perm; [apply can_ids_perm; exact Himp|exact Hi]. }
  assert (Hb : forall a b, tree_perm a b -> impls_bound a -> impls_bound b).
  { intros a b (Hs & _ & Himp & _) H. unfold impls_bound in *. eapply Forall_perm; [exact Himp|].
    eapply Forall_impl; [|exact H]. cbn. intros i (s & Hs' & E). exists s. split; [|exact E]. eapply Permutation_in; eauto. }
  assert (E : verify Dbc t = VOk <-> verify Dbc t' = VOk).
  { rewrite (dbc_verdict_iff_lemma t Hi), (dbc_verdict_iff_lemma t' Hi'). split; intros (A & B & C); (split; [|split]).
    - eapply wf_general_perm; eauto. - eapply Hb; eauto.
    - eapply Permutation_NoDup; [|exact C]. apply can_ids_perm. now destruct Hp as (_ & _ & ? & _).
    - eapply wf_general_perm; [apply tree_perm_sym|]; eauto. - eapply Hb; [apply tree_perm_sym|]; eauto.
    - eapply Permutation_NoDup; [|exact C]. symmetry. apply can_ids_perm. now destruct Hp as (_ & _ & ? & _). }
  destruct (verify Dbc t) eqn:E1; destruct (verify Dbc t') eqn:E2; try reflexivity;
    try (destruct E as [E _]; specialize (E eq_refl); discriminate);
    try (destruct E as [_ E]; specialize (E eq_refl); discriminate).
Qed.
