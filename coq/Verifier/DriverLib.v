(* The Python run-time the translated verifier DRIVER (gen/PyVerifier.v: Verifier.register / run_checks / verify, FcpV2.get) runs
   on: nodes of any category, the check table (a dict of lists, in insertion order), and the control flow of a @catch function
   whose statements are `.attempt()` calls.  Hand-written (trusted; DESIGN §22).  No proofs here. *)
From Coq Require Import String ZArith List Bool.
From FcpV Require Import Schema.Types Layout.Packed Verifier.Checks Py.BufferLib Verifier.ChecksLib.
Import ListNotations.

(* what FcpV2.get(category) lists: a node of any category *)
Inductive vnode :=
| NStruct (s : sstruct) | NEnum (e : senum) | NImpl (i : simpl) | NField (sf : sstruct * sfield)
| NSigBlock (b : sigblock) | NType (n : tnode) | NService (s : string) | NDevice (d : sdevice).

(* a registered check: which one it is (the error value it returns names it) and the function (fcp, node) -> Ok(()) [true] |
   an error value [false] | an exception *)
Record vcheck := { vc_id : check_id; vc_fun : ftree -> vnode -> pyres bool }.

(* self.checks: category -> list of checks, in insertion order *)
Definition vchecks := list (string * list vcheck).

(* what a @catch function hands back: Ok(()), an error value (Err.attempt() raised ResultAttemptError, @catch returns the error), an
   exception that is none of the two attempt errors and escapes, or Nothing() (Nothing.attempt() raised MaybeAttemptError) *)
Inductive vres := ROk | RErr (c : check_id) | RRaise | RNothing.

(* d.get(k) or [] *)
Definition dict_get_list (d : vchecks) (k : string) : list vcheck :=
  match lookup k d with Some l => l | None => [] end.

(* d[k].append(x): the list under k grows at its end; None = KeyError *)
Fixpoint dict_append (d : vchecks) (k : string) (x : vcheck) : option vchecks :=
  match d with
  | [] => None
  | (k', l) :: d' => if String.eqb k' k then Some ((k', l ++ [x]) :: d') else option_map (cons (k', l)) (dict_append d' k x)
  end.

(* statement sequencing: anything but Ok(()) ends the function with that outcome.  `x.attempt()` as a statement is x itself in this
   reading: Ok -> go on, Err e -> the function returns e, Nothing -> the function returns Nothing(), an exception goes on up *)
Definition rseq (a k : vres) : vres := match a with ROk => k | _ => a end.

(* for x in l: body *)
Fixpoint rfor {A : Type} (l : list A) (body : A -> vres) : vres :=
  match l with
  | [] => ROk
  | x :: l' => rseq (body x) (rfor l' body)
  end.

(* for x in m.attempt(): body     m : Maybe[list] *)
Definition rfor_maybe {A : Type} (m : option (list A)) (body : A -> vres) : vres :=
  match m with None => RNothing | Some l => rfor l body end.

(* check(fcp, fcp, node).attempt() *)
Definition attempt_check (c : vcheck) (t : ftree) (n : vnode) : vres :=
  match vc_fun c t n with POk true => ROk | POk false => RErr (vc_id c) | PRaise _ => RRaise end.
