(* Model of src/fcp/verifier.py (Verifier.verify, make_general_verifier) and of
   the checks the DBC and C plug-ins register.  No proofs here. *)
From Coq Require Import String ZArith List Bool.
From FcpV Require Import Schema.Types Layout.Packed.
Import ListNotations.
Open Scope Z_scope.

Record sdevice := { dname : string; dservices : option (list string) }.

(* the FcpV2 tree as far as the checks look at it *)
Record ftree := {
  t_structs : list sstruct; t_enums : list senum; t_impls : list simpl;
  t_services : list string; t_devices : list sdevice }.

Inductive check_id :=
| EmptyStruct | DupField | DupEnumName | DupEnumValue | DupImpl | DupTypes | DeviceService
| DbcValidType | DbcDupIds | CValidType | CSize.

(* Ok / an error value naming the check / an exception escaped *)
Inductive verdict := VOk | VErr (c : check_id) | VRaise.

(* list.count(x) *)
Definition count {A : Type} (eqb : A -> A -> bool) (x : A) (l : list A) : nat :=
  length (filter (eqb x) l).

Definition once {A : Type} (eqb : A -> A -> bool) (l : list A) (x : A) : bool :=
  Nat.leb (count eqb x l) 1.

Definition pair_string_eqb (a b : string * string) : bool :=
  String.eqb (fst a) (fst b) && String.eqb (snd a) (snd b).

(* ---------- general checks, each as "node passes" ---------- *)
Definition type_names (t : ftree) : list string :=
  map sname (t_structs t) ++ map ename (t_enums t).

Definition chk_dup_types (t : ftree) (name : string) : bool := once String.eqb (type_names t) name.
Definition impl_keys (t : ftree) := map (fun i => (iname i, iprotocol i)) (t_impls t).
Definition chk_dup_impl (t : ftree) (i : simpl) : bool :=
  once pair_string_eqb (impl_keys t) (iname i, iprotocol i).
Definition chk_dup_field (s : sstruct) (f : sfield) : bool :=
  once String.eqb (map fname (sfields s)) (fname f).
Definition chk_struct_nonempty (s : sstruct) : bool := negb (Nat.eqb (length (sfields s)) 0).
Definition chk_enum_names (e : senum) : bool :=
  forallb (once String.eqb (map fst (evals e))) (map fst (evals e)).
Definition chk_enum_values (e : senum) : bool :=
  forallb (once Z.eqb (map snd (evals e))) (map snd (evals e)).
(* the device check ignores its node and loops over all devices *)
Definition mem_string (s : string) (l : list string) : bool := existsb (String.eqb s) l.
Definition chk_devices (t : ftree) : bool :=
  forallb (fun d => match dservices d with
                    | None => true
                    | Some ss => forallb (fun s => mem_string s (t_services t)) ss
                    end) (t_devices t).

(* ---------- plug-in checks ---------- *)
Definition has_struct (t : ftree) (name : string) : bool :=
  existsb (fun s => String.eqb name (sname s)) (t_structs t).
Definition chk_valid_type (t : ftree) (i : simpl) : bool := has_struct t (itype i).

(* DBC: two CAN bindings with the same frame id (as repaired: only CAN
   bindings that declare an id are counted) *)
Definition impl_id (i : simpl) : option xval := lookup "id"%string (ifields i).
Definition is_can (i : simpl) : bool := String.eqb (iprotocol i) "can".
Definition xval_eqb (a b : xval) : bool :=
  match a, b with
  | XInt x, XInt y => Z.eqb x y
  | XStr x, XStr y => String.eqb x y
  | _, _ => false
  end.
Definition can_ids (t : ftree) : list xval :=
  flat_map (fun i => if is_can i then match impl_id i with Some v => [v] | None => [] end else []) (t_impls t).
Definition chk_dbc_ids (t : ftree) (i : simpl) : bool :=
  if is_can i then
    match impl_id i with
    | Some v => once xval_eqb (can_ids t) v
    | None => true
    end
  else true.

(* C: sum of get_length() of the struct's own fields; None = get_length raises *)
Fixpoint get_length (ty : sty) : option Z :=
  match ty with
  | SU n | SI n => Some (Z.of_nat n)
  | SF32 => Some 32
  | SF64 => Some 64
  | SArr t n => option_map (fun l => l * Z.of_nat n) (get_length t)
  | _ => None
  end.
Fixpoint sum_lengths (fs : list sfield) : option Z :=
  match fs with
  | [] => Some 0
  | f :: fs' => match get_length (fty f), sum_lengths fs' with
                | Some a, Some b => Some (a + b) | _, _ => None end
  end.
Definition first_struct (t : ftree) (name : string) : option sstruct :=
  find (fun s => String.eqb name (sname s)) (t_structs t).
(* Some true = passes, Some false = "way too big", None = exception *)
Definition chk_c_size (t : ftree) (i : simpl) : option bool :=
  match first_struct t (itype i) with
  | None => None
  | Some s => option_map (fun sz => sz <=? 64) (sum_lengths (sfields s))
  end.

(* ---------- the driver: categories in order, checks in registration order,
   nodes in tree order; the first failure is the answer ---------- *)
Definition first_fail {A : Type} (c : check_id) (p : A -> bool) (nodes : list A) (k : verdict) : verdict :=
  if forallb p nodes then k else VErr c.

Fixpoint first_fail3 {A : Type} (c : check_id) (p : A -> option bool) (nodes : list A) (k : verdict) : verdict :=
  match nodes with
  | [] => k
  | n :: ns => match p n with
               | None => VRaise
               | Some false => VErr c
               | Some true => first_fail3 c p ns k
               end
  end.

Inductive plugin := NoPlugin | Dbc | CanC.

Definition fields_nodes (t : ftree) : list (sstruct * sfield) :=
  flat_map (fun s => map (pair s) (sfields s)) (t_structs t).

Definition verify (pl : plugin) (t : ftree) : verdict :=
  first_fail EmptyStruct chk_struct_nonempty (t_structs t) (
  first_fail DupField (fun sf => chk_dup_field (fst sf) (snd sf)) (fields_nodes t) (
  first_fail DupEnumName chk_enum_names (t_enums t) (
  first_fail DupEnumValue chk_enum_values (t_enums t) (
  first_fail DupImpl (chk_dup_impl t) (t_impls t) (
  (fun k => match pl with
            | NoPlugin => k
            | Dbc => first_fail DbcValidType (chk_valid_type t) (t_impls t)
                       (first_fail DbcDupIds (chk_dbc_ids t) (t_impls t) k)
            | CanC => first_fail CValidType (chk_valid_type t) (t_impls t)
                       (first_fail3 CSize (chk_c_size t) (t_impls t) k)
            end) (
  first_fail DupTypes (chk_dup_types t) (type_names t) (
  first_fail DeviceService (fun _ => chk_devices t) (t_devices t) VOk))))))).

Definition is_ok (v : verdict) : bool := match v with VOk => true | _ => false end.

(* what the harness regenerates from make_general_verifier().checks and the
   plug-ins' register_checks: (category, function names in registration order) *)
Definition expected_general : list (string * list string) :=
  [("struct", ["check_struct_contains_struct_fields"]);
   ("field", ["check_duplicate_struct_fields"]);
   ("enum", ["check_enum_duplicate_enumerations_names"; "check_enum_duplicate_enumerations_values"]);
   ("impl", ["check_duplicate_impl"]);
   ("signal_block", []);
   ("type", ["check_duplicate_typenames"]);
   ("device", ["check_device_contains_services"]);
   ("uncategorized", [])]%string.
Definition expected_dbc : list (string * list string) :=
  [("impl", ["check_impl_valid_type"; "check_duplicate_can_ids"])]%string.
Definition expected_can_c : list (string * list string) :=
  [("impl", ["check_impl_valid_type"; "check_impl_size"])]%string.
