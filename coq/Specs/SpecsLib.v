(* Run-time library for the translated look-up methods (gen/PySpecs.v).  Hand-written (trusted; DESIGN).  No proofs here. *)
From Coq Require Import String ZArith List Bool.
From FcpV Require Import Schema.Types Layout.Packed Verifier.Checks Py.BufferLib Py.DispatchLib Verifier.ChecksLib.
Import ListNotations.
Open Scope Z_scope.

(* the schema object as a record of its five lists: in-place `+=` on an attribute is a record update *)
Definition set_t_structs (t : ftree) (l : list sstruct) : ftree :=
  {| t_structs := l; t_enums := t_enums t; t_impls := t_impls t; t_services := t_services t; t_devices := t_devices t |}.
Definition set_t_enums (t : ftree) (l : list senum) : ftree :=
  {| t_structs := t_structs t; t_enums := l; t_impls := t_impls t; t_services := t_services t; t_devices := t_devices t |}.
Definition set_t_impls (t : ftree) (l : list simpl) : ftree :=
  {| t_structs := t_structs t; t_enums := t_enums t; t_impls := l; t_services := t_services t; t_devices := t_devices t |}.
Definition set_t_services (t : ftree) (l : list string) : ftree :=
  {| t_structs := t_structs t; t_enums := t_enums t; t_impls := t_impls t; t_services := l; t_devices := t_devices t |}.
Definition set_t_devices (t : ftree) (l : list sdevice) : ftree :=
  {| t_structs := t_structs t; t_enums := t_enums t; t_impls := t_impls t; t_services := t_services t; t_devices := l |}.

(* PackedEncoderContext: its one option *)
Record pctx := { unroll_arrays : bool }.
Definition set_unroll (c : pctx) (b : bool) : pctx := {| unroll_arrays := b |}.

(* max(iterable, default=d) *)
Definition py_max_default (l : list Z) (d : Z) : Z :=
  match l with [] => d | x :: l' => fold_left Z.max l' x end.

(* math.floor(math.log2(m) + 1) for an int m: log2 of a non-positive number raises ValueError; the float evaluation is exact for
   m < 2^48 and for the powers of two (and one above them) beyond (the generated range; DESIGN "seen but not claimed") *)
Definition py_floor_log2_plus1 (m : Z) : pyres Z := if 0 <? m then POk (Z.log2 m + 1) else PRaise PyValueError.

(* control flow with a returned value / an accumulating generator *)
Inductive flowv (A : Type) := FRetV (a : A) | FNextV | FAccV (acc : A).
Arguments FRetV {A} a.
Arguments FNextV {A}.
Arguments FAccV {A} acc.

Fixpoint for_first_v {A B : Type} (l : list A) (body : A -> pyres (flowv B)) : pyres (option B) :=
  match l with
  | [] => POk None
  | x :: l' => pbind (body x) (fun r => match r with FRetV v => POk (Some v) | _ => for_first_v l' body end)
  end.

(* a generator's loop: every iteration may `yield` onto the accumulated list *)
Fixpoint for_acc {A B : Type} (l : list A) (body : A -> B -> pyres (flowv B)) (acc : B) : pyres B :=
  match l with
  | [] => POk acc
  | x :: l' => pbind (body x acc) (fun r => match r with FAccV acc' => for_acc l' body acc' | _ => PRaise PyTypeError end)
  end.
