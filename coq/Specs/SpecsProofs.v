(* The look-up methods of the schema classes (gen/PySpecs.v, translated from src/fcp/specs/enum.py, v2.py, impl.py and
   PackedEncoderContext on every run) ARE the functions that the run-time libraries of the other translations assume
   (Py/DispatchLib.v: py_get_struct, py_get_enum, enum_packed_size; Layout/EncoderLib.v: py_get_type; Layout/Packed.v: sig_fields;
   Verifier/ChecksLib.v: get_types, matching_impls).  What remains assumed is the float arithmetic of get_packed_size. *)
From Coq Require Import String ZArith List Bool Lia.
From FcpV Require Import Schema.Types Layout.Packed Verifier.Checks Py.BufferLib Py.DispatchLib Verifier.ChecksLib Layout.EncoderLib
  Specs.SpecsLib gen.PySpecs.
Import ListNotations.
Open Scope Z_scope.

(* the view the serde / encoder translations take of a schema *)
Definition schema_of (t : ftree) : schema := {| structs := t_structs t; enums := t_enums t |}.

(* ---------- enum.py ---------- *)
Lemma fold_max_ge : forall l a, a <= fold_left Z.max l a.
Proof. induction l as [|x l IH]; intros a; cbn [fold_left]; [lia|]. specialize (IH (Z.max a x)). lia. Qed.

Lemma fold_max_is : forall l a, 0 <= a -> Forall (fun v => 0 <= v) l -> fold_left Z.max l a = fold_right Z.max 0 (a :: l).
Proof.
  induction l as [|x l IH]; intros a Ha Hl; cbn [fold_left fold_right]; [lia|].
  inversion Hl as [|? ? Hx Hl']; subst. rewrite IH by (try lia; assumption). cbn [fold_right]. lia.
Qed.

Theorem enum_max_is_model e : Forall (fun v => 0 <= v) (map snd (evals e)) -> py_Enum_max e = POk (enum_max e).
Proof.
  intros H. unfold py_Enum_max, enum_max, py_max_default. cbn [pbind].
  change (map (fun e_ : string * Z => snd e_) (evals e)) with (map snd (evals e)).
  destruct (map snd (evals e)) as [|x l]; [reflexivity|]. inversion H as [|? ? Hx Hl]; subst. now rewrite fold_max_is.
Qed.

Lemma fold_right_max_nonneg : forall l, 0 <= fold_right Z.max 0 l.
Proof. induction l as [|x l IH]; cbn [fold_right]; [lia|]. apply Z.le_trans with (fold_right Z.max 0 l); [exact IH|apply Z.le_max_r]. Qed.

Lemma enum_max_nonneg e : 0 <= enum_max e.
Proof. apply fold_right_max_nonneg. Qed.

Theorem get_packed_size_is_model e : Forall (fun v => 0 <= v) (map snd (evals e)) -> py_Enum_get_packed_size e = POk (enum_packed_size e).
Proof.
  intros H. unfold py_Enum_get_packed_size. rewrite (enum_max_is_model e H). cbn [pbind]. cbv zeta.
  unfold enum_packed_size, packed_size.
  assert (Hm : 0 <= enum_max e) by apply enum_max_nonneg.
  destruct (Z.eqb_spec (enum_max e) 1) as [E1|E1]; [rewrite E1; reflexivity|].
  destruct (Z.eqb_spec (enum_max e) 0) as [E0|E0]; [rewrite E0; reflexivity|].
  cbn [orb pbind]. unfold py_floor_log2_plus1. replace (0 <? enum_max e) with true by lia. cbn [pbind].
  replace (enum_max e <=? 1) with false by lia. f_equal. pose proof (Z.log2_nonneg (enum_max e)). lia.
Qed.

(* ---------- v2.py ---------- *)
Lemma first_named {A : Type} (key : A -> string) name : forall l,
  for_first_v l (fun x => pbind (if String.eqb (key x) name then POk (FRetV (Some x)) else POk FNextV)
                                (fun r => match r with FNextV => POk FNextV | other => POk other end))
  = POk (match find (fun x => String.eqb (key x) name) l with Some x => Some (Some x) | None => None end).
Proof.
  induction l as [|x l IH]; [reflexivity|]. cbn [for_first_v find]. destruct (String.eqb (key x) name); cbn [pbind]; [reflexivity|exact IH].
Qed.

Theorem get_struct_is_library t name :
  py_FcpV2_get_struct t name = POk (find (fun s => String.eqb (sname s) name) (t_structs t)) /\
  py_get_struct (schema_of t) name = match find (fun s => String.eqb (sname s) name) (t_structs t) with Some s => POk s | None => PRaise PyUnwrapError end.
Proof.
  split; [|reflexivity]. unfold py_FcpV2_get_struct. rewrite (first_named sname). cbn [pbind].
  destruct (find _ (t_structs t)); reflexivity.
Qed.

Theorem get_enum_is_library t name :
  py_FcpV2_get_enum t name = POk (find (fun e => String.eqb (ename e) name) (t_enums t)) /\
  py_get_enum (schema_of t) name = match find (fun e => String.eqb (ename e) name) (t_enums t) with Some e => POk e | None => PRaise PyUnwrapError end.
Proof.
  split; [|reflexivity]. unfold py_FcpV2_get_enum. rewrite (first_named ename). cbn [pbind].
  destruct (find _ (t_enums t)); reflexivity.
Qed.

Theorem get_types_is_library t : py_FcpV2_get_types t = POk (get_types t).
Proof. reflexivity. Qed.

Lemma acc_filter protocol : forall (l : list simpl) acc,
  for_acc l (fun impl_ acc_ => pbind (if String.eqb (iprotocol impl_) protocol then let acc_0 := (acc_ ++ [impl_])%list in POk (FAccV acc_0) else POk (FAccV acc_))
                                     (fun r => match r with FAccV acc_0 => POk (FAccV acc_0) | other => POk other end)) acc
  = POk (acc ++ filter (fun i => String.eqb (iprotocol i) protocol) l)%list.
Proof.
  induction l as [|x l IH]; intros acc; cbn [for_acc filter]; [now rewrite app_nil_r|].
  destruct (String.eqb (iprotocol x) protocol); cbn [pbind]; rewrite IH; [now rewrite <- app_assoc|reflexivity].
Qed.

Theorem get_matching_impls_is_library t protocol : py_FcpV2_get_matching_impls t protocol = POk (matching_impls t protocol).
Proof. unfold py_FcpV2_get_matching_impls, matching_impls. cbv zeta. rewrite acc_filter. reflexivity. Qed.

(* get_type: the first struct of that name, else the first enum - for struct and enum references only *)
Lemma get_type_loop name : forall (l : list tnode),
  for_first_v l (fun n => pbind (if String.eqb name (tn_name n) then POk (FRetV (Some n)) else POk FNextV)
                                (fun r => match r with FNextV => POk FNextV | other => POk other end))
  = POk (match find (fun n => String.eqb name (tn_name n)) l with Some n => Some (Some n) | None => None end).
Proof.
  induction l as [|x l IH]; [reflexivity|]. cbn [for_first_v find]. destruct (String.eqb name (tn_name x)); cbn [pbind]; [reflexivity|exact IH].
Qed.

Lemma find_app {A : Type} (p : A -> bool) : forall l1 l2, find p (l1 ++ l2) = match find p l1 with Some x => Some x | None => find p l2 end.
Proof. induction l1 as [|x l1 IH]; intros l2; cbn [app find]; [reflexivity|]. destruct (p x); auto. Qed.

Lemma find_map {A B : Type} (f : A -> B) (p : B -> bool) : forall l, find p (map f l) = option_map f (find (fun x => p (f x)) l).
Proof. induction l as [|x l IH]; cbn [map find option_map]; [reflexivity|]. destruct (p (f x)); auto. Qed.

Lemma find_ext {A : Type} (p q : A -> bool) : (forall x, p x = q x) -> forall l, find p l = find q l.
Proof. intros H. induction l as [|x l IH]; cbn [find]; [reflexivity|]. rewrite H. destruct (q x); auto. Qed.

Theorem get_type_is_library t ty :
  is_StructType ty || is_EnumType ty = true ->
  match py_get_type (schema_of t) ty, py_FcpV2_get_type t ty with
  | POk (PTStruct s), POk (Some (TNStruct s')) => s = s'
  | POk (PTEnum e), POk (Some (TNEnum e')) => e = e'
  | PRaise _, POk None => True
  | _, _ => False
  end.
Proof.
  intros Hk. unfold py_FcpV2_get_type, py_get_type.
  destruct ty as [| | | | |nm|nm| | |]; cbn [is_StructType is_EnumType orb] in Hk; try discriminate;
    cbn [is_StructType is_EnumType orb py_type_name pbind schema_of structs enums];
    rewrite get_type_loop; cbn [pbind]; rewrite find_app, !find_map; cbn [tn_name];
    rewrite (find_ext (fun s => String.eqb nm (sname s)) (fun s => String.eqb (sname s) nm)) by (intros; apply String.eqb_sym);
    rewrite (find_ext (fun e => String.eqb nm (ename e)) (fun e => String.eqb (ename e) nm)) by (intros; apply String.eqb_sym);
    (destruct (find (fun s => String.eqb (sname s) nm) (t_structs t)) as [s|]; cbn [option_map]; [reflexivity|]);
    (destruct (find (fun e => String.eqb (ename e) nm) (t_enums t)) as [e|]; cbn [option_map]; [reflexivity|exact I]).
Qed.

(* merge: every list of the importer is extended by the module's, in this order, nothing else changes *)
Theorem merge_is_append t m :
  py_FcpV2_merge t m = POk {| t_structs := t_structs t ++ t_structs m; t_enums := t_enums t ++ t_enums m; t_impls := t_impls t ++ t_impls m;
                              t_services := t_services t ++ t_services m; t_devices := t_devices t ++ t_devices m |}.
Proof. reflexivity. Qed.

(* ---------- impl.py ---------- *)
Theorem get_signal_is_library im name :
  py_Impl_get_signal im name = POk (find (fun sb => String.eqb (sbname sb) name) (isignals im)) /\
  sig_fields im name = match find (fun sb => String.eqb (sbname sb) name) (isignals im) with Some sb => sbfields sb | None => [] end.
Proof.
  split; [|reflexivity]. unfold py_Impl_get_signal. rewrite (first_named sbname). cbn [pbind]. destruct (find _ (isignals im)); reflexivity.
Qed.

(* ---------- PackedEncoderContext.with_unroll_arrays: a new object; the receiver keeps its setting ---------- *)
Theorem with_unroll_arrays_copies c b : py_PackedEncoderContext_with_unroll_arrays c b = POk (c, {| unroll_arrays := b |}).
Proof. reflexivity. Qed.
