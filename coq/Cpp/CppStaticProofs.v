From Coq Require Import String ZArith List Bool Lia.
From FcpV Require Import Base.Bits Base.BitsProofs Schema.Types Wire.Wire Wire.WireProofs Cpp.CppStatic Py.PySerde.
Import ListNotations.
Open Scope Z_scope.

(* ---------- carrier selection (finite domain, by evaluation) ---------- *)
Lemma carrier_table :
  forallb (fun n => let c := carrier n in
                    (Z.of_nat n <=? c) && ((c =? 8) || (c =? 16) || (c =? 32) || (c =? 64))) (seq 1 64) = true.
Proof. vm_compute. reflexivity. Qed.

Lemma carrier_wide_enough n : (1 <= n <= 64)%nat ->
  Z.of_nat n <= carrier n /\ (carrier n = 8 \/ carrier n = 16 \/ carrier n = 32 \/ carrier n = 64).
Proof.
  intros Hn. pose proof carrier_table as H. rewrite forallb_forall in H.
  specialize (H n ltac:(apply in_seq; lia)). cbv zeta in H.
  apply andb_true_iff in H. destruct H as [H1 H2]. apply Z.leb_le in H1. split; [exact H1|].
  repeat (apply orb_true_iff in H2; destruct H2 as [H2|H2]); apply Z.eqb_eq in H2; auto.
Qed.

(* ---------- the (r ^ m) - m sign extension ---------- *)
Lemma lxor_pow2_sub k w : 0 <= k -> 2 ^ k <= w < 2 ^ (k + 1) -> Z.lxor w (2 ^ k) = w - 2 ^ k.
Proof.
  intros Hk Hw. replace (k + 1) with (Z.succ k) in Hw by lia. rewrite Z.pow_succ_r in Hw by lia.
  set (a := w - 2 ^ k). assert (Ha : 0 <= a < 2 ^ k) by (unfold a; lia).
  assert (Hbit : Z.testbit a k = false).
  { destruct (Z.eq_dec a 0) as [->|Hne]; [apply Z.bits_0|].
    apply Z.bits_above_log2; [lia|]. apply Z.log2_lt_pow2; lia. }
  assert (Hland : Z.land a (2 ^ k) = 0).
  { apply Z.bits_inj'. intros i Hi. rewrite Z.land_spec, Z.bits_0, Z.pow2_bits_eqb by lia.
    destruct (Z.eqb_spec k i) as [<-|Hne]; [now rewrite Hbit|now rewrite andb_false_r]. }
  replace w with (a + 2 ^ k) at 1 by (unfold a; lia).
  rewrite (Z.add_nocarry_lxor _ _ Hland), Z.lxor_assoc, Z.lxor_nilpotent, Z.lxor_0_r. reflexivity.
Qed.

Lemma pow2_split n : (1 <= n)%nat -> 2 ^ Z.of_nat n = 2 * 2 ^ (Z.of_nat n - 1).
Proof. intros H. replace (Z.of_nat n) with (Z.succ (Z.of_nat n - 1)) at 1 by lia. now rewrite Z.pow_succ_r by lia. Qed.

(* GetWord's sign extension followed by the cast to the carrier is the
   canonical two's complement reading, for every width 1..64 and every word *)
Theorem cpp_sdec_is_spec n w : (1 <= n <= 64)%nat -> 0 <= w < 2 ^ Z.of_nat n -> cpp_sdec n w = sdec_spec n w.
Proof.
  intros Hn Hw. destruct (carrier_wide_enough n Hn) as [Hc Hcs].
  unfold cpp_sdec, sdec_spec, cast_signed. cbv zeta.
  pose proof (pow2_split n ltac:(lia)) as Hsp.
  set (k := Z.of_nat n - 1) in *. assert (Hk : 0 <= k) by (unfold k; lia).
  assert (Hm : 0 < 2 ^ k) by (apply Z.pow_pos_nonneg; lia).
  set (m := 2 ^ k) in *.
  (* the powers of the carrier, related to m *)
  assert (Hcm : exists q, 2 ^ carrier n = q * (2 * m) /\ 1 <= q /\ 2 ^ (carrier n - 1) = q * m /\ 2 ^ 64 = (2 ^ (64 - carrier n)) * 2 ^ carrier n
                        /\ 0 < 2 ^ (64 - carrier n)).
  { exists (2 ^ (carrier n - Z.of_nat n)).
    assert (0 < 2 ^ (carrier n - Z.of_nat n)) by (apply Z.pow_pos_nonneg; lia).
    repeat split.
    - rewrite <- Hsp, <- Z.pow_add_r by lia. f_equal. lia.
    - lia.
    - unfold m. rewrite <- Z.pow_add_r by lia. f_equal. unfold k. lia.
    - rewrite <- Z.pow_add_r by lia. f_equal. lia.
    - apply Z.pow_pos_nonneg; lia. }
  destruct Hcm as (q & Hq1 & Hq2 & Hq3 & Hq4 & Hq5).
  set (C := 2 ^ carrier n) in *. set (Ch := 2 ^ (carrier n - 1)) in *. set (B := 2 ^ (64 - carrier n)) in *.
  rewrite Hsp in *.
  destruct (Z.lt_ge_cases w m) as [Hlo|Hhi].
  - (* msb clear *)
    assert (E : w / m = 0) by (apply Z.div_small; lia). rewrite E. change (0 =? 1) with false. cbn [andb].
    rewrite (Z.mod_small w C) by nia.
    destruct (Z.leb_spec Ch w); [nia|]. destruct (Z.leb_spec m w); [lia|reflexivity].
  - (* msb set *)
    assert (E : w / m = 1) by (symmetry; apply Z.div_unique with (r := w - m); lia). rewrite E, Z.eqb_refl.
    destruct (Z.leb_spec m w) as [_|]; [|lia].
    destruct (Z.eqb_spec (Z.of_nat n) 64) as [E64|N64]; cbn [negb andb].
    + (* 64 bits: the word is kept, the cast does it *)
      assert (Hc64 : carrier n = 64) by lia.
      assert (HC : C = 2 * m) by (unfold C; rewrite Hc64, <- E64; exact Hsp).
      assert (q = 1) by nia. subst q.
      rewrite (Z.mod_small w C) by lia. destruct (Z.leb_spec Ch w); lia.
    + assert (Hx : Z.lxor w m = w - m).
      { unfold m. apply lxor_pow2_sub; [exact Hk|]. replace (k + 1) with (Z.succ k) by lia. rewrite Z.pow_succ_r by lia. fold m. lia. }
      rewrite Hx.
      assert (Hr : (w - m - m) mod 2 ^ 64 = w - 2 * m + 2 ^ 64).
      { symmetry. apply Z.mod_unique_pos with (q := -1); nia. }
      rewrite Hr, Hq4.
      assert (Hr2 : (w - 2 * m + B * C) mod C = w - 2 * m + C).
      { symmetry. apply Z.mod_unique_pos with (q := B - 1); nia. }
      rewrite Hr2. destruct (Z.leb_spec Ch (w - 2 * m + C)); nia.
Qed.

(* ---------- the generated codec speaks the canonical format ---------- *)
Definition cpp_okS (n : nat) (z : Z) : bool := in_signed n z && (Nat.leb n 64).

Lemma cpp_sdec_ok n z : cpp_okS n z = true -> cpp_sdec n (z mod 2 ^ Z.of_nat n) = z.
Proof.
  unfold cpp_okS. intros H. apply andb_true_iff in H. destruct H as [Hs Hn]. apply Nat.leb_le in Hn.
  assert (H1 : (1 <= n)%nat).
  { unfold in_signed in Hs. apply andb_true_iff in Hs. destruct Hs as [Hs _]. apply andb_true_iff in Hs. destruct Hs as [Hs _]. apply Z.leb_le in Hs. lia. }
  rewrite cpp_sdec_is_spec; [now apply sdec_spec_ok|lia|]. apply Z.mod_pos_bound. apply Z.pow_pos_nonneg; lia.
Qed.

Theorem cpp_encode_is_wire_lemma sc name t v bytes :
  resolve sc name = Some t -> cpp_encode sc name v = Some bytes -> wire_bytes t v = Some bytes.
Proof.
  intros Hr H. unfold cpp_encode in H. rewrite Hr in H. destruct (cpp_ok t v); [|discriminate]. exact H.
Qed.

Theorem cpp_decode_of_wire_lemma sc name t v bytes :
  resolve sc name = Some t -> has_type_gen cpp_okS t v = true ->
  wire_bytes t v = Some bytes -> cpp_decode sc name bytes = Some (Ok v).
Proof.
  intros Hr Hty Hw. unfold cpp_decode. rewrite Hr. unfold wire_bytes in Hw.
  destruct (wire t v) as [bs|] eqn:Ew; cbn [option_map] in Hw; [|discriminate]. some_inv Hw.
  unfold gdecode_bytes. rewrite bits_of_bytes_of_bits.
  destruct (gdec_wire cpp_sdec t v bs (has_type_weaken cpp_okS t v Hty) Ew) as [Hrt _].
  rewrite Hrt. cbn [bind]. now rewrite (norm_id cpp_okS cpp_sdec cpp_sdec_ok t v Hty).
Qed.

(* hence the same bytes as the Python codec *)
Theorem cpp_equals_python_lemma sc name v bytes :
  cpp_encode sc name v = Some bytes -> py_encode sc name v = Some bytes.
Proof.
  unfold cpp_encode, py_encode. destruct (resolve sc name) as [t|]; [|discriminate].
  destruct (cpp_ok t v); [|discriminate]. auto.
Qed.
