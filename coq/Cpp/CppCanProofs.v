From Coq Require Import String Ascii ZArith List Bool Lia.
From FcpV Require Import Base.Cases Schema.Types Reflect.Reflection Cpp.CppCan.
Import ListNotations.
Open Scope Z_scope.

Lemma list_eqb_Z_spec a : forall b, list_eqb Z.eqb a b = true <-> a = b.
Proof.
  induction a as [|x a IH]; intros [|y b]; cbn; try (split; [discriminate|discriminate]); [tauto|].
  rewrite andb_true_iff, Z.eqb_eq, IH. split; [intros [-> ->]; reflexivity|intros H; inversion H; auto].
Qed.

Lemma bus4_exact s : length (codes s) = 4%nat -> bus4 s = codes s.
Proof.
  intros H. unfold bus4. rewrite <- H at 1. rewrite firstn_app, Nat.sub_diag, firstn_all. cbn [firstn]. apply app_nil_r.
Qed.

Lemma find_first {A} (p : A -> bool) l x :
  In x l -> p x = true -> (forall y, In y l -> p y = true -> y = x) -> find p l = Some x.
Proof.
  induction l as [|a l IH]; intros Hin Hp Hu; [contradiction|]. cbn.
  destruct (p a) eqn:Ea.
  - f_equal. apply Hu; [now left|exact Ea].
  - destruct Hin as [->|Hin]; [congruence|]. apply IH; auto. intros y Hy. apply Hu. now right.
Qed.

Section Codec.
  Context {V : Type}.
  Context (enc : string -> V -> option (list Z)) (dec : string -> list Z -> option V).

  Definition bus_of (b : cbinding) : string := match cb_bus b with Some s => s | None => "unkn"%string end.

  (* Round trip through the static schema: a binding named after its struct,
     with a 4-character bus, whose (id, bus) pair and name are unique among the
     bindings, a payload of at most 8 bytes that the codec decodes from its
     zero-padded form *)
  Theorem can_roundtrip_lemma bs b s v payload :
    In b bs -> cb_bus b = Some s -> length (codes s) = 4%nat ->
    (forall b', In b' bs -> cb_name b' = cb_name b -> b' = b) ->
    (forall b', In b' bs -> cb_id b' = cb_id b -> bus_of b' = bus_of b -> b' = b) ->
    (forall x y, codes x = codes y -> x = y) ->
    enc (cb_name b) v = Some payload -> dec (cb_name b) (pad_data payload) = Some v ->
    exists f, static_encode enc bs (cb_name b) v = Some f /\
              fr_sid f = cb_id b /\ fr_bus f = codes s /\ fr_dlc f = Z.of_nat (length payload) /\ fr_data f = pad_data payload /\
              static_decode dec bs f = Some (cb_name b, v).
  Proof.
    intros Hin Hbus Hlen Hname Hidbus Hcodes Henc Hdec.
    assert (Hfb : find_binding bs (cb_name b) = Some b).
    { unfold find_binding. apply find_first; [exact Hin|apply String.eqb_refl|].
      intros y Hy E. apply String.eqb_eq in E. apply Hname; auto. }
    unfold static_encode, static_bus. rewrite Henc, Hfb, Hbus.
    eexists. split; [reflexivity|]. cbn [fr_sid fr_bus fr_dlc fr_data].
    rewrite (bus4_exact s Hlen). repeat split; try reflexivity.
    unfold static_decode. cbn [fr_sid fr_bus fr_data].
    assert (Hmn : static_msg_name bs (cb_id b) (codes s) = Some (cb_name b)).
    { unfold static_msg_name. erewrite find_first; [reflexivity|exact Hin| |].
      - rewrite Z.eqb_refl, Hbus. cbn. apply list_eqb_Z_spec. reflexivity.
      - intros y Hy E. apply andb_true_iff in E. destruct E as [E1 E2]. apply Z.eqb_eq in E1.
        apply list_eqb_Z_spec in E2. apply Hidbus; [exact Hy|now symmetry|].
        unfold bus_of. rewrite Hbus. apply Hcodes. now symmetry. }
    rewrite Hmn, Hdec. reflexivity.
  Qed.

  (* a frame whose (id, bus) matches no binding is reported as unknown *)
  Theorem can_unknown_frame_lemma bs f :
    (forall b, In b bs -> fr_sid f <> cb_id b \/ fr_bus f <> codes (bus_of b)) ->
    static_decode dec bs f = None.
  Proof.
    intros H. unfold static_decode, static_msg_name.
    destruct (find _ bs) as [b|] eqn:E; [|reflexivity]. exfalso.
    apply find_some in E. destruct E as [Hin E]. apply andb_true_iff in E. destruct E as [E1 E2].
    apply Z.eqb_eq in E1. apply list_eqb_Z_spec in E2. destruct (H b Hin) as [N|N]; [congruence|].
    apply N. exact E2.
  Qed.

  (* the reflection-loaded CAN schema gives the same answers when every
     binding declares a bus *)
  Theorem can_static_equals_dynamic_lemma bs :
    Forall (fun b => cb_bus b <> None) bs ->
    (forall name v, dynamic_encode enc bs name v = Some (static_encode enc bs name v)) /\
    (forall f, dynamic_decode dec bs f = static_decode dec bs f).
  Proof.
    intros Hall. split.
    - intros name v. unfold dynamic_encode, static_encode, static_bus.
      destruct (enc name v) as [p|]; [|reflexivity].
      destruct (find_binding bs name) as [b|] eqn:E; [|reflexivity].
      unfold find_binding in E. apply find_some in E. destruct E as [Hin _].
      rewrite Forall_forall in Hall. specialize (Hall b Hin). destruct (cb_bus b); [reflexivity|contradiction].
    - intros f. unfold dynamic_decode, static_decode, dynamic_msg_name, static_msg_name.
      assert (E : forall l, Forall (fun b => cb_bus b <> None) l ->
                find (fun b => Z.eqb (fr_sid f) (cb_id b) && match cb_bus b with Some s => list_eqb Z.eqb (fr_bus f) (codes s) | None => false end) l =
                find (fun b => Z.eqb (fr_sid f) (cb_id b) && list_eqb Z.eqb (fr_bus f) (codes (match cb_bus b with Some s => s | None => "unkn"%string end))) l).
      { induction 1 as [|b l Hb _ IH]; [reflexivity|]. cbn. destruct (cb_bus b) as [s|]; [|contradiction]. now rewrite IH. }
      now rewrite (E bs Hall).
  Qed.
End Codec.

(* strings are determined by their character codes *)
Lemma codes_inj x : forall y, codes x = codes y -> x = y.
Proof.
  induction x as [|a x IH]; intros [|b y] H; cbn in H; try discriminate; [reflexivity|].
  inversion H as [[Ha Hx]]. apply Nat2Z.inj in Ha.
  f_equal; [|now apply IH]. rewrite <- (ascii_nat_embedding a), <- (ascii_nat_embedding b). now rewrite Ha.
Qed.
