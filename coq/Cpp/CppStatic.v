(* Model of the generated C++ static codec: plugins/fcp_cpp (generator.py type
   mapping, buffer.h PushWord/GetWord, decoders.h wrappers, fcp.h.j2 per-struct
   Encode/Decode in ascending field id as repaired).  No proofs here.

   Arithmetic is on Z with the C++ conversions written out: uint64 arithmetic
   is mod 2^64, static_cast<intN> is "mod 2^N, then two's complement". *)
From Coq Require Import String ZArith List Bool.
From FcpV Require Import Base.Bits Schema.Types Wire.Wire.
Import ListNotations.
Open Scope Z_scope.

(* generator.py: _to_highest_power_of_two(n) = max(2 ** ceil(log2(n)), 8) *)
Definition carrier (n : nat) : Z := Z.max (2 ^ Z.log2_up (Z.of_nat n)) 8.

(* static_cast<intC_t>(x) for a uint64 value x *)
Definition cast_signed (c : Z) (x : Z) : Z :=
  let y := x mod 2 ^ c in if 2 ^ (c - 1) <=? y then y - 2 ^ c else y.

(* Buffer::GetWord(bitlength, sign = true) followed by the cast to the carrier:
     mask = 1ULL << (bitlength-1); msb_set = (result >> (bitlength-1)) == 1;
     if (sign && msb_set && !(msb_set && bitlength == 64)) result = (result ^ mask) - mask;   // uint64 *)
Definition cpp_sdec (n : nat) (w : Z) : Z :=
  let k := Z.of_nat n - 1 in
  let mask := 2 ^ k in
  let msb_set := (w / 2 ^ k) =? 1 in
  let r := if msb_set && negb (Z.of_nat n =? 64) then (Z.lxor w mask - mask) mod 2 ^ 64 else w in
  cast_signed (carrier n) r.

(* the enum wrapper stores the value in a std::uint8_t *)
Definition enum_carrier_ok (z : Z) : bool := (0 <=? z) && (z <? 256).

(* values the C++ codec and its JSON embedding represent faithfully: widths
   1..64, enumerators below 256 *)
Fixpoint cpp_ok (t : rty) (v : value) {struct t} : bool :=
  match t, v with
  | RU n, VInt _ | RI n, VInt _ => (1 <=? Z.of_nat n) && (Z.of_nat n <=? 64)
  | REnum _, VInt z => enum_carrier_ok z
  | RArr t' _, VList vs | RDyn t', VList vs => forallb (cpp_ok t') vs
  | ROpt t', VSome v' => cpp_ok t' v'
  | RStruct fs, VStruct kvs =>
      forallb2 (fun (f : string * rty) (kv : string * value) => cpp_ok (snd f) (snd kv)) fs kvs
  | _, _ => true
  end.

Definition cpp_enc : rty -> value -> option bits := wire.
Definition cpp_dec : rty -> bits -> outcome (value * bits) := gdec cpp_sdec.

Definition cpp_encode (sc : schema) (name : string) (v : value) : option (list Z) :=
  match resolve sc name with
  | Some t => if cpp_ok t v then option_map bytes_of_bits (cpp_enc t v) else None
  | None => None
  end.

Definition cpp_decode (sc : schema) (name : string) (bytes : list Z) : option (outcome value) :=
  match resolve sc name with
  | Some t => Some (gdecode_bytes cpp_sdec t bytes)
  | None => None
  end.
