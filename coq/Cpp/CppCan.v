(* Model of the generated C++ CAN frame wrapper: can_static_schema.h (three
   rendered lookup tables over the CAN bindings) and can_dynamic_schema.h (the
   same lookups over the reflected impl fields).  The payload codec is a
   parameter (C03/C13 are about it).  No proofs here. *)
From Coq Require Import String Ascii ZArith List Bool.
From FcpV Require Import Base.Cases Schema.Types Reflect.Reflection.
Import ListNotations.
Open Scope Z_scope.

Record cbinding := { cb_name : string; cb_id : Z; cb_bus : option string }.

(* frame_t: std::array<char,4> bus; uint16 sid; uint8 dlc; std::array<uint8,8> data *)
Record frame := { fr_bus : list Z; fr_sid : Z; fr_dlc : Z; fr_data : list Z }.

(* the first four characters, NUL padded (std::copy_n of 4 chars out of a
   shorter std::string reads its terminating NULs) *)
Definition bus4 (s : string) : list Z :=
  let cs := codes s in firstn 4 (cs ++ repeat 0 4).

Definition pad_data (bs : list Z) : list Z := firstn 8 (bs ++ repeat 0 8).

Definition find_binding (bs : list cbinding) (name : string) : option cbinding :=
  find (fun b => String.eqb name (cb_name b)) bs.

Section Codec.
  Context {V : Type}.
  Context (enc : string -> V -> option (list Z)) (dec : string -> list Z -> option V).

  (* ---------- CanStaticSchema ---------- *)
  (* GetBus renders a missing bus as the text "None"; an unknown message has bus "unkn" *)
  Definition static_bus (bs : list cbinding) (name : string) : string :=
    match find_binding bs name with
    | Some b => match cb_bus b with Some s => s | None => "None"%string end
    | None => "unkn"%string
    end.

  Definition static_encode (bs : list cbinding) (name : string) (v : V) : option frame :=
    match enc name v with
    | None => None
    | Some payload =>
        match find_binding bs name with
        | None => None                                        (* GetSid: nullopt *)
        | Some b =>
            Some {| fr_bus := bus4 (static_bus bs name); fr_sid := cb_id b;
                    fr_dlc := Z.of_nat (length payload); fr_data := pad_data payload |}
        end
    end.

  (* GetMsgName: sid == id && std::string(bus, bus+4) == "<bus or unkn>" *)
  Definition static_msg_name (bs : list cbinding) (sid : Z) (bus : list Z) : option string :=
    option_map cb_name
      (find (fun b => Z.eqb sid (cb_id b) &&
                      Cases.list_eqb Z.eqb bus (codes (match cb_bus b with Some s => s | None => "unkn"%string end))) bs).

  Definition static_decode (bs : list cbinding) (f : frame) : option (string * V) :=
    match static_msg_name bs (fr_sid f) (fr_bus f) with
    | None => None
    | Some name => option_map (pair name) (dec name (fr_data f))
    end.

  (* ---------- CanDynamicSchema ---------- *)
  (* fields.at("bus") throws for a binding without bus: None = exception *)
  Definition dynamic_encode (bs : list cbinding) (name : string) (v : V) : option (option frame) :=
    match enc name v with
    | None => Some None
    | Some payload =>
        match find_binding bs name with
        | None => Some None
        | Some b =>
            match cb_bus b with
            | None => None
            | Some s => Some (Some {| fr_bus := bus4 s; fr_sid := cb_id b;
                                      fr_dlc := Z.of_nat (length payload); fr_data := pad_data payload |})
            end
        end
    end.

  Definition dynamic_msg_name (bs : list cbinding) (sid : Z) (bus : list Z) : option string :=
    option_map cb_name
      (find (fun b => Z.eqb sid (cb_id b) &&
                      match cb_bus b with Some s => Cases.list_eqb Z.eqb bus (codes s) | None => false end) bs).

  Definition dynamic_decode (bs : list cbinding) (f : frame) : option (string * V) :=
    match dynamic_msg_name bs (fr_sid f) (fr_bus f) with
    | None => None
    | Some name => option_map (pair name) (dec name (fr_data f))
    end.
End Codec.
