(* Model of the run-time (reflection-loaded) C++ codec: fcp_cpp/dynamic.h.j2.

   _Encode encodes every node into ITS OWN Buffer and appends the bytes with
   Insert (so every scalar, every element and every field starts on a byte
   boundary); _Decode reads one shared, bit-packed buffer; struct fields are
   walked in the order of the reflection record (declaration order);
   DecodeSigned returns the uint64 word GetWord(sign = true) produced;
   EncodeOptional treats a JSON value whose empty() is true (null, [] or {})
   as absent.  No proofs here. *)
From Coq Require Import String ZArith List Bool.
From FcpV Require Import Base.Bits Schema.Types Wire.Wire Cpp.CppStatic.
Import ListNotations.
Open Scope Z_scope.

Definition pad8 (b : bits) : bits := b ++ padding b.

Definition json_empty (v : value) : bool :=
  match v with VList [] | VStruct [] | VNone => true | _ => false end.

Definition dyn_list (f : value -> option bits) : list value -> option bits :=
  fix go (vs : list value) : option bits :=
  match vs with
  | [] => Some []
  | v :: vs' => match f v, go vs' with Some a, Some b => Some (a ++ b) | _, _ => None end
  end.

(* t is the type tree in declaration order (Types.resolve_decl) *)
Fixpoint dyn_wire (t : rty) (v : value) {struct t} : option bits :=
  match t, v with
  | RU n, VInt z | RI n, VInt z | REnum n, VInt z => Some (pad8 (bits_of_Z n z))
  | RF32, VBits b => Some (bits_of_Z 32 b)
  | RF64, VBits b => Some (bits_of_Z 64 b)
  | RStr, VStr cs => Some (bits_of_Z 32 (Z.of_nat (length cs)) ++ str_bits cs)
  | RArr t' n, VList vs => if Nat.eqb (length vs) n then dyn_list (dyn_wire t') vs else None
  | RDyn t', VList vs => option_map (app (bits_of_Z 32 (Z.of_nat (length vs)))) (dyn_list (dyn_wire t') vs)
  | ROpt t', VNone => Some (bits_of_Z 8 0)
  | ROpt t', VSome v' =>
      if json_empty v' then Some (bits_of_Z 8 0)
      else option_map (app (bits_of_Z 8 1)) (dyn_wire t' v')
  | RStruct fs, VStruct kvs =>
      enc_seq (fun (f : string * rty) (kv : string * value) =>
                 if String.eqb (fst f) (fst kv) then dyn_wire (snd f) (snd kv) else None) fs kvs
  | _, _ => None
  end.

(* GetWord(size, sign = true) returned as an unsigned JSON number *)
Definition dyn_sdec (n : nat) (w : Z) : Z :=
  let k := Z.of_nat n - 1 in
  if ((w / 2 ^ k) =? 1) && negb (Z.of_nat n =? 64) then (Z.lxor w (2 ^ k) - 2 ^ k) mod 2 ^ 64 else w.

Definition dyn_encode (sc : schema) (name : string) (v : value) : option (list Z) :=
  match resolve_decl sc name with
  | Some t => option_map bytes_of_bits (dyn_wire t v)
  | None => None
  end.

Definition dyn_decode (sc : schema) (name : string) (bytes : list Z) : option (outcome value) :=
  match resolve_decl sc name with
  | Some t => Some (gdecode_bytes dyn_sdec t bytes)
  | None => None
  end.

(* every scalar leaf occupies whole bytes *)
Fixpoint aligned8 (t : rty) : bool :=
  match t with
  | RU n | RI n | REnum n => Nat.eqb (n mod 8) 0
  | RArr t' _ | RDyn t' | ROpt t' => aligned8 t'
  | RStruct fs => forallb (fun f => aligned8 (snd f)) fs
  | _ => true
  end.

(* no Optional holds an empty container *)
Fixpoint no_empty_some (t : rty) (v : value) {struct t} : bool :=
  match t, v with
  | ROpt t', VSome v' => negb (json_empty v') && no_empty_some t' v'
  | RArr t' _, VList vs | RDyn t', VList vs => forallb (no_empty_some t') vs
  | RStruct fs, VStruct kvs =>
      forallb2 (fun (f : string * rty) (kv : string * value) => no_empty_some (snd f) (snd kv)) fs kvs
  | _, _ => true
  end.
