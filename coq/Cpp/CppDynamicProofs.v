From Coq Require Import String ZArith List Bool Lia.
From FcpV Require Import Base.Bits Base.BitsProofs Schema.Types Wire.Wire Wire.WireProofs Cpp.CppStatic Cpp.CppStaticProofs Cpp.CppDynamic.
Import ListNotations.
Open Scope Z_scope.

Lemma pad8_aligned (b : bits) : (length b mod 8 = 0)%nat -> pad8 b = b.
Proof.
  intros H. unfold pad8, padding, pad_len. rewrite H. cbn. apply app_nil_r.
Qed.

Lemma dyn_list_ext f g vs :
  Forall (fun v => f v = g v) vs -> dyn_list f vs = enc_list g vs.
Proof. induction 1 as [|v vs Hv _ IH]; cbn; [reflexivity|]. now rewrite Hv, IH. Qed.

Lemma enc_seq_ext {A} (F G : A -> string * value -> option bits) fs : forall kvs,
  Forall (fun f => forall kv, F f kv = G f kv) fs -> enc_seq F fs kvs = enc_seq G fs kvs.
Proof.
  induction fs as [|f fs IH]; intros kvs HF; destruct kvs as [|kv kvs]; cbn; try reflexivity.
  inversion HF; subst. now rewrite H1, IH.
Qed.

(* when every scalar occupies whole bytes (and no Optional holds an empty
   container) the per-node byte alignment of the run-time encoder is invisible *)
Theorem dyn_wire_aligned_lemma : forall t v,
  aligned8 t = true -> no_empty_some t v = true -> dyn_wire t v = wire t v.
Proof.
  induction t as [n|n| | | |w|t n IH|t IH|t IH|fs IH] using rty_ind2; intros v Ha Hn;
    destruct v as [z|b|cs|vs| |v|kvs]; cbn [dyn_wire wire]; try reflexivity.
  - cbn in Ha. apply Nat.eqb_eq in Ha. now rewrite pad8_aligned by (now rewrite bits_of_Z_length).
  - cbn in Ha. apply Nat.eqb_eq in Ha. now rewrite pad8_aligned by (now rewrite bits_of_Z_length).
  - cbn in Ha. apply Nat.eqb_eq in Ha. now rewrite pad8_aligned by (now rewrite bits_of_Z_length).
  - cbn in Ha, Hn. destruct (Nat.eqb (length vs) n); [|reflexivity]. apply dyn_list_ext.
    apply forallb_Forall in Hn. eapply Forall_impl; [|exact Hn]. intros x Hx. now apply IH.
  - cbn in Ha, Hn. f_equal. apply dyn_list_ext.
    apply forallb_Forall in Hn. eapply Forall_impl; [|exact Hn]. intros x Hx. now apply IH.
  - cbn in Ha, Hn. apply andb_true_iff in Hn. destruct Hn as [He Hn]. apply negb_true_iff in He. rewrite He.
    now rewrite IH.
  - cbn in Ha, Hn. revert kvs Hn. induction fs as [|f fs IHfs]; intros kvs Hn; destruct kvs as [|kv kvs]; cbn; try reflexivity.
    inversion IH as [|? ? Hf IH']; subst. cbn in Ha. apply andb_true_iff in Ha. destruct Ha as [Ha1 Ha2].
    cbn in Hn. apply andb_true_iff in Hn. destruct Hn as [Hn1 Hn2].
    destruct (String.eqb (fst f) (fst kv)); [|reflexivity].
    rewrite (Hf _ Ha1 Hn1). now rewrite (IHfs IH' Ha2 kvs Hn2).
Qed.

(* the static decoder is the run-time decoder followed by the cast to the carrier *)
Lemma cpp_sdec_is_cast_of_dyn n w : cpp_sdec n w = cast_signed (carrier n) (dyn_sdec n w).
Proof. reflexivity. Qed.

(* a non-negative signed value is read back correctly by the run-time decoder *)
Theorem dyn_sdec_nonneg_lemma n w : (1 <= n <= 64)%nat -> 0 <= w < 2 ^ (Z.of_nat n - 1) -> dyn_sdec n w = sdec_spec n w.
Proof.
  intros Hn Hw. unfold dyn_sdec, sdec_spec. cbv zeta.
  assert (E : w / 2 ^ (Z.of_nat n - 1) = 0) by (apply Z.div_small; lia). rewrite E.
  change (0 =? 1) with false. cbn [andb]. destruct (Z.leb_spec (2 ^ (Z.of_nat n - 1)) w); [lia|reflexivity].
Qed.

(* ---------- schema level ---------- *)
Definition nonneg_okS (n : nat) (z : Z) : bool := in_signed n z && (0 <=? z) && Nat.leb n 64.

Lemma dyn_sdec_ok n z : nonneg_okS n z = true -> dyn_sdec n (z mod 2 ^ Z.of_nat n) = z.
Proof.
  unfold nonneg_okS. intros H. apply andb_true_iff in H. destruct H as [H Hn]. apply andb_true_iff in H. destruct H as [Hs Hz].
  apply Nat.leb_le in Hn. apply Z.leb_le in Hz.
  pose proof Hs as Hs'. unfold in_signed in Hs'. apply andb_true_iff in Hs'. destruct Hs' as [Hs' H3]. apply andb_true_iff in Hs'. destruct Hs' as [H1 H2].
  apply Z.leb_le in H1. apply Z.ltb_lt in H3.
  assert (Hp : 2 ^ (Z.of_nat n - 1) <= 2 ^ Z.of_nat n) by (apply Z.pow_le_mono_r; lia).
  rewrite Z.mod_small by lia.
  rewrite dyn_sdec_nonneg_lemma by lia. rewrite <- (Z.mod_small z (2 ^ Z.of_nat n)) at 1 by lia. now apply sdec_spec_ok.
Qed.

Theorem dyn_encode_equals_static_lemma sc name t v :
  resolve sc name = Some t -> resolve_decl sc name = Some t ->
  aligned8 t = true -> no_empty_some t v = true -> cpp_ok t v = true ->
  dyn_encode sc name v = cpp_encode sc name v.
Proof.
  intros Hr Hd Ha Hn Hok. unfold dyn_encode, cpp_encode. rewrite Hr, Hd, Hok. unfold cpp_enc.
  now rewrite dyn_wire_aligned_lemma.
Qed.

Theorem dyn_decode_equals_static_lemma sc name t v bytes :
  resolve sc name = Some t -> resolve_decl sc name = Some t ->
  has_type_gen nonneg_okS t v = true -> wire_bytes t v = Some bytes ->
  dyn_decode sc name bytes = Some (Ok v) /\ cpp_decode sc name bytes = Some (Ok v).
Proof.
  intros Hr Hd Hty Hw. split.
  - unfold dyn_decode. rewrite Hd. unfold wire_bytes in Hw.
    destruct (wire t v) as [bs|] eqn:Ew; cbn [option_map] in Hw; [|discriminate]. some_inv Hw.
    unfold gdecode_bytes. rewrite bits_of_bytes_of_bits.
    destruct (gdec_wire dyn_sdec t v bs (has_type_weaken nonneg_okS t v Hty) Ew) as [Hrt _].
    rewrite Hrt. cbn [bind]. now rewrite (norm_id nonneg_okS dyn_sdec dyn_sdec_ok t v Hty).
  - apply (cpp_decode_of_wire_lemma sc name t v bytes Hr); [|exact Hw].
    (* non-negative in-range values are in range *)
    clear -Hty. revert v Hty.
    induction t as [n|n| | | |w|t n IH|t IH|t IH|fs IH] using rty_ind2; intros v Hty;
      destruct v as [z|b|cs|vs| |v|kvs]; cbn in Hty |- *; try discriminate; try exact Hty; try reflexivity.
    + unfold nonneg_okS in Hty. unfold cpp_okS. apply andb_true_iff in Hty. destruct Hty as [H1 H2].
      apply andb_true_iff in H1. destruct H1 as [H1 _]. now rewrite H1, H2.
    + apply andb_true_iff in Hty. destruct Hty as [Hl Hv]. rewrite Hl. cbn [andb].
      apply forallb_forall. intros x Hx. apply IH. eapply forallb_forall in Hv; eauto.
    + apply andb_true_iff in Hty. destruct Hty as [Hl Hv]. rewrite Hl. cbn [andb].
      apply forallb_forall. intros x Hx. apply IH. eapply forallb_forall in Hv; eauto.
    + now apply IH.
    + revert kvs Hty. induction fs as [|f fs IHfs]; intros kvs Hty; [exact Hty|].
      destruct kvs as [|kv kvs]; [discriminate|]. inversion IH as [|? ? Hf IH']; subst.
      cbn [forallb2] in Hty |- *. apply andb_true_iff in Hty. destruct Hty as [H1 Hty].
      apply andb_true_iff in H1. destruct H1 as [Hn H1]. rewrite Hn, (Hf _ H1). cbn [andb]. now apply IHfs.
Qed.
