(* The two translated helpers of can_c_writer.py (gen/PyCanC.v) are what the model of C06 uses: the carrier width of an enum /
   short type (CModel.ceil_pow2_8) for every bit length a CAN message can hold, and the signedness test on the type's NAME
   (CModel.starts_with_i, the root of the finding c-enum-name-i). *)
From Coq Require Import String Ascii ZArith List Bool Lia.
From FcpV Require Import Base.Bits Schema.Types Layout.Packed Layout.PackedProofs Py.BufferLib Dbc.DbcModel Dbc.DbcLib Dbc.DbcSrcProofs CanC.CModel CanC.CWriterLib gen.PyCanC.
Import ListNotations.
Local Open Scope Z_scope.

Definition widths : list Z := map Z.of_nat (seq 0 65).

Lemma widths_all x : 0 <= x <= 64 -> In x widths.
Proof.
  intros H. unfold widths. replace x with (Z.of_nat (Z.to_nat x)) by lia. apply in_map. apply in_seq. lia.
Qed.

Lemma ceil_table : forallb (fun x => py_ceil_to_power_of_2 x =? ceil_pow2_8 x) widths = true.
Proof. vm_compute. reflexivity. Qed.

(* the bit trick of ceil_to_power_of_2 is the next power of two from 8 upwards, for every length 0..64 *)
Theorem ceil_is_model x : 0 <= x <= 64 -> py_ceil_to_power_of_2 x = ceil_pow2_8 x.
Proof.
  intros H. pose proof ceil_table as T. rewrite forallb_forall in T. specialize (T x (widths_all x H)). now apply Z.eqb_eq in T.
Qed.

(* is_signed looks at the first letter of the type's name, whatever kind of type it is *)
Theorem is_signed_is_first_letter name : py_is_signed name = starts_with_i name.
Proof.
  destruct name as [|a s]; [reflexivity|]. unfold py_is_signed, starts_with_i. cbn [py_startswith].
  destruct s; cbn [py_startswith]; rewrite andb_true_r; apply Ascii.eqb_sym.
Qed.

(* hence an enum named like that is taken for a signed type *)
Example enum_named_i_is_signed : py_is_signed "ignition" = true /\ py_is_signed "Mode" = false.
Proof. split; reflexivity. Qed.


(* ---------- initialize_can_data: one message per CAN binding, in declaration order ---------- *)
Section Init.
Context {S : Type} (create : list piece -> pyres (S * Z)).

Definition is_can (im : simpl) : bool := String.eqb (iprotocol im) "can".

(* the message of one binding: None when the layout, create_can_signals or the id is missing (the generator then raises) *)
Definition msg_spec (sc : schema) (im : simpl) : option (cmsg S) :=
  match snd (generate true sc encoder_init im) with
  | None => None
  | Some ps =>
      match create ps with
      | PRaise _ => None
      | POk (sigs, dlc) =>
          match impl_int im "id" with
          | None => None
          | Some id => Some {| c_frame_id := id; c_name := iname im; c_dlc := dlc; c_signals := sigs;
                               c_senders := [impl_str_default im "device" "global"]; c_period := impl_int_default im "period" (-1) |}
          end
      end
  end.

Fixpoint msgs_spec (sc : schema) (ims : list simpl) : option (list (cmsg S)) :=
  match ims with
  | [] => Some []
  | im :: ims' =>
      if negb (is_can im) then msgs_spec sc ims'
      else match msg_spec sc im, msgs_spec sc ims' with Some m, Some ms => Some (m :: ms) | _, _ => None end
  end.

Lemma init_loop sc : forall ims (msgs : list (cmsg S)) (devs : list string) (e : encoder),
  option_map (fun st : list (cmsg S) * list string * encoder => fst (fst st))
    (dres_of (dfor (filter (fun i => String.eqb (iprotocol i) "can") ims) (msgs, devs, e)
       (fun st extension =>
          let '(messages, devices, encoder) := st in
          match generate true sc encoder extension with
          | (encoder, None) => DRaise
          | (encoder, Some encoding) =>
              dbind (dlift (create encoding)) (fun sd => let '(signals, dlc) := sd in
              let frame_id := impl_int extension "id" in
              match frame_id with
              | None => DRaise
              | Some frame_id =>
                  let device_name := impl_str_default extension "device" "global" in
                  let period := impl_int_default extension "period" (-1) in
                  let devices := if negb (existsb (fun node => String.eqb node device_name) devices) then devices ++ [device_name] else devices in
                  let messages := messages ++ [{| c_frame_id := frame_id; c_name := iname extension; c_dlc := dlc; c_signals := signals;
                                                  c_senders := [device_name]; c_period := period |}] in
                  DOk (messages, devices, encoder)
              end)
          end)))
  = option_map (app msgs) (msgs_spec sc ims).
Proof.
  induction ims as [|im ims IH]; intros msgs devs e; [cbn; now rewrite app_nil_r|].
  cbn [filter msgs_spec]. unfold is_can at 1. destruct (String.eqb (iprotocol im) "can") eqn:Ep; cbn [negb]; [|apply IH].
  cbn [dfor]. cbv zeta. unfold msg_spec.
  rewrite <- (generate_history_independent_lemma true sc e encoder_init im).
  destruct (generate true sc e im) as [e' [ps|]]; cbn [snd]; [|reflexivity].
  destruct (create ps) as [[sigs dlc]|ex]; cbn [dlift dbind]; [|reflexivity].
  destruct (impl_int im "id") as [id|]; [|reflexivity].
  cbn [dbind]. rewrite IH. destruct (msgs_spec sc ims) as [ms|]; cbn [option_map]; [|reflexivity].
  now rewrite <- app_assoc.
Qed.

Lemma finish_init (m : dres (list (cmsg S) * list string * encoder)) :
  option_map fst (dres_of (dbind m (fun st => let '(messages, devices, encoder) := st in DOk (messages, devices))))
  = option_map (fun st : list (cmsg S) * list string * encoder => fst (fst st)) (dres_of m).
Proof. destruct m as [[[a b] c]| |]; reflexivity. Qed.

Theorem initialize_messages_are_the_bindings sc ims :
  option_map fst (dres_of (py_initialize_can_data create sc ims)) = msgs_spec sc ims.
Proof.
  unfold py_initialize_can_data. cbv zeta. rewrite finish_init.
  transitivity (option_map (app []) (msgs_spec sc ims)); [exact (init_loop sc ims [] _ encoder_init)|].
  destruct (msgs_spec sc ims); reflexivity.
Qed.
End Init.

(* ---------- map_messages_to_devices: each device gets its messages in order ---------- *)
Definition get_list {A : Type} (d : string) (dm : list (string * list A)) : list A := match lookup d dm with Some l => l | None => [] end.

Lemma setdefault_get {A : Type} (dm : list (string * list A)) k x d :
  get_list d (setdefault_append dm k x) = if String.eqb k d then get_list d dm ++ [x] else get_list d dm.
Proof.
  unfold get_list. induction dm as [|[k' l] dm IH]; cbn [setdefault_append lookup].
  - rewrite (String.eqb_sym d k). destruct (String.eqb k d); reflexivity.
  - destruct (String.eqb_spec k' k) as [->|N]; cbn [lookup].
    + rewrite (String.eqb_sym d k). destruct (String.eqb k d); reflexivity.
    + destruct (String.eqb_spec d k') as [->|N2].
      * destruct (String.eqb_spec k k') as [E|_]; [congruence|reflexivity].
      * exact IH.
Qed.

Definition sent_by {S : Type} (d : string) (m : cmsg S) : bool := existsb (String.eqb d) (c_senders m).

Lemma map_loop {S : Type} d : forall (msgs : list (cmsg S)) dm,
  (forall m, In m msgs -> exists s, c_senders m = [s]) ->
  get_list d (fold_left (fun dm msg => fold_left (fun dm sender => setdefault_append dm sender msg) (c_senders msg) dm) msgs dm)
  = get_list d dm ++ filter (sent_by d) msgs.
Proof.
  induction msgs as [|m msgs IH]; intros dm H1; [cbn; now rewrite app_nil_r|].
  cbn [fold_left filter]. destruct (H1 m (or_introl eq_refl)) as [s Hs].
  rewrite IH by (intros m' Hm'; apply H1; now right).
  unfold sent_by at 2. rewrite Hs. cbn [fold_left existsb]. rewrite setdefault_get, orb_false_r, (String.eqb_sym d s).
  destruct (String.eqb s d); [now rewrite <- app_assoc|reflexivity].
Qed.

Theorem device_messages_in_order {S : Type} (msgs : list (cmsg S)) d :
  (forall m, In m msgs -> exists s, c_senders m = [s]) ->
  get_list d (py_map_messages_to_devices msgs) = filter (sent_by d) msgs.
Proof. intros H. unfold py_map_messages_to_devices. cbv zeta. now rewrite map_loop. Qed.

(* what the scheduler of device d is generated for: the periods of that device's CAN bindings, in declaration order, -1 when none is given,
   "global" when no device is given *)
Lemma msgs_spec_one_sender {S : Type} (create : list piece -> pyres (S * Z)) sc : forall ims msgs,
  msgs_spec create sc ims = Some msgs -> forall m, In m msgs -> exists s, c_senders m = [s].
Proof.
  induction ims as [|im ims IH]; intros msgs H m Hm; cbn [msgs_spec] in H.
  - inversion H; subst. contradiction.
  - destruct (negb (is_can im)); [eauto|].
    destruct (msg_spec create sc im) as [m0|] eqn:E0; [|discriminate]. destruct (msgs_spec create sc ims) as [ms|] eqn:E1; [|discriminate].
    inversion H; subst. destruct Hm as [<-|Hm]; [|eauto].
    unfold msg_spec in E0. destruct (snd (generate true sc encoder_init im)); [|discriminate].
    destruct (create l) as [[sg dl]|]; [|discriminate]. destruct (impl_int im "id"); [|discriminate]. inversion E0; subst. eexists. reflexivity.
Qed.

Lemma msgs_spec_periods {S : Type} (create : list piece -> pyres (S * Z)) sc d : forall ims msgs,
  msgs_spec create sc ims = Some msgs ->
  map c_period (filter (sent_by d) msgs)
  = map (fun im => impl_int_default im "period" (-1))
        (filter (fun im => is_can im && String.eqb d (impl_str_default im "device" "global")) ims).
Proof.
  induction ims as [|im ims IH]; intros msgs H; cbn [msgs_spec] in H.
  - inversion H; subst. reflexivity.
  - cbn [filter]. destruct (is_can im) eqn:Ec; cbn [negb andb] in *; [|eauto].
    destruct (msg_spec create sc im) as [m0|] eqn:E0; [|discriminate]. destruct (msgs_spec create sc ims) as [ms|] eqn:E1; [|discriminate].
    inversion H; subst. cbn [filter]. unfold msg_spec in E0. destruct (snd (generate true sc encoder_init im)); [|discriminate].
    destruct (create l) as [[sg dl]|]; [|discriminate]. destruct (impl_int im "id"); [|discriminate]. inversion E0; subst.
    unfold sent_by at 1. cbn [c_senders existsb]. rewrite orb_false_r.
    destruct (String.eqb d (impl_str_default im "device" "global")); cbn [map c_period]; [f_equal|]; now apply IH.
Qed.

Theorem scheduler_periods_are_the_bindings {S : Type} (create : list piece -> pyres (S * Z)) sc ims d msgs devs :
  dres_of (py_initialize_can_data create sc ims) = Some (msgs, devs) ->
  map c_period (get_list d (py_map_messages_to_devices msgs))
  = map (fun im => impl_int_default im "period" (-1))
        (filter (fun im => is_can im && String.eqb d (impl_str_default im "device" "global")) ims).
Proof.
  intros H. pose proof (initialize_messages_are_the_bindings create sc ims) as Hi. rewrite H in Hi. cbn [option_map fst] in Hi. symmetry in Hi.
  rewrite device_messages_in_order by (eapply msgs_spec_one_sender; exact Hi).
  now apply (msgs_spec_periods create sc d ims).
Qed.

(* ---------- create_can_signals: the numbers the model of C06 takes from the layout ---------- *)
Lemma ext_str_is_big p : ext_str_is p "endianness" "big" = is_big p.
Proof. unfold ext_str_is, ext_str, is_big. destruct (lookup "endianness" (pext p)) as [[z|s|]|]; reflexivity. Qed.

Lemma create_loop (f : piece -> csignal) : forall ps acc0 d0,
  fold_left (fun (acc : list csignal * Z) p => let '(signals, max_dlc) := acc in (signals ++ [f p], Z.max max_dlc (ceil8 (pstart p + plen p)))) ps (acc0, d0)
  = (acc0 ++ map f ps, fold_left Z.max (map (fun p => (pstart p + plen p + 7) / 8) ps) d0).
Proof.
  induction ps as [|p ps IH]; intros acc0 d0; [cbn; now rewrite app_nil_r|].
  cbn [fold_left map]. rewrite IH, <- app_assoc. reflexivity.
Qed.

(* start bit, length and byte order of every signal are the layout piece's (the byte order as the C writer reads it: `endianness`), the
   signedness is decided by the first letter of the type's name, and the message length is the largest ceil(end / 8) *)
Theorem create_can_signals_is_the_layout ps :
  let '(sigs, dlc) := py_create_can_signals ps in
  map (fun s => (cs_start_bit s, cs_bit_length s, String.eqb (cs_byte_order s) "big_endian", cs_signed s)) sigs
  = map (fun p => (pstart p, plen p, is_big p, starts_with_i (piece_type_name p))) ps /\
  dlc = fold_left Z.max (map (fun p => (pstart p + plen p + 7) / 8) ps) 0.
Proof.
  unfold py_create_can_signals. cbv zeta.
  rewrite (create_loop (fun piece =>
    {| cs_name := dbc_name piece; cs_start_bit := pstart piece; cs_bit_length := plen piece; cs_data_type := piece_type_name piece;
       cs_scalar_type := piece_type_name piece;
       cs_byte_order := if ext_str_is piece "endianness" "big" then "big_endian" else "little_endian";
       cs_signed := py_is_signed (piece_type_name piece);
       cs_is_multiplexer := truthy_ostr (ext_str piece "mux_signal");
       cs_multiplexer_ids := if truthy_ostr (ext_str piece "mux_signal")
                             then Some (zrange match ext_int piece "mux_count" with Some n => n | None => 0 end) else None;
       cs_multiplexer_signal := ext_str piece "mux_signal" |})).
  cbn [app]. split; [|reflexivity]. rewrite map_map. apply map_ext. intros p. cbn [cs_start_bit cs_bit_length cs_byte_order cs_signed].
  rewrite ext_str_is_big, is_signed_is_first_letter. destruct (is_big p); reflexivity.
Qed.

(* and that length is the DLC of the model's frame *)
Corollary create_can_signals_dlc_is_the_models fid ps vs :
  cf_dlc (c_encode_msg fid ps vs) = snd (py_create_can_signals ps) mod 16.
Proof.
  pose proof (create_can_signals_is_the_layout ps) as H. destruct (py_create_can_signals ps) as [sigs dlc]. destruct H as [_ ->]. reflexivity.
Qed.
