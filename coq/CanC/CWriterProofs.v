(* The two translated helpers of can_c_writer.py (gen/PyCanC.v) are what the model of C06 uses: the carrier width of an enum /
   short type (CModel.ceil_pow2_8) for every bit length a CAN message can hold, and the signedness test on the type's NAME
   (CModel.starts_with_i, the root of the finding c-enum-name-i). *)
From Coq Require Import String Ascii ZArith List Bool Lia.
From FcpV Require Import Base.Bits Schema.Types Layout.Packed CanC.CModel CanC.CWriterLib gen.PyCanC.
Import ListNotations.
Local Open Scope Z_scope.

Definition widths : list Z := map Z.of_nat (seq 0 65).

Lemma widths_all x : 0 <= x <= 64 -> In x widths.
Proof.
  intros H. unfold widths. replace x with (Z.of_nat (Z.to_nat x)) by lia. apply in_map. apply in_seq. lia.
Qed.

Lemma ceil_table : forallb (fun x => py_ceil_to_power_of_2 x =? ceil_pow2_8 x) widths = true.
Proof. vm_compute. reflexivity. Qed.

(* the bit trick of ceil_to_power_of_2 is the next power of two from 8 upwards, for every length 0..64 *)
Theorem ceil_is_model x : 0 <= x <= 64 -> py_ceil_to_power_of_2 x = ceil_pow2_8 x.
Proof.
  intros H. pose proof ceil_table as T. rewrite forallb_forall in T. specialize (T x (widths_all x H)). now apply Z.eqb_eq in T.
Qed.

(* is_signed looks at the first letter of the type's name, whatever kind of type it is *)
Theorem is_signed_is_first_letter name : py_is_signed name = starts_with_i name.
Proof.
  destruct name as [|a s]; [reflexivity|]. unfold py_is_signed, starts_with_i. cbn [py_startswith].
  destruct s; cbn [py_startswith]; rewrite andb_true_r; apply Ascii.eqb_sym.
Qed.

(* hence an enum named like that is taken for a signed type *)
Example enum_named_i_is_signed : py_is_signed "ignition" = true /\ py_is_signed "Mode" = false.
Proof. split; reflexivity. Qed.
