(* Big-endian signals of the generated C code (`endianness: "big"`): what the runtime of can_signal_parser.c does with them, as
   modelled in CModel.v (c_swap, c_encode_signal_e, c_decode_signal_e).

   - a message whose only signal is a big-endian integer of a standard width at bit 0 is packed with its bytes reversed (over the
     DLC's bytes) and decodes to the value: c_big_single_unsigned / c_big_single_signed;
   - in a message of several signals this fails: the swap is applied after the shift (c06_refuted_big_endian_offset) and the
     swapped negative value is sign-extended over the signals after it (c06_refuted_big_endian_sign_extension). *)
From Coq Require Import String ZArith List Bool Lia.
From FcpV Require Import Base.Bits Schema.Types Layout.Packed CanC.CModel CanC.CProofs.
Import ListNotations.
Open Scope Z_scope.

(* ---------- arithmetic of the byte swaps ---------- *)
Lemma split_mod a b M : 0 < M -> 0 <= b < M -> (a * M + b) mod M = b.
Proof. intros HM Hb. symmetry. apply Z.mod_unique_pos with (q := a); lia. Qed.

Lemma split_div a b M : 0 < M -> 0 <= b < M -> (a * M + b) / M = a.
Proof. intros HM Hb. symmetry. apply Z.div_unique_pos with (r := b); lia. Qed.

Lemma bswap16_range x : 0 <= bswap16 x < 65536.
Proof.
  unfold bswap16. pose proof (Z.mod_pos_bound x 256 ltac:(lia)). pose proof (Z.mod_pos_bound (x / 256) 256 ltac:(lia)). lia.
Qed.

Lemma bswap16_invol x : 0 <= x < 65536 -> bswap16 (bswap16 x) = x.
Proof.
  intros Hx. unfold bswap16.
  pose proof (Z.mod_pos_bound x 256 ltac:(lia)) as Ha.
  assert (Hb : 0 <= x / 256 < 256) by (split; [apply Z.div_pos; lia|apply Z.div_lt_upper_bound; lia]).
  rewrite (Z.mod_small (x / 256) 256) by exact Hb.
  rewrite split_mod, split_div by lia. rewrite (Z.mod_small (x mod 256) 256) by exact Ha.
  pose proof (Z.div_mod x 256 ltac:(lia)). lia.
Qed.

Lemma bswap32_range x : 0 <= bswap32 x < 2 ^ 32.
Proof.
  unfold bswap32. pose proof (bswap16_range (x mod 65536)). pose proof (bswap16_range ((x / 65536) mod 65536)).
  change (2 ^ 32) with 4294967296. lia.
Qed.

Lemma bswap32_invol x : 0 <= x < 2 ^ 32 -> bswap32 (bswap32 x) = x.
Proof.
  change (2 ^ 32) with 4294967296. intros Hx. unfold bswap32.
  pose proof (Z.mod_pos_bound x 65536 ltac:(lia)) as Ha.
  assert (Hb : 0 <= x / 65536 < 65536) by (split; [apply Z.div_pos; lia|apply Z.div_lt_upper_bound; lia]).
  rewrite (Z.mod_small (x / 65536) 65536) by exact Hb.
  pose proof (bswap16_range (x mod 65536)) as Hra. pose proof (bswap16_range (x / 65536)) as Hrb.
  rewrite split_mod, split_div by lia. rewrite (Z.mod_small (bswap16 (x mod 65536)) 65536) by exact Hra.
  rewrite !bswap16_invol by assumption.
  pose proof (Z.div_mod x 65536 ltac:(lia)). lia.
Qed.

Lemma bswap64_range x : 0 <= bswap64 x < 2 ^ 64.
Proof.
  unfold bswap64. pose proof (bswap32_range (x mod 2 ^ 32)). pose proof (bswap32_range ((x / 2 ^ 32) mod 2 ^ 32)).
  change (2 ^ 64) with (2 ^ 32 * 2 ^ 32). change (2 ^ 32) with 4294967296 in *. lia.
Qed.

Lemma bswap64_invol x : 0 <= x < 2 ^ 64 -> bswap64 (bswap64 x) = x.
Proof.
  change (2 ^ 64) with (4294967296 * 4294967296). intros Hx. unfold bswap64. change (2 ^ 32) with 4294967296.
  pose proof (Z.mod_pos_bound x 4294967296 ltac:(lia)) as Ha.
  assert (Hb : 0 <= x / 4294967296 < 4294967296) by (split; [apply Z.div_pos; lia|apply Z.div_lt_upper_bound; lia]).
  rewrite (Z.mod_small (x / 4294967296) 4294967296) by exact Hb.
  pose proof (bswap32_range (x mod 4294967296)) as Hra. pose proof (bswap32_range (x / 4294967296)) as Hrb.
  change (2 ^ 32) with 4294967296 in Hra, Hrb.
  rewrite split_mod, split_div by lia. rewrite (Z.mod_small (bswap32 (x mod 4294967296)) 4294967296) by exact Hra.
  rewrite !bswap32_invol by (change (2 ^ 32) with 4294967296; assumption).
  pose proof (Z.div_mod x 4294967296 ltac:(lia)). lia.
Qed.

(* ---------- conversions ---------- *)
Lemma cast_int_congr c y : 0 < c -> (cast_int c y) mod 2 ^ c = y mod 2 ^ c.
Proof.
  intros Hc. unfold cast_int. assert (Hp : 0 < 2 ^ c) by (apply Z.pow_pos_nonneg; lia).
  destruct (2 ^ (c - 1) <=? y mod 2 ^ c); [|apply Z.mod_mod; lia].
  replace (y mod 2 ^ c - 2 ^ c) with (y mod 2 ^ c + (-1) * 2 ^ c) by lia. rewrite Z.mod_add by lia. apply Z.mod_mod. lia.
Qed.

Lemma low_u64_cast c y : 0 < c <= 64 -> 0 <= y < 2 ^ c -> (u64 (cast_int c y)) mod 2 ^ c = y.
Proof.
  intros Hc Hy. unfold u64. rewrite mod_mod_le by lia. rewrite cast_int_congr by lia. apply Z.mod_small. exact Hy.
Qed.

Lemma cast_int_self c v : 0 < c -> - 2 ^ (c - 1) <= v < 2 ^ (c - 1) -> cast_int c v = v.
Proof.
  intros Hc Hv. rewrite <- (cast_int_id c v Hc Hv) at 2. unfold cast_int. rewrite Z.mod_mod by (apply Z.pow_nonzero; lia). reflexivity.
Qed.

Lemma cast64_u64 v : - 2 ^ 63 <= v < 2 ^ 63 -> cast_int 64 (u64 v) = v.
Proof. intros Hv. unfold u64. apply cast_int_id; [lia|exact Hv]. Qed.

Lemma sign_conv_val c v : 1 <= c <= 64 -> - 2 ^ (c - 1) <= v < 2 ^ (c - 1) -> sign_conv (v mod 2 ^ c) c = v.
Proof.
  intros Hc Hv.
  assert (H2 : 2 ^ c = 2 * 2 ^ (c - 1)) by (replace c with (Z.succ (c - 1)) at 1 by lia; now rewrite Z.pow_succ_r by lia).
  assert (Hp : 0 < 2 ^ (c - 1)) by (apply Z.pow_pos_nonneg; lia).
  rewrite sign_conv_spec by (try apply Z.mod_pos_bound; lia).
  destruct (Z.lt_ge_cases v 0) as [Hneg|Hpos].
  - assert (E : v mod 2 ^ c = v + 2 ^ c) by (symmetry; apply Z.mod_unique_pos with (q := -1); lia).
    rewrite E. destruct (Z.leb_spec (2 ^ (c - 1)) (v + 2 ^ c)); lia.
  - rewrite Z.mod_small by lia. destruct (Z.leb_spec (2 ^ (c - 1)) v); lia.
Qed.

Lemma pow_c_le_64 c : 0 <= c <= 64 -> 2 ^ c <= 2 ^ 64.
Proof. intros. apply Z.pow_le_mono_r; lia. Qed.

(* ---------- a message whose only signal is big-endian ---------- *)
(* the signal's bytes in the opposite order *)
Definition bswap (c x : Z) : Z :=
  if c =? 8 then x else if c =? 16 then bswap16 x else if c =? 32 then bswap32 x else bswap64 x.

Definition std_c (c : Z) : Prop := c = 8 \/ c = 16 \/ c = 32 \/ c = 64.

Lemma word_single k b s l v : c_word [(k, b, s, l)] [v] = c_encode_signal_e k b s l v.
Proof. unfold c_word. cbn [combine map fold_left fst snd]. apply Z.lor_0_l. Qed.

Lemma raw_unsigned c v : std_c c -> 0 <= v < 2 ^ c -> c_encode_signal (KU c) 0 c v = v.
Proof.
  intros Hc Hv. assert (0 <= c <= 64) by (destruct Hc as [-> | [-> | [-> | ->]]]; lia). pose proof (pow_c_le_64 c ltac:(lia)).
  unfold c_encode_signal, u64. rewrite land_mask by lia. rewrite Z.pow_0_r, Z.mul_1_r, Z.mod_mod by (apply Z.pow_nonzero; lia).
  rewrite (Z.mod_small v (2 ^ c)) by exact Hv. apply Z.mod_small. lia.
Qed.

Lemma raw_signed c v : std_c c -> c_encode_signal (KI c) 0 c v = v mod 2 ^ c.
Proof.
  intros Hc. assert (0 <= c <= 64) by (destruct Hc as [-> | [-> | [-> | ->]]]; lia). pose proof (pow_c_le_64 c ltac:(lia)).
  assert (0 < 2 ^ c) by (apply Z.pow_pos_nonneg; lia).
  unfold c_encode_signal, u64. rewrite land_mask by lia. rewrite Z.pow_0_r, Z.mul_1_r, (mod_mod_le v c 64) by lia.
  apply Z.mod_small. pose proof (Z.mod_pos_bound v (2 ^ c) ltac:(lia)). lia.
Qed.

Lemma bf_at_0 w l : 0 <= l -> Z.land (w / 2 ^ 0) (mask l) = w mod 2 ^ l.
Proof. intros Hl. rewrite Z.pow_0_r, Z.div_1_r. now apply land_mask. Qed.

Theorem c_big_single_unsigned_lemma fid p v c :
  is_big p = true -> pstart p = 0 -> plen p = c -> kind_of p = KU c -> std_c c -> 0 <= v < 2 ^ c ->
  let f := c_encode_msg fid [p] [v] in
  cf_word f mod 2 ^ c = bswap c v /\ c_decode_msg [p] f = [v].
Proof.
  intros Hbig Hs Hl Hk Hc Hv. cbv zeta. unfold c_encode_msg, c_decode_msg. cbn [cf_word map]. unfold sig_of.
  rewrite !Hbig, !Hs, !Hl, !Hk, !word_single. unfold c_encode_signal_e, c_decode_signal_e.
  rewrite (raw_unsigned c v Hc Hv).
  destruct Hc as [-> | [-> | [-> | ->]]]; unfold c_swap, bswap; cbn [Z.eqb Pos.eqb]; rewrite bf_at_0 by lia.
  - rewrite !(Z.mod_small v (2 ^ 8)) by exact Hv. split; reflexivity.
  - rewrite (Z.mod_small v (2 ^ 16)) by exact Hv. pose proof (bswap16_range v) as Hr. change 65536 with (2 ^ 16) in Hr.
    rewrite !(Z.mod_small (bswap16 v) (2 ^ 16)) by exact Hr. split; [reflexivity|].
    rewrite bswap16_invol by (change 65536 with (2 ^ 16); exact Hv). rewrite (Z.mod_small v (2 ^ 16)) by exact Hv. reflexivity.
  - rewrite (Z.mod_small v (2 ^ 32)) by exact Hv. pose proof (bswap32_range v) as Hr.
    rewrite !(Z.mod_small (bswap32 v) (2 ^ 32)) by exact Hr. split; [reflexivity|].
    rewrite bswap32_invol by exact Hv. rewrite (Z.mod_small v (2 ^ 32)) by exact Hv. reflexivity.
  - pose proof (bswap64_range v) as Hr.
    rewrite !(Z.mod_small (bswap64 v) (2 ^ 64)) by exact Hr. split; [reflexivity|].
    rewrite bswap64_invol by exact Hv. rewrite (Z.mod_small v (2 ^ 64)) by exact Hv. reflexivity.
Qed.

Theorem c_big_single_signed_lemma fid p v c :
  is_big p = true -> pstart p = 0 -> plen p = c -> kind_of p = KI c -> std_c c -> - 2 ^ (c - 1) <= v < 2 ^ (c - 1) ->
  let f := c_encode_msg fid [p] [v] in
  cf_word f mod 2 ^ c = bswap c (v mod 2 ^ c) /\ c_decode_msg [p] f = [v].
Proof.
  intros Hbig Hs Hl Hk Hc Hv. cbv zeta. unfold c_encode_msg, c_decode_msg. cbn [cf_word map]. unfold sig_of.
  rewrite !Hbig, !Hs, !Hl, !Hk, !word_single. unfold c_encode_signal_e, c_decode_signal_e.
  rewrite (raw_signed c v Hc).
  assert (Hcc : 1 <= c <= 64) by (destruct Hc as [-> | [-> | [-> | ->]]]; lia).
  assert (Hpc : 0 < 2 ^ c) by (apply Z.pow_pos_nonneg; lia).
  pose proof (Z.mod_pos_bound v (2 ^ c) Hpc) as Hm. set (m := v mod 2 ^ c) in *.
  assert (Hcast : cast_int c m = v) by (apply cast_int_id; [lia|exact Hv]).
  assert (H63 : - 2 ^ 63 <= v < 2 ^ 63).
  { assert (2 ^ (c - 1) <= 2 ^ 63) by (apply Z.pow_le_mono_r; lia). lia. }
  destruct Hc as [-> | [-> | [-> | ->]]]; unfold c_swap, bswap; cbn [Z.eqb Pos.eqb]; rewrite bf_at_0 by lia.
  - (* i8: swap_bytes_int(val, I8) = val *)
    rewrite (Z.mod_small m (2 ^ 8)) by exact Hm. split; [reflexivity|].
    unfold m. rewrite sign_conv_val by lia. rewrite cast64_u64 by exact H63. rewrite cast_int_self by lia. reflexivity.
  - (* i16 *)
    rewrite (Z.mod_small m (2 ^ 16)) by exact Hm. pose proof (bswap16_range m) as Hr. change 65536 with (2 ^ 16) in Hr.
    rewrite (low_u64_cast 16 (bswap16 m)) by (try exact Hr; lia). split; [reflexivity|].
    (* the decoder: sign_conv keeps the low 16 bits *)
    assert (Hlow : u64 (sign_conv (bswap16 m) 16) mod 2 ^ 16 = bswap16 m).
    { unfold u64. rewrite mod_mod_le by lia. rewrite sign_conv_spec by (try exact Hr; lia).
      destruct (2 ^ (16 - 1) <=? bswap16 m); [|apply Z.mod_small; exact Hr].
      replace (bswap16 m - 2 ^ 16) with (bswap16 m + (-1) * 2 ^ 16) by lia. rewrite Z.mod_add by lia. apply Z.mod_small. exact Hr. }
    rewrite Hlow, bswap16_invol by (change 65536 with (2 ^ 16); exact Hm). rewrite Hcast, cast64_u64 by exact H63.
    rewrite cast_int_self by lia. reflexivity.
  - (* i32 *)
    rewrite (Z.mod_small m (2 ^ 32)) by exact Hm. pose proof (bswap32_range m) as Hr.
    rewrite (low_u64_cast 32 (bswap32 m)) by (try exact Hr; lia). split; [reflexivity|].
    assert (Hlow : u64 (sign_conv (bswap32 m) 32) mod 2 ^ 32 = bswap32 m).
    { unfold u64. rewrite mod_mod_le by lia. rewrite sign_conv_spec by (try exact Hr; lia).
      destruct (2 ^ (32 - 1) <=? bswap32 m); [|apply Z.mod_small; exact Hr].
      replace (bswap32 m - 2 ^ 32) with (bswap32 m + (-1) * 2 ^ 32) by lia. rewrite Z.mod_add by lia. apply Z.mod_small. exact Hr. }
    rewrite Hlow, bswap32_invol by exact Hm. rewrite Hcast, cast64_u64 by exact H63.
    rewrite cast_int_self by lia. reflexivity.
  - (* i64: the whole word is swapped *)
    pose proof (bswap64_range m) as Hr. rewrite (Z.mod_small (bswap64 m) (2 ^ 64)) by exact Hr. split; [reflexivity|].
    assert (Hu : u64 (cast_int 64 (bswap64 m)) = bswap64 m).
    { rewrite <- (low_u64_cast 64 (bswap64 m)) at 2 by (try exact Hr; lia). unfold u64. symmetry. apply Z.mod_mod. lia. }
    rewrite Hu, bswap64_invol by exact Hm. rewrite Hcast. rewrite cast_int_self by lia. reflexivity.
Qed.

(* floats travel as their bit patterns: f32 through swap_bytes_int(.., U32), f64 through swap_bytes_int(.., U64) *)
Theorem c_big_single_float_lemma fid p v :
  is_big p = true -> pstart p = 0 ->
  (kind_of p = KF32 /\ plen p = 32 /\ 0 <= v < 2 ^ 32 \/ kind_of p = KF64 /\ plen p = 64 /\ 0 <= v < 2 ^ 64) ->
  let f := c_encode_msg fid [p] [v] in
  cf_word f = bswap (plen p) v /\ c_decode_msg [p] f = [v].
Proof.
  intros Hbig Hs Hk. cbv zeta. unfold c_encode_msg, c_decode_msg. cbn [cf_word map]. unfold sig_of.
  rewrite !Hbig, !Hs, !word_single. unfold c_encode_signal_e, c_decode_signal_e.
  destruct Hk as [(Hk & Hl & Hv)|(Hk & Hl & Hv)]; rewrite !Hk, !Hl; unfold c_encode_signal, bswap, u64; cbn [Z.eqb Pos.eqb];
    rewrite !land_mask by lia; rewrite Z.pow_0_r, Z.mul_1_r, ?Z.div_1_r.
  - rewrite !(Z.mod_small v (2 ^ 32)) by exact Hv. pose proof (bswap32_range v) as Hr.
    rewrite !(Z.mod_small (bswap32 v) (2 ^ 32)) by exact Hr. split; [reflexivity|]. now rewrite bswap32_invol by exact Hv.
  - rewrite !(Z.mod_small v (2 ^ 64)) by exact Hv. split; [reflexivity|]. now rewrite bswap64_invol by exact Hv.
Qed.

(* ---------- and in a message of several signals it fails ---------- *)
Definition mkpiece (nm : string) (t : sty) (s l : Z) (big : bool) : piece :=
  {| ppath := [nm]; pname := nm; pty := t; pstart := s; plen := l; pend := "little"%string; punit := None;
     pext := if big then [("endianness"%string, XStr "big")] else [] |}.

(* struct Msg { s0 @0: i8, s1 @1: u16 } with s1 big-endian, value (0, 1): the swap of the 16 low bits of the shifted bitfield
   puts the signal's low byte into the first signal's place; the frame decodes to (1, 0) *)
Lemma c06_refuted_big_endian_offset_lemma :
  let ps := [mkpiece "s0" (SI 8) 0 8 false; mkpiece "s1" (SU 16) 8 16 true] in
  let f := c_encode_msg 1 ps [0; 1] in
  cf_word f = 1 /\ c_decode_msg ps f = [1; 0].
Proof. vm_compute. split; reflexivity. Qed.

(* struct Msg { s0 @0: i32, s1 @1: i16, s3 @3: u8 } with s0 big-endian, value (-1, -1, 0): swap_int32's result is converted to
   uint64_t with its sign, every bit of the word is set and the u8 after it decodes to 255 *)
Lemma c06_refuted_big_endian_sign_extension_lemma :
  let ps := [mkpiece "s0" (SI 32) 0 32 true; mkpiece "s1" (SI 16) 32 16 false; mkpiece "s3" (SU 8) 48 8 false] in
  let f := c_encode_msg 1 ps [-1; -1; 0] in
  cf_word f = 2 ^ 64 - 1 /\ c_decode_msg ps f = [-1; -1; 255].
Proof. vm_compute. split; reflexivity. Qed.

(* the hypotheses of the two theorems are met by a real piece *)
Example c_big_single_nonvacuous :
  let p := mkpiece "s0" (SI 16) 0 16 true in
  is_big p = true /\ kind_of p = KI 16 /\ c_in_range p (-2) = true /\
  c_decode_msg [p] (c_encode_msg 7 [p] [-2]) = [-2] /\ cf_word (c_encode_msg 7 [p] [-2]) mod 2 ^ 16 = 65279.
Proof. vm_compute. repeat split; reflexivity. Qed.
