(* The Python run-time the translated helpers of can_c_writer.py (gen/PyCanC.v) run on.  Hand-written (trusted).  No proofs here. *)
From Coq Require Import String Ascii ZArith List Bool.

(* s.startswith(prefix) *)
Fixpoint py_startswith (s prefix : string) : bool :=
  match prefix, s with
  | EmptyString, _ => true
  | String a p', String b s' => Ascii.eqb a b && py_startswith s' p'
  | String _ _, EmptyString => false
  end.

(* ---------- initialize_can_data / map_messages_to_devices ---------- *)
From FcpV Require Import Schema.Types Layout.Packed Dbc.DbcModel.
Import ListNotations.

(* CanMessage(frame_id, name_pascal, dlc, signals, senders, period) *)
Record cmsg (S : Type) := { c_frame_id : Z; c_name : string; c_dlc : Z; c_signals : S; c_senders : list string; c_period : Z }.
Arguments c_frame_id {S} _. Arguments c_name {S} _. Arguments c_dlc {S} _. Arguments c_signals {S} _. Arguments c_senders {S} _. Arguments c_period {S} _.

(* d.setdefault(k, []).append(x): a dict in insertion order *)
Fixpoint setdefault_append {A : Type} (d : list (string * list A)) (k : string) (x : A) : list (string * list A) :=
  match d with
  | [] => [(k, [x])]
  | (k', l) :: d' => if String.eqb k' k then (k', l ++ [x]) :: d' else (k', l) :: setdefault_append d' k x
  end.

(* extension.fields.get(key, default) read as a string / as an integer (the model's reading of binding fields, as in Dbc.DbcModel) *)
Definition impl_str_default (im : simpl) (k default : string) : string := match impl_str im k with Some s => s | None => default end.
Definition impl_int_default (im : simpl) (k : string) (default : Z) : Z := match impl_int im k with Some z => z | None => default end.

(* ---------- create_can_signals ---------- *)
(* CanSignal(...) as create_can_signals builds it (before __post_init__) *)
Record csignal := { cs_name : string; cs_start_bit : Z; cs_bit_length : Z; cs_data_type : string; cs_scalar_type : string;
                    cs_byte_order : string; cs_signed : bool; cs_is_multiplexer : bool; cs_multiplexer_ids : option (list Z);
                    cs_multiplexer_signal : option string }.

(* piece.type.name: "u8", "i12", "f32", "f64", "str", or the name of the enum / struct *)
Definition piece_type_name (p : piece) : string :=
  match pty p with
  | SU n => "u" ++ dec_str n
  | SI n => "i" ++ dec_str n
  | SF32 => "f32" | SF64 => "f64" | SStr => "str"
  | SEnumRef s | SStructRef s => s
  | SArr _ _ => "Array" | SDyn _ => "DynamicArray" | SOpt _ => "Optional"
  end.

(* piece.extended_data.get(k, "<other>") == v   for a string v *)
Definition ext_str_is (p : piece) (k v : string) : bool :=
  match ext_str p k with Some s => String.eqb s v | None => false end.

(* bool(x) for x a string or None *)
Definition truthy_ostr (o : option string) : bool := match o with Some s => negb (String.eqb s "") | None => false end.
