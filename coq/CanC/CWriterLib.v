(* The Python run-time the translated helpers of can_c_writer.py (gen/PyCanC.v) run on.  Hand-written (trusted).  No proofs here. *)
From Coq Require Import String Ascii ZArith List Bool.

(* s.startswith(prefix) *)
Fixpoint py_startswith (s prefix : string) : bool :=
  match prefix, s with
  | EmptyString, _ => true
  | String a p', String b s' => Ascii.eqb a b && py_startswith s' p'
  | String _ _, EmptyString => false
  end.
